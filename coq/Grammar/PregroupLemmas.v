(* Proofs about the pregroup front-end: eager_parse and brute_force. *)
From Coq Require Import List ZArith Bool Lia.
Import ListNotations.
Require Import DV.Common.Base DV.Common.ListLemmas DV.Core.Diagram DV.Core.WF
  DV.Core.DiagramLemmas DV.Core.Perm DV.Core.Rigid DV.Grammar.Pregroup.
Open Scope Z_scope.

(* ------------------------------------------------------------ slicing facts *)
Lemma py_slice_app3 {A} (a b c : list A) :
  py_slice (a ++ b ++ c) (Some (len a)) (Some (len a + len b)) = b.
Proof.
  rewrite py_slice_mid by (pose proof (len_nonneg a); pose proof (len_nonneg b); lia).
  rewrite !len_app. pose proof (len_nonneg a). pose proof (len_nonneg b). pose proof (len_nonneg c).
  rewrite !Z.min_l by lia.
  replace (len a + len b - len a) with (len b) by lia.
  unfold len. rewrite !Nat2Z.id. rewrite skipn_app_exact. apply firstn_app_exact.
Qed.

Lemma py_slice_app_prefix {A} (a b : list A) : py_slice (a ++ b) None (Some (len a)) = a.
Proof.
  rewrite py_slice_prefix by apply len_nonneg. unfold len. rewrite Nat2Z.id. apply firstn_app_exact.
Qed.

Lemma py_slice_app_suffix {A} (a b : list A) : py_slice (a ++ b) (Some (len a)) None = b.
Proof.
  rewrite py_slice_suffix by apply len_nonneg. unfold len. rewrite Nat2Z.id. apply skipn_app_exact.
Qed.

(* the four slices eager_parse takes around an adjacent pair *)
Lemma slices_around (pre post : ty) x y :
  let scan := pre ++ [x; y] ++ post in
  let iz := Z.of_nat (length pre) in
  py_slice scan (Some iz) (Some (iz + 1)) = [x] /\
  py_slice scan (Some (iz + 1)) (Some (iz + 2)) = [y] /\
  py_slice scan None (Some iz) = pre /\
  py_slice scan (Some (iz + 2)) None = post.
Proof.
  cbn zeta. change (Z.of_nat (length pre)) with (len pre). repeat split.
  - change (pre ++ [x; y] ++ post) with (pre ++ [x] ++ (y :: post)).
    change 1 with (len [x]). apply py_slice_app3.
  - replace (pre ++ [x; y] ++ post) with ((pre ++ [x]) ++ [y] ++ post) by (rewrite <- app_assoc; reflexivity).
    replace (len pre + 1) with (len (pre ++ [x])) by (rewrite len_app; reflexivity).
    replace (len pre + 2) with (len (pre ++ [x]) + len [y]) by (rewrite len_app; cbn; lia).
    apply py_slice_app3.
  - apply py_slice_app_prefix.
  - replace (pre ++ [x; y] ++ post) with ((pre ++ [x; y]) ++ post) by (rewrite <- app_assoc; reflexivity).
    replace (len pre + 2) with (len (pre ++ [x; y])) by (rewrite len_app; cbn; lia).
    apply py_slice_app_suffix.
Qed.

Lemma split_at_pair (scan : ty) i : (S i < length scan)%nat ->
  exists pre x y post, scan = pre ++ [x; y] ++ post /\ length pre = i.
Proof.
  intros H.
  destruct (nth_error scan i) as [x|] eqn:Ex; [|apply nth_error_None in Ex; lia].
  destruct (nth_error scan (S i)) as [y|] eqn:Ey; [|apply nth_error_None in Ey; lia].
  exists (firstn i scan), x, y, (skipn (2 + i) scan). split.
  - apply nth_error_split3; auto.
  - rewrite firstn_length. lia.
Qed.

(* ------------------------------------------------------------ the pair search *)
Definition adjacent_pair_at (scan : ty) (k : nat) : Prop :=
  exists pre x post, scan = pre ++ [x; ob_r x] ++ post /\ length pre = k.

Lemma ob_eqb_refl x : ob_eqb x x = true.
Proof. apply ob_eqb_eq. reflexivity. Qed.

Lemma pair_test (pre post : ty) x y :
  let scan := pre ++ [x; y] ++ post in
  let iz := Z.of_nat (length pre) in
  ty_eqb (ty_r (py_slice scan (Some iz) (Some (iz + 1)))) (py_slice scan (Some (iz + 1)) (Some (iz + 2))) = true
  <-> y = ob_r x.
Proof.
  cbn zeta. destruct (slices_around pre post x y) as (-> & -> & _ & _).
  rewrite ty_eqb_eq. cbn. split; intros H; [inversion H; auto|subst; auto].
Qed.

Lemma find_pair_some scan n : forall i k, (i + n < length scan)%nat ->
  find_pair scan i n = Some k ->
  adjacent_pair_at scan k /\ (i <= k)%nat /\
  forall j, (i <= j < k)%nat -> ~ adjacent_pair_at scan j.
Proof.
  induction n as [|n IH]; intros i k Hr H; cbn [find_pair] in H; [discriminate|].
  destruct (split_at_pair scan i) as (pre & x & y & post & Hs & Hl); [lia|].
  pose proof (pair_test pre post x y) as T. cbn zeta in T. rewrite <- Hs, Hl in T.
  destruct (ty_eqb _ _) eqn:E.
  - inversion H; subst k. split; [|split; [lia|intros; lia]].
    exists pre, x, post. split; [|auto]. destruct T as [T _]. specialize (T eq_refl). subst y. exact Hs.
  - destruct (IH (S i) k) as (A & B & C); [lia|exact H|]. split; [exact A|]. split; [lia|].
    intros j Hj. destruct (Nat.eq_dec j i) as [->|Hne]; [|apply C; lia].
    intros (pre' & x' & post' & Hs' & Hl').
    rewrite Hs in Hs'. apply app_eq_len_split in Hs'; [|lia]. destruct Hs' as [_ Hs'].
    inversion Hs'; subst. destruct T as [_ T]. specialize (T eq_refl). discriminate.
Qed.

Lemma find_pair_none scan n : forall i, (i + n < length scan)%nat ->
  find_pair scan i n = None -> forall j, (i <= j < i + n)%nat -> ~ adjacent_pair_at scan j.
Proof.
  induction n as [|n IH]; intros i Hr H j Hj; [lia|]. cbn [find_pair] in H.
  destruct (split_at_pair scan i) as (pre & x & y & post & Hs & Hl); [lia|].
  pose proof (pair_test pre post x y) as T. cbn zeta in T. rewrite <- Hs, Hl in T.
  destruct (ty_eqb _ _) eqn:E; [discriminate|].
  destruct (Nat.eq_dec j i) as [->|Hne]; [|apply (IH (S i)); auto; lia].
  intros (pre' & x' & post' & Hs' & Hl').
  rewrite Hs in Hs'. apply app_eq_len_split in Hs'; [|lia]. destruct Hs' as [_ Hs'].
  inversion Hs'; subst. destruct T as [_ T]. specialize (T eq_refl). discriminate.
Qed.

Lemma find_pair_top scan k : find_pair scan 0 (length scan - 1) = Some k ->
  adjacent_pair_at scan k /\ (0 <= k)%nat /\
  forall j, (0 <= j < k)%nat -> ~ adjacent_pair_at scan j.
Proof.
  destruct scan as [|a scan']; [discriminate|]. apply find_pair_some. cbn [length]. lia.
Qed.

(* ------------------------------------------------------------ the cup layer *)
Lemma cup_box_adj x : cup_box [x] [ob_r x] = Ok (Box KCup (-2) [x; ob_r x] [] false None).
Proof.
  unfold cup_box, adjoint_ok. cbn [len length Z.of_nat Z.eqb andb negb Pos.eqb Pos.of_succ_nat].
  replace (ty_eqb (ty_r [x]) [ob_r x]) with true by (symmetry; apply ty_eqb_refl). reflexivity.
Qed.

(* a cup between a type and its right adjoint *)
Definition is_adj_cup (b : box) : Prop :=
  bk b = KCup /\ bcod b = [] /\ exists x, bdom b = [x; ob_r x].

Lemma cup_layer (pre post : ty) x :
  exists lay, let scan := pre ++ [x; ob_r x] ++ post in let iz := Z.of_nat (length pre) in
    (do cup <- cup_box (py_slice scan (Some iz) (Some (iz + 1))) (py_slice scan (Some (iz + 1)) (Some (iz + 2)));
     do t1 <- dtensor (did (py_slice scan None (Some iz))) (dbox cup);
     dtensor t1 (did (py_slice scan (Some (iz + 2)) None))) = Ok lay /\
    wf lay /\ ddom lay = scan /\ dcod lay = pre ++ post /\
    dboxes lay = [Box KCup (-2) [x; ob_r x] [] false None] /\ doffs lay = [len pre].
Proof.
  cbn zeta. destruct (slices_around pre post x (ob_r x)) as (-> & -> & -> & ->).
  rewrite cup_box_adj. cbn [bind].
  set (c := Box KCup (-2) [x; ob_r x] [] false None).
  destruct (dtensor_ok (did pre) (dbox c) (did_wf _) (dbox_wf _)) as (t1 & E1 & W1 & D1 & C1 & B1 & O1).
  rewrite E1. cbn [bind].
  destruct (dtensor_ok t1 (did post) W1 (did_wf _)) as (lay & E2 & W2 & D2 & C2 & B2 & O2).
  exists lay. rewrite E2. split; [reflexivity|]. split; [exact W2|].
  cbn [did dbox ddom dcod dboxes doffs bdom bcod c app map] in *.
  rewrite D2, C2, B2, O2, D1, C1, B1, O1. rewrite <- !app_assoc. cbn [app].
  repeat split; auto.
Qed.

(* ------------------------------------------------------------ tensor of the words *)
Fixpoint word_offs (start : Z) (ws : list word) : list Z :=
  match ws with
  | [] => []
  | w :: ws' => start :: word_offs (start + len (snd w)) ws'
  end.

Lemma tensor_all_words ws : forall acc, wf acc ->
  exists d, tensor_all acc (map word_diagram ws) = Ok d /\ wf d /\
    ddom d = ddom acc /\ dcod d = dcod acc ++ flat_map snd ws /\
    dboxes d = dboxes acc ++ map word_box ws /\
    doffs d = doffs acc ++ word_offs (len (dcod acc)) ws.
Proof.
  induction ws as [|w ws IH]; intros acc W; cbn [map tensor_all flat_map word_offs].
  - exists acc. rewrite !app_nil_r. split; [reflexivity|]. split; [exact W|]. repeat split; reflexivity.
  - destruct (dtensor_ok acc (word_diagram w) W (dbox_wf _)) as (a & Ea & Wa & Da & Ca & Ba & Oa).
    rewrite Ea. cbn [bind]. destruct (IH a Wa) as (d & Ed & Wd & Dd & Cd & Bd & Od).
    exists d. split; [exact Ed|]. split; [exact Wd|].
    unfold word_diagram in *. cbn [dbox word_box ddom dcod dboxes doffs bdom bcod map] in *.
    rewrite Dd, Cd, Bd, Od, Da, Ca, Ba, Oa, app_nil_r, len_app, <- !app_assoc. cbn [app].
    repeat split; auto.
Qed.

(* ------------------------------------------------------------ the loop invariant *)
Definition parse_inv (ws : list word) (d : diagram) : Prop :=
  wf d /\ ddom d = [] /\
  exists cups offs, dboxes d = map word_box ws ++ cups /\ Forall is_adj_cup cups /\
    doffs d = word_offs 0 ws ++ offs.

Lemma eager_loop_spec ws target fuel : forall result d,
  parse_inv ws result -> eager_loop fuel result target = Ok d ->
  parse_inv ws d /\ dcod d = target.
Proof.
  induction fuel as [|fuel IH]; intros result d Inv H; cbn [eager_loop] in H; [discriminate|].
  destruct (find_pair (dcod result) 0 (length (dcod result) - 1)) as [i|] eqn:F.
  - apply find_pair_top in F.
    destruct F as ((pre & x & post & Hs & Hl) & _ & _).
    destruct (cup_layer pre post x) as (lay & El & Wl & Dl & Cl & Bl & Ol). cbn zeta in El.
    rewrite <- Hs, Hl in El.
    destruct (cup_box _ _) as [cup|]; [cbn [bind] in El, H|discriminate].
    destruct (dtensor _ (dbox cup)) as [t1|]; [cbn [bind] in El, H|discriminate].
    rewrite El in H. cbn [bind] in H.
    destruct Inv as (W & D0 & cups & offs & B & FC & O).
    destruct (dthen result lay) as [r'|] eqn:Et; [cbn [bind] in H|discriminate].
    destruct (dthen_wf _ _ _ W Wl Et) as (W' & D' & C').
    destruct (dthen_inv _ _ _ Et) as (_ & ->).
    assert (Inv' : parse_inv ws (D (ddom result) (dcod lay) (dboxes result ++ dboxes lay) (doffs result ++ doffs lay)
                    (LA (la_dom (dlayers result)) (la_cod (dlayers lay)) (la_ls (dlayers result) ++ la_ls (dlayers lay))))).
    { split; [exact W'|]. split; [exact D0|]. cbn [dboxes doffs].
      exists (cups ++ dboxes lay), (offs ++ doffs lay). rewrite B, O, <- !app_assoc.
      split; [reflexivity|]. split; [|reflexivity].
      apply Forall_app. split; [exact FC|]. rewrite Bl. constructor; [|constructor].
      unfold is_adj_cup. cbn. repeat split; eauto. }
    destruct (ty_eqb _ target) eqn:Eq.
    + inversion H; subst d. split; [exact Inv'|]. apply ty_eqb_eq in Eq. exact Eq.
    + eapply IH; [exact Inv'|exact H].
  - destruct (ty_eqb (dcod result) target) eqn:Eq; [|discriminate].
    inversion H; subst d. split; [exact Inv|]. apply ty_eqb_eq. exact Eq.
Qed.

(* the loop never raises anything but NotImplementedError and never runs out of
   fuel: every contraction removes two wires *)
Lemma eager_loop_err target fuel : forall result e,
  wf result -> (length (dcod result) < fuel)%nat ->
  eager_loop fuel result target = Err e -> e = NotImplementedError.
Proof.
  induction fuel as [|fuel IH]; intros result e W Hf H; [lia|]. cbn [eager_loop] in H.
  destruct (find_pair (dcod result) 0 (length (dcod result) - 1)) as [i|] eqn:F.
  - apply find_pair_top in F.
    destruct F as ((pre & x & post & Hs & Hl) & _ & _).
    destruct (cup_layer pre post x) as (lay & El & Wl & Dl & Cl & Bl & Ol). cbn zeta in El.
    rewrite <- Hs, Hl in El.
    destruct (cup_box _ _) as [cup|]; [cbn [bind] in El, H|discriminate].
    destruct (dtensor _ (dbox cup)) as [t1|]; [cbn [bind] in El, H|discriminate].
    rewrite El in H. cbn [bind] in H.
    destruct (dthen_ok result lay W Wl) as (r' & Et & W' & D' & C' & _); [congruence|].
    rewrite Et in H. cbn [bind] in H.
    destruct (ty_eqb _ target); [discriminate|].
    eapply IH; [exact W'| |exact H]. rewrite C', Cl. rewrite Hs in Hf.
    rewrite !app_length in *. cbn [length] in Hf. lia.
  - destruct (ty_eqb _ _); [discriminate|]. inversion H; reflexivity.
Qed.

(* ------------------------------------------------------------ eager_parse *)
Definition parse_of (ws : list word) (target : ty) (d : diagram) : Prop :=
  wf d /\ ddom d = [] /\ dcod d = target /\
  exists cups offs, dboxes d = map word_box ws ++ cups /\ Forall is_adj_cup cups /\
    doffs d = word_offs 0 ws ++ offs.

Theorem eager_parse_spec_lemma ws target d : eager_parse ws target = Ok d -> parse_of ws target d.
Proof.
  unfold eager_parse. destruct (tensor_all_words ws (did []) (did_wf _)) as (r & Er & Wr & Dr & Cr & Br & Or).
  rewrite Er. cbn [bind]. intros H.
  destruct (eager_loop_spec ws target (S (length (dcod r))) r d) as ((W & D0 & cups & offs & B & FC & O) & C); [|exact H|].
  - split; [exact Wr|]. split; [rewrite Dr; reflexivity|]. exists [], [].
    cbn [did dboxes doffs dcod app len length Z.of_nat] in *. rewrite !app_nil_r. auto.
  - unfold parse_of. split; [exact W|]. split; [exact D0|]. split; [exact C|]. eauto.
Qed.

Theorem eager_parse_err_lemma ws target e : eager_parse ws target = Err e -> e = NotImplementedError.
Proof.
  unfold eager_parse. destruct (tensor_all_words ws (did []) (did_wf _)) as (r & Er & Wr & _).
  rewrite Er. cbn [bind]. apply eager_loop_err; [exact Wr|lia].
Qed.

(* reading the cups off a parse: contracting adjacent (t, t.r) pairs leads from
   the concatenated word types to the target *)
Inductive contracts : ty -> ty -> Prop :=
| contracts_refl t : contracts t t
| contracts_step pre x post t : contracts (pre ++ post) t -> contracts (pre ++ [x; ob_r x] ++ post) t.

Lemma contracts_trans a b c : contracts a b -> contracts b c -> contracts a c.
Proof. induction 1; auto. intros. constructor. auto. Qed.

Lemma eager_loop_contracts target fuel : forall result d,
  wf result -> eager_loop fuel result target = Ok d -> contracts (dcod result) (dcod d).
Proof.
  induction fuel as [|fuel IH]; intros result d W H; cbn [eager_loop] in H; [discriminate|].
  destruct (find_pair (dcod result) 0 (length (dcod result) - 1)) as [i|] eqn:F.
  - apply find_pair_top in F.
    destruct F as ((pre & x & post & Hs & Hl) & _ & _).
    destruct (cup_layer pre post x) as (lay & El & Wl & Dl & Cl & Bl & Ol). cbn zeta in El.
    rewrite <- Hs, Hl in El.
    destruct (cup_box _ _) as [cup|]; [cbn [bind] in El, H|discriminate].
    destruct (dtensor _ (dbox cup)) as [t1|]; [cbn [bind] in El, H|discriminate].
    rewrite El in H. cbn [bind] in H.
    destruct (dthen result lay) as [r'|] eqn:Et; [cbn [bind] in H|discriminate].
    destruct (dthen_wf _ _ _ W Wl Et) as (W' & D' & C').
    rewrite Hs. constructor. rewrite <- Cl, <- C'.
    destruct (ty_eqb _ target); [inversion H; subst; constructor|]. eapply IH; eauto.
  - destruct (ty_eqb _ _); [|discriminate]. inversion H; subst. constructor.
Qed.

Theorem eager_parse_contracts ws target d : eager_parse ws target = Ok d ->
  contracts (flat_map snd ws) target.
Proof.
  intros H. pose proof (eager_parse_spec_lemma _ _ _ H) as (_ & _ & C & _).
  unfold eager_parse in H. destruct (tensor_all_words ws (did []) (did_wf _)) as (r & Er & Wr & Dr & Cr & _).
  rewrite Er in H. cbn [bind] in H. apply eager_loop_contracts in H; [|exact Wr].
  rewrite Cr, C in H. exact H.
Qed.

(* ------------------------------------------------------------ brute force *)
Definition over_vocab (vocab : list word) (ws : list word) : Prop := Forall (fun w => In w vocab) ws.

Lemma extend_over vocab level : Forall (over_vocab vocab) level ->
  Forall (fun ws => ws <> [] /\ over_vocab vocab ws) (extend vocab level).
Proof.
  intros H. apply Forall_forall. intros ws Hin. unfold extend in Hin.
  apply in_flat_map in Hin. destruct Hin as (pre & Hp & Hin). apply in_map_iff in Hin.
  destruct Hin as (w & <- & Hw). rewrite Forall_forall in H. split.
  - destruct pre; discriminate.
  - apply Forall_app. split; [apply H; exact Hp|]. constructor; [exact Hw|constructor].
Qed.

Lemma Forall_firstn {A} (P : A -> Prop) n l : Forall P l -> Forall P (firstn n l).
Proof.
  intros H. apply Forall_forall. intros x Hx. rewrite Forall_forall in H. apply H.
  rewrite <- (firstn_skipn n l). apply in_or_app. auto.
Qed.

Lemma candidates_from_over vocab fuel : forall level m, Forall (over_vocab vocab) level ->
  Forall (fun ws => ws <> [] /\ over_vocab vocab ws) (candidates_from vocab level m fuel).
Proof.
  induction fuel as [|fuel IH]; intros level m H; cbn [candidates_from]; [constructor|].
  pose proof (extend_over vocab level H) as E.
  destruct (extend vocab level) as [|c next'] eqn:En; [constructor|].
  destruct (Nat.leb m _); [apply Forall_firstn; exact E|].
  apply Forall_app. split; [exact E|]. apply IH.
  eapply Forall_impl; [|exact E]. cbn. tauto.
Qed.

Lemma candidates_over vocab m :
  Forall (fun ws => ws <> [] /\ over_vocab vocab ws) (candidates vocab m).
Proof. apply candidates_from_over. constructor; [constructor|constructor]. Qed.

Lemma bf_collect_sound target cands : forall n ds, bf_collect cands target n = Ok ds ->
  (length ds <= n)%nat /\
  Forall (fun d => exists ws, In ws cands /\ eager_parse ws target = Ok d) ds.
Proof.
  induction cands as [|ws rest IH]; intros n ds H.
  - destruct n; cbn in H; inversion H; subst; cbn; split; auto; lia.
  - destruct n as [|n]; cbn [bf_collect] in H; [inversion H; subst; cbn; split; auto; lia|].
    destruct (eager_parse ws target) as [d|e] eqn:E.
    + destruct (bf_collect rest target n) as [ds'|] eqn:E'; [|discriminate]. cbn [bind] in H.
      inversion H; subst ds. destruct (IH _ _ E') as (L & Fa). split; [cbn; lia|].
      constructor; [exists ws; split; [left; reflexivity|exact E]|].
      eapply Forall_impl; [|exact Fa]. cbn. intros a (w & Hw & Ha). exists w. split; [right; exact Hw|exact Ha].
    + assert (He : e = NotImplementedError) by (eapply eager_parse_err_lemma; eauto). subst e.
      destruct (IH _ _ H) as (L & Fa). split; [exact L|].
      eapply Forall_impl; [|exact Fa]. cbn. intros a (w & Hw & Ha). exists w. split; [right; exact Hw|exact Ha].
Qed.

Theorem brute_force_sound_lemma vocab target n m ds : brute_force vocab target n m = Ok ds ->
  (length ds <= n)%nat /\
  Forall (fun d => exists ws, ws <> [] /\ over_vocab vocab ws /\ parse_of ws target d) ds.
Proof.
  unfold brute_force. intros H. destruct (bf_collect_sound _ _ _ _ H) as (L & Fa). split; [exact L|].
  eapply Forall_impl; [|exact Fa]. cbn. intros d (ws & Hin & E).
  pose proof (candidates_over vocab m) as C. rewrite Forall_forall in C. destruct (C _ Hin) as (Hne & Hov).
  exists ws. split; [exact Hne|]. split; [exact Hov|]. apply eager_parse_spec_lemma. exact E.
Qed.

Theorem brute_force_total vocab target n m : exists ds, brute_force vocab target n m = Ok ds.
Proof.
  unfold brute_force. generalize (candidates vocab m). intros cands. revert n.
  induction cands as [|ws rest IH]; intros n.
  - destruct n; cbn; eauto.
  - destruct n as [|n]; cbn [bf_collect]; [eauto|].
    destruct (eager_parse ws target) as [d|e] eqn:E.
    + destruct (IH n) as (ds & ->). cbn. eauto.
    + rewrite (eager_parse_err_lemma _ _ _ E). apply IH.
Qed.

(* ------------------------------------------------------------ non-vacuity *)
(* Alice loves Bob: n, n.r s n.l, n  parses to s with two cups *)
Example eager_parse_example :
  let n := Ob 1 0 in let s := Ob 2 0 in
  exists d, eager_parse [(10, [n]); (11, [ob_r n; s; ob_l n]); (12, [n])] [s] = Ok d /\
            length (dboxes d) = 5%nat /\ doffs d = [0; 1; 4; 0; 1].
Proof. cbn zeta. eexists. split; [vm_compute; reflexivity|]. split; reflexivity. Qed.

(* (t.r, t) is not contracted *)
Example eager_parse_refuses_wrong_side :
  let n := Ob 1 0 in let s := Ob 2 0 in
  eager_parse [(10, [ob_r n]); (11, [n; s])] [s] = Err NotImplementedError.
Proof. vm_compute. reflexivity. Qed.

Example brute_force_example :
  let n := Ob 1 0 in let s := Ob 2 0 in
  exists ds, brute_force [(10, [n]); (11, [ob_r n; s])] [s] 3 30 = Ok ds /\ length ds = 1%nat.
Proof. cbn zeta. eexists. split; [vm_compute; reflexivity|reflexivity]. Qed.
