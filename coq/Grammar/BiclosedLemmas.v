(* Proofs about the biclosed -> rigid translation: the object map is a monoid
   homomorphism, every rule image has the translated domain and codomain, and
   so has the image of every well-typed biclosed diagram. *)
From Coq Require Import List ZArith Bool Lia.
Import ListNotations.
Require Import DV.Common.Base DV.Common.ListLemmas DV.Core.Diagram DV.Core.WF
  DV.Core.DiagramLemmas DV.Core.Perm DV.Core.Route DV.Core.PermLemmas DV.Core.Rigid
  DV.Grammar.Biclosed.
Open Scope Z_scope.

(* ------------------------------------------------------------ induction on slash types *)
Section BobInd.
  Variable P : bob -> Prop.
  Hypothesis Hatom : forall n, P (BAtom n).
  Hypothesis Hover : forall l r, Forall P l -> Forall P r -> P (BOver l r).
  Hypothesis Hunder : forall l r, Forall P l -> Forall P r -> P (BUnder l r).
  Fixpoint bob_ind' (x : bob) : P x :=
    let fix go (t : list bob) : Forall P t :=
      match t with
      | [] => Forall_nil P
      | y :: t' => Forall_cons y (bob_ind' y) (go t')
      end in
    match x with
    | BAtom n => Hatom n
    | BOver l r => Hover l r (go l) (go r)
    | BUnder l r => Hunder l r (go l) (go r)
    end.
End BobInd.

Lemma bob_eqb_over l r l' r' :
  bob_eqb (BOver l r) (BOver l' r') = list_eqb bob_eqb l l' && list_eqb bob_eqb r r'.
Proof.
  cbn [bob_eqb]. f_equal.
  - revert l'. induction l as [|p l IH]; destruct l'; cbn; auto. rewrite IH. reflexivity.
  - revert r'. induction r as [|p r IH]; destruct r'; cbn; auto. rewrite IH. reflexivity.
Qed.
Lemma bob_eqb_under l r l' r' :
  bob_eqb (BUnder l r) (BUnder l' r') = list_eqb bob_eqb l l' && list_eqb bob_eqb r r'.
Proof.
  cbn [bob_eqb]. f_equal.
  - revert l'. induction l as [|p l IH]; destruct l'; cbn; auto. rewrite IH. reflexivity.
  - revert r'. induction r as [|p r IH]; destruct r'; cbn; auto. rewrite IH. reflexivity.
Qed.

Lemma list_eqb_Forall {A} (eqb : A -> A -> bool) l :
  Forall (fun x => forall y, eqb x y = true <-> x = y) l ->
  forall l', list_eqb eqb l l' = true <-> l = l'.
Proof.
  induction 1 as [|x l Hx Hl IH]; intros [|y l']; cbn; try (split; congruence).
  rewrite andb_true_iff, Hx, IH. split; [intros []; congruence|intros H'; inversion H'; auto].
Qed.

Lemma bob_eqb_eq : forall a b, bob_eqb a b = true <-> a = b.
Proof.
  induction a as [n|l r Hl Hr|l r Hl Hr] using bob_ind'; intros [m|l' r'|l' r'];
    try (cbn; split; congruence).
  - cbn. rewrite Z.eqb_eq. split; congruence.
  - rewrite bob_eqb_over, andb_true_iff, (list_eqb_Forall _ _ Hl), (list_eqb_Forall _ _ Hr).
    split; [intros []; congruence|intros H; inversion H; auto].
  - rewrite bob_eqb_under, andb_true_iff, (list_eqb_Forall _ _ Hl), (list_eqb_Forall _ _ Hr).
    split; [intros []; congruence|intros H; inversion H; auto].
Qed.

Lemma bty_eqb_eq a b : bty_eqb a b = true <-> a = b.
Proof. apply list_eqb_eq, bob_eqb_eq. Qed.
Lemma bty_eqb_refl a : bty_eqb a a = true.
Proof. apply bty_eqb_eq. reflexivity. Qed.

(* ------------------------------------------------------------ the object map *)
Lemma F_list_eq l :
  (fix F_list (t : list bob) : ty := match t with [] => [] | y :: t' => F_ob y ++ F_list t' end) l = F_ty l.
Proof. induction l as [|y l IH]; cbn; [reflexivity|]. rewrite IH. reflexivity. Qed.

Lemma F_ob_over l r : F_ob (BOver l r) = F_ty l ++ ty_l (F_ty r).
Proof. cbn [F_ob]. rewrite !F_list_eq. reflexivity. Qed.
Lemma F_ob_under l r : F_ob (BUnder l r) = ty_r (F_ty l) ++ F_ty r.
Proof. cbn [F_ob]. rewrite !F_list_eq. reflexivity. Qed.

Lemma F_ty_app a b : F_ty (a ++ b) = F_ty a ++ F_ty b.
Proof. induction a as [|x a IH]; cbn; [reflexivity|]. rewrite IH, app_assoc. reflexivity. Qed.
Lemma F_ty_one x : F_ty [x] = F_ob x.
Proof. cbn. apply app_nil_r. Qed.

Lemma len_ty_l t : len (ty_l t) = len t.
Proof. unfold ty_l. rewrite len_map, len_rev. reflexivity. Qed.
Lemma len_ty_r t : len (ty_r t) = len t.
Proof. unfold ty_r. rewrite len_map, len_rev. reflexivity. Qed.
Lemma length_ty_l t : length (ty_l t) = length t.
Proof. unfold ty_l. rewrite map_length, rev_length. reflexivity. Qed.
Lemma length_ty_r t : length (ty_r t) = length t.
Proof. unfold ty_r. rewrite map_length, rev_length. reflexivity. Qed.

(* ------------------------------------------------------------ Python slicing, any index *)
Lemma clip_range n z d : 0 <= n -> 0 <= clip n (Some z) d <= n.
Proof. intros. unfold clip. destruct (z <? 0) eqn:E; lia. Qed.
Lemma clip_default n z d d' : clip n (Some z) d = clip n (Some z) d'.
Proof. reflexivity. Qed.

Lemma py_slice_prefix_clip {A} (l : list A) z :
  py_slice l None (Some z) = firstn (Z.to_nat (clip (len l) (Some z) 0)) l.
Proof.
  unfold py_slice, clip. rewrite Z.sub_0_r. reflexivity.
Qed.

Lemma py_slice_suffix_clip {A} (l : list A) z :
  py_slice l (Some z) None = skipn (Z.to_nat (clip (len l) (Some z) 0)) l.
Proof.
  pose proof (clip_range (len l) z 0 (len_nonneg l)) as R. unfold py_slice.
  change (clip (len l) None (len l)) with (len l).
  apply firstn_all2. rewrite skipn_length. unfold len in *. lia.
Qed.

(* l[:z] + l[z:] == l for every z *)
Lemma py_split_any {A} (l : list A) z : py_slice l None (Some z) ++ py_slice l (Some z) None = l.
Proof. rewrite py_slice_prefix_clip, py_slice_suffix_clip. apply firstn_skipn. Qed.

Lemma py_prefix_len {A} (l : list A) : py_slice l None (Some (len l)) = l.
Proof.
  rewrite py_slice_prefix by apply len_nonneg. unfold len. rewrite Nat2Z.id. apply firstn_all.
Qed.
Lemma py_suffix_len {A} (l : list A) : py_slice l (Some (len l)) None = [].
Proof.
  rewrite py_slice_suffix by apply len_nonneg. unfold len. rewrite Nat2Z.id. apply skipn_all.
Qed.
Lemma py_prefix_app {A} (a b : list A) : py_slice (a ++ b) None (Some (len a)) = a.
Proof.
  rewrite py_slice_prefix by apply len_nonneg. unfold len. rewrite Nat2Z.id. apply firstn_app_exact.
Qed.
Lemma py_suffix_app {A} (a b : list A) : py_slice (a ++ b) (Some (len a)) None = b.
Proof.
  rewrite py_slice_suffix by apply len_nonneg. unfold len. rewrite Nat2Z.id. apply skipn_app_exact.
Qed.
Lemma py_prefix_neg {A} (a b : list A) : 0 < len b -> py_slice (a ++ b) None (Some (- len b)) = a.
Proof.
  intros Hb. rewrite py_slice_prefix_clip. unfold clip. rewrite len_app.
  pose proof (len_nonneg a). destruct (- len b <? 0) eqn:E; [|lia].
  replace (Z.max (- len b + (len a + len b)) 0) with (len a) by lia.
  unfold len. rewrite Nat2Z.id. apply firstn_app_exact.
Qed.
Lemma py_suffix_neg {A} (a b : list A) : 0 < len b -> py_slice (a ++ b) (Some (- len b)) None = b.
Proof.
  intros Hb. rewrite py_slice_suffix_clip. unfold clip. rewrite len_app.
  pose proof (len_nonneg a). destruct (- len b <? 0) eqn:E; [|lia].
  replace (Z.max (- len b + (len a + len b)) 0) with (len a) by lia.
  unfold len. rewrite Nat2Z.id. apply skipn_app_exact.
Qed.
Lemma py_prefix_0 {A} (l : list A) : py_slice l None (Some 0) = [].
Proof. rewrite py_slice_prefix by lia. reflexivity. Qed.
Lemma py_suffix_0 {A} (l : list A) : py_slice l (Some 0) None = l.
Proof. rewrite py_slice_suffix by lia. reflexivity. Qed.

(* ------------------------------------------------------------ cups and caps: types *)
Lemma adjoint_ok_length l r : adjoint_ok l r = true -> length r = length l.
Proof.
  unfold adjoint_ok. rewrite orb_true_iff, !ty_eqb_eq. intros [H|H].
  - rewrite <- H. apply length_ty_r.
  - rewrite H. symmetry. apply length_ty_r.
Qed.

Lemma cup_box_shape l r c : cup_box l r = Ok c -> bcod c = [].
Proof.
  unfold cup_box. destruct (negb _); [discriminate|]. destruct (negb _); [discriminate|].
  intros H; inversion H; reflexivity.
Qed.
Lemma cap_box_shape l r c : cap_box l r = Ok c -> bdom c = [].
Proof.
  unfold cap_box. destruct (negb _); [discriminate|]. destruct (negb _); [discriminate|].
  intros H; inversion H; reflexivity.
Qed.

(* what remains after the loop: the outer type of the last layer *)
Lemma cups_loop_types (factory : ty -> ty -> res box) (rv : bool) l r :
  (forall a b c, factory a b = Ok c -> (if rv then bdom c else bcod c) = []) ->
  forall m result i d, wf result ->
  cups_loop factory rv l r result i m = Ok d ->
  wf d /\
  (if rv then dcod d = dcod result else ddom d = ddom result) /\
  (m = O -> d = result) /\
  ((0 < m)%nat ->
   (if rv then ddom d else dcod d) =
     py_slice l None (Some (len l - Z.of_nat (i + m - 1) - 1))
     ++ py_slice r (Some (Z.of_nat (i + m - 1) + 1)) None).
Proof.
  intros Hf. induction m as [|m IH]; intros result i d W H; cbn [cups_loop] in H.
  - inversion H; subst. split; [exact W|]. split; [destruct rv; reflexivity|].
    split; [reflexivity|]. intros; lia.
  - destruct (factory _ _) as [c|] eqn:Ec; [cbn [bind] in H|discriminate].
    destruct (dtensor _ (dbox c)) as [t1|] eqn:E1; [cbn [bind] in H|discriminate].
    destruct (dtensor_wf _ _ _ (did_wf _) (dbox_wf c) E1) as (W1 & D1 & C1).
    destruct (dtensor t1 _) as [lay|] eqn:E2; [cbn [bind] in H|discriminate].
    destruct (dtensor_wf _ _ _ W1 (did_wf _) E2) as (W2 & D2 & C2).
    destruct (if rv then dthen lay result else dthen result lay) as [r'|] eqn:E3; [cbn [bind] in H|discriminate].
    assert (W' : wf r' /\ (if rv then dcod r' = dcod result /\ ddom r' = ddom lay
                           else ddom r' = ddom result /\ dcod r' = dcod lay)).
    { destruct rv; [destruct (dthen_wf _ _ _ W2 W E3) as (? & ? & ?)|destruct (dthen_wf _ _ _ W W2 E3) as (? & ? & ?)]; auto. }
    destruct W' as (W' & T').
    destruct (IH r' (S i) d W' H) as (Wd & Keep & Z0 & Zp). split; [exact Wd|].
    split; [destruct rv; destruct T' as (T1 & T2); congruence|]. split; [lia|]. intros _.
    destruct m as [|m'].
    + rewrite (Z0 eq_refl). replace (i + 1 - 1)%nat with i by lia.
      pose proof (Hf _ _ _ Ec) as Hc.
      cbn [did dbox ddom dcod] in *.
      destruct rv; destruct T' as (T1 & T2); rewrite T2.
      * rewrite D2, D1, Hc. cbn [app]. rewrite app_nil_r. reflexivity.
      * rewrite C2, C1, Hc. cbn [app]. rewrite app_nil_r. reflexivity.
    + replace (i + S (S m') - 1)%nat with (S i + S m' - 1)%nat by lia. apply Zp. lia.
Qed.

Theorem dcups_types l r d : dcups l r = Ok d -> wf d /\ ddom d = l ++ r /\ dcod d = [].
Proof.
  unfold dcups. destruct (negb (adjoint_ok l r)) eqn:A; [discriminate|]. apply negb_false_iff in A.
  pose proof (adjoint_ok_length _ _ A) as Hl. intros H.
  destruct (cups_loop_types cup_box false l r (fun a b c => cup_box_shape a b c) _ _ _ _ (did_wf _) H)
    as (W & D0 & Z0 & Zp).
  split; [exact W|]. split; [exact D0|].
  destruct l as [|x l'].
  - destruct r; [|discriminate]. rewrite (Z0 eq_refl). reflexivity.
  - rewrite Zp by (cbn; lia). cbn [Nat.add].
    replace (len (x :: l') - Z.of_nat (length (x :: l') - 1) - 1) with 0
      by (unfold len; cbn [length]; lia).
    replace (Z.of_nat (length (x :: l') - 1) + 1) with (len r) by (unfold len; rewrite Hl; cbn [length]; lia).
    rewrite py_prefix_0, py_suffix_len. reflexivity.
Qed.

Theorem dcaps_types l r d : dcaps l r = Ok d -> wf d /\ ddom d = [] /\ dcod d = l ++ r.
Proof.
  unfold dcaps. destruct (negb (adjoint_ok l r)) eqn:A; [discriminate|]. apply negb_false_iff in A.
  pose proof (adjoint_ok_length _ _ A) as Hl. intros H.
  destruct (cups_loop_types cap_box true l r (fun a b c => cap_box_shape a b c) _ _ _ _ (did_wf _) H)
    as (W & D0 & Z0 & Zp).
  split; [exact W|]. split; [|exact D0].
  destruct l as [|x l'].
  - destruct r; [|discriminate]. rewrite (Z0 eq_refl). reflexivity.
  - rewrite Zp by (cbn; lia). cbn [Nat.add].
    replace (len (x :: l') - Z.of_nat (length (x :: l') - 1) - 1) with 0
      by (unfold len; cbn [length]; lia).
    replace (Z.of_nat (length (x :: l') - 1) + 1) with (len r) by (unfold len; rewrite Hl; cbn [length]; lia).
    rewrite py_prefix_0, py_suffix_len. reflexivity.
Qed.

Lemma dswap_types l r d : dswap l r = Ok d -> wf d /\ ddom d = l ++ r /\ dcod d = r ++ l.
Proof. intros H. destruct (dswap_spec _ _ _ H) as (W & D0 & C0 & _). auto. Qed.

(* ------------------------------------------------------------ the seven rule images *)
Ltac step H x E :=
  match type of H with
  | (do _ <- ?e; _) = Ok _ => destruct e as [x|] eqn:E; [cbn [bind] in H|discriminate]
  end.

Lemma rfa_types L R d : rfa L R = Ok d ->
  wf d /\ ddom d = L ++ R /\ dcod d = py_slice L None (Some (py_or (- len R) (len L))).
Proof.
  unfold rfa. intros H. step H c E1.
  destruct (dcups_types _ _ _ E1) as (Wc & Dc & Cc).
  destruct (dtensor_wf _ _ _ (did_wf _) Wc H) as (W & D0 & C0). split; [exact W|].
  cbn [did ddom dcod] in *. rewrite D0, C0, Dc, Cc, app_nil_r, app_assoc, py_split_any. auto.
Qed.

Lemma rba_types L R d : rba L R = Ok d ->
  wf d /\ ddom d = L ++ R /\ dcod d = py_slice R (Some (py_or (len L) (- len R))) None.
Proof.
  unfold rba. intros H. step H c E1.
  destruct (dcups_types _ _ _ E1) as (Wc & Dc & Cc).
  destruct (dtensor_wf _ _ _ Wc (did_wf _) H) as (W & D0 & C0). split; [exact W|].
  cbn [did ddom dcod] in *. rewrite D0, C0, Dc, Cc, <- app_assoc, py_split_any. auto.
Qed.

Lemma rfc_types l m r d : rfc l m r = Ok d ->
  wf d /\ ddom d = l ++ ty_l m ++ m ++ ty_l r /\ dcod d = l ++ ty_l r.
Proof.
  unfold rfc. intros H. step H c E1. step H t E2.
  destruct (dcups_types _ _ _ E1) as (Wc & Dc & Cc).
  destruct (dtensor_wf _ _ _ (did_wf _) Wc E2) as (Wt & Dt & Ct).
  destruct (dtensor_wf _ _ _ Wt (did_wf _) H) as (W & D0 & C0). split; [exact W|].
  cbn [did ddom dcod] in *. rewrite D0, C0, Dt, Ct, Dc, Cc, app_nil_r, <- !app_assoc. auto.
Qed.

Lemma rbc_types l m r d : rbc l m r = Ok d ->
  wf d /\ ddom d = ty_r l ++ m ++ ty_r m ++ r /\ dcod d = ty_r l ++ r.
Proof.
  unfold rbc. intros H. step H c E1. step H t E2.
  destruct (dcups_types _ _ _ E1) as (Wc & Dc & Cc).
  destruct (dtensor_wf _ _ _ (did_wf _) Wc E2) as (Wt & Dt & Ct).
  destruct (dtensor_wf _ _ _ Wt (did_wf _) H) as (W & D0 & C0). split; [exact W|].
  cbn [did ddom dcod] in *. rewrite D0, C0, Dt, Ct, Dc, Cc, app_nil_r, <- !app_assoc. auto.
Qed.

Lemma rfx_types l m r d : rfx l m r = Ok d ->
  wf d /\ ddom d = l ++ ty_l m ++ ty_r r ++ m /\ dcod d = ty_r r ++ l.
Proof.
  unfold rfx. intros H. step H s1 E1. step H t1 E2. step H a E3. step H s2 E4. step H c E5. step H b E6.
  destruct (dswap_types _ _ _ E1) as (W1 & D1 & C1).
  destruct (dtensor_wf _ _ _ (did_wf _) W1 E2) as (W2 & D2 & C2).
  destruct (dtensor_wf _ _ _ W2 (did_wf _) E3) as (W3 & D3 & C3).
  destruct (dswap_types _ _ _ E4) as (W4 & D4 & C4).
  destruct (dcups_types _ _ _ E5) as (W5 & D5 & C5).
  destruct (dtensor_wf _ _ _ W4 W5 E6) as (W6 & D6 & C6).
  destruct (dthen_wf _ _ _ W3 W6 H) as (W & D0 & C0). split; [exact W|].
  cbn [did ddom dcod] in *. rewrite D0, C0, D3, D2, D1, C6, C4, C5, app_nil_r, <- !app_assoc. auto.
Qed.

Lemma rbx_types l m r d : rbx l m r = Ok d ->
  wf d /\ ddom d = m ++ ty_l l ++ ty_r m ++ r /\ dcod d = r ++ ty_l l.
Proof.
  unfold rbx. intros H. step H s1 E1. step H t1 E2. step H a E3. step H c E5. step H s2 E4. step H b E6.
  destruct (dswap_types _ _ _ E1) as (W1 & D1 & C1).
  destruct (dtensor_wf _ _ _ (did_wf _) W1 E2) as (W2 & D2 & C2).
  destruct (dtensor_wf _ _ _ W2 (did_wf _) E3) as (W3 & D3 & C3).
  destruct (dswap_types _ _ _ E4) as (W4 & D4 & C4).
  destruct (dcups_types _ _ _ E5) as (W5 & D5 & C5).
  destruct (dtensor_wf _ _ _ W5 W4 E6) as (W6 & D6 & C6).
  destruct (dthen_wf _ _ _ W3 W6 H) as (W & D0 & C0). split; [exact W|].
  cbn [did ddom dcod] in *. rewrite D0, C0, D3, D2, D1, C6, C4, C5. cbn [app]. rewrite <- !app_assoc. auto.
Qed.

Lemma rcurry_left_types d0 n d : wf d0 -> rcurry d0 n true = Ok d ->
  wf d /\ ddom d = py_slice (ddom d0) (Some n) None /\
  dcod d = ty_r (py_slice (ddom d0) None (Some n)) ++ dcod d0.
Proof.
  unfold rcurry. intros W0 H. step H caps E1. step H a E2. step H b E3.
  destruct (dcaps_types _ _ _ E1) as (W1 & D1 & C1).
  destruct (dtensor_wf _ _ _ W1 (did_wf _) E2) as (W2 & D2 & C2).
  destruct (dtensor_wf _ _ _ (did_wf _) W0 E3) as (W3 & D3 & C3).
  destruct (dthen_wf _ _ _ W2 W3 H) as (W & D0 & C0). split; [exact W|].
  cbn [did ddom dcod] in *. rewrite D0, C0, D2, D1, C3. auto.
Qed.

Lemma rcurry_right_types d0 n d : wf d0 -> rcurry d0 n false = Ok d ->
  let wires := py_slice (ddom d0) (Some (py_or (- n) (len (ddom d0)))) None in
  wf d /\ ddom d = py_slice (ddom d0) None (Some (py_or (- n) (len (ddom d0)))) /\
  dcod d = dcod d0 ++ ty_l wires.
Proof.
  unfold rcurry. intros W0 H. step H caps E1. step H a E2. step H b E3.
  destruct (dcaps_types _ _ _ E1) as (W1 & D1 & C1).
  destruct (dtensor_wf _ _ _ (did_wf _) W1 E2) as (W2 & D2 & C2).
  destruct (dtensor_wf _ _ _ W0 (did_wf _) E3) as (W3 & D3 & C3).
  destruct (dthen_wf _ _ _ W2 W3 H) as (W & D0 & C0).
  cbn zeta. split; [exact W|].
  cbn [did ddom dcod] in *. rewrite D0, C0, D2, D1, C3, app_nil_r.
  split; reflexivity.
Qed.

(* the two slices of a right currying, dom[:k] and dom[k:] with
   k = -n_wires or len(dom), are complementary for every n_wires *)
Lemma right_split {A} (l : list A) n :
  py_slice l None (Some (py_or (- n) (len l))) ++ py_slice l (Some (py_or (- n) (len l))) None = l.
Proof. apply py_split_any. Qed.

(* ------------------------------------------------------------ induction on boxes *)
Section BboxInd.
  Variable P : bbox -> Prop.
  Hypothesis H0 : forall n d c, P (XBox n d c).
  Hypothesis H1 : forall o, P (XFA o).
  Hypothesis H2 : forall u, P (XBA u).
  Hypothesis H3 : forall l r, P (XFC l r).
  Hypothesis H4 : forall l r, P (XBC l r).
  Hypothesis H5 : forall l r, P (XFX l r).
  Hypothesis H6 : forall l r, P (XBX l r).
  Hypothesis H7 : forall d c bs offs n lf, Forall P bs -> P (XCurry d c bs offs n lf).
  Fixpoint bbox_ind' (b : bbox) : P b :=
    match b with
    | XBox n d c => H0 n d c
    | XFA o => H1 o
    | XBA u => H2 u
    | XFC l r => H3 l r
    | XBC l r => H4 l r
    | XFX l r => H5 l r
    | XBX l r => H6 l r
    | XCurry d c bs offs n lf =>
        H7 d c bs offs n lf
          ((fix go (l : list bbox) : Forall P l :=
              match l with
              | [] => Forall_nil P
              | y :: l' => Forall_cons y (bbox_ind' y) (go l')
              end) bs)
    end.
End BboxInd.

(* ------------------------------------------------------------ unfolding equations *)
Lemma b2r_loop_cons fb b bs off offs scan result :
  b2r_loop fb (b :: bs) (off :: offs) scan result =
  (let sl := py_slice scan None (Some off) in
   let sr := py_slice scan (Some (off + len (xdom b))) None in
   do img <- fb b;
   do t1 <- dtensor (did (F_ty sl)) img;
   do lay <- dtensor t1 (did (F_ty sr));
   do result' <- dthen result lay;
   b2r_loop fb bs offs (sl ++ xcod b ++ sr) result').
Proof. reflexivity. Qed.

Lemma f_box_curry dom cod bs offs n lf :
  f_box (XCurry dom cod bs offs n lf) =
  (do side <- (if lf then ty_left (xcod (XCurry dom cod bs offs n lf))
               else ty_right (xcod (XCurry dom cod bs offs n lf)));
   do d <- b2r_loop f_box bs offs dom (did (F_ty dom));
   rcurry d (len (F_ty side)) lf).
Proof. reflexivity. Qed.

Lemma py_head {A} (x : A) t : py_slice (x :: t) None (Some 1) = [x] /\ py_slice (x :: t) (Some 1) None = t.
Proof.
  change (x :: t) with ([x] ++ t). change 1 with (len [x]). split; [apply py_prefix_app|apply py_suffix_app].
Qed.

(* ------------------------------------------------------------ the functor preserves types *)
Definition typed (b : bbox) (d : diagram) : Prop :=
  wf d /\ ddom d = F_ty (xdom b) /\ dcod d = F_ty (xcod b).

Lemma check_ok b : match bbox_check b with Ok _ => true | Err _ => false end = true -> bbox_check b = Ok tt.
Proof. destruct (bbox_check b) as [[]|]; [reflexivity|discriminate]. Qed.

Lemma ok_true (c : bool) : (if c then Ok tt else Err TypeError) = Ok tt -> c = true.
Proof. destruct c; [reflexivity|discriminate]. Qed.

Lemma is_over_inv t : is_over t = true -> exists l r, t = [BOver l r].
Proof. destruct t as [|[| |] [|]]; try discriminate. eauto. Qed.
Lemma is_under_inv t : is_under t = true -> exists l r, t = [BUnder l r].
Proof. destruct t as [|[| |] [|]]; try discriminate. eauto. Qed.

Lemma fa_typed o d : box_good (XFA o) = true -> f_box (XFA o) = Ok d -> typed (XFA o) d.
Proof.
  intros G H. unfold typed. cbn [box_good] in G. apply check_ok in G. cbn [bbox_check] in G. apply ok_true in G.
  destruct (is_over_inv _ G) as (l & r & ->). cbn [f_box xdom xcod tleft tright ty_left ty_right app] in *.
  destruct (py_head (BOver l r) r) as (-> & ->) in H.
  apply rfa_types in H. destruct H as (W & D0 & C0). split; [exact W|]. split.
  - rewrite D0. change (BOver l r :: r) with ([BOver l r] ++ r). rewrite F_ty_app. reflexivity.
  - rewrite C0, F_ty_one, F_ob_over. unfold py_or.
    destruct (- len (F_ty r) =? 0) eqn:E.
    + apply Z.eqb_eq in E. assert (Hr : F_ty r = []) by (apply len_zero_nil; lia).
      rewrite Hr. cbn [ty_l rev map]. rewrite app_nil_r. apply py_prefix_len.
    + apply Z.eqb_neq in E. rewrite <- (len_ty_l (F_ty r)). apply py_prefix_neg.
      rewrite len_ty_l. pose proof (len_nonneg (F_ty r)). lia.
Qed.

(* backward application on F(left), F(left >> right) *)
Lemma rba_under A M d : rba A (ty_r A ++ M) = Ok d ->
  wf d /\ ddom d = A ++ ty_r A ++ M /\ dcod d = M.
Proof.
  intros H. apply rba_types in H. destruct H as (W & D0 & C0). split; [exact W|]. split; [exact D0|].
  rewrite C0. unfold py_or. destruct (len A =? 0) eqn:E.
  - apply Z.eqb_eq in E. assert (Ha : A = []) by (apply len_zero_nil; lia).
    rewrite Ha. cbn [ty_r rev map app].
    destruct (len M =? 0) eqn:E'.
    + apply Z.eqb_eq in E'. replace (- len M) with 0 by lia. apply py_suffix_0.
    + apply Z.eqb_neq in E'. apply (py_suffix_neg []). pose proof (len_nonneg M). lia.
  - rewrite <- (len_ty_r A). apply py_suffix_app.
Qed.

(* the two arguments handed to rigid.Diagram.ba: dom[:-1] is the whole left
   argument (of any length), dom[-1:] the Under object *)
Lemma ba_args l m :
  rba (F_ty (py_slice (l ++ [BUnder l m]) None (Some (-1))))
      (F_ty (py_slice (l ++ [BUnder l m]) (Some (-1)) None))
  = rba (F_ty l) (ty_r (F_ty l) ++ F_ty m).
Proof.
  change (-1) with (- len [BUnder l m]).
  rewrite py_prefix_neg, py_suffix_neg by (cbn; lia). rewrite F_ty_one, F_ob_under. reflexivity.
Qed.

Lemma ba_typed u d : box_good (XBA u) = true -> f_box (XBA u) = Ok d -> typed (XBA u) d.
Proof.
  intros G H. unfold typed. cbn [box_good] in G. apply check_ok in G. cbn [bbox_check] in G.
  apply ok_true in G. destruct (is_under_inv _ G) as (l & m & ->).
  cbn [f_box xdom xcod tleft tright ty_left ty_right] in *.
  rewrite ba_args in H. apply rba_under in H. destruct H as (W & D0 & C0).
  split; [exact W|]. split; [|exact C0].
  rewrite D0, F_ty_app, F_ty_one, F_ob_under. reflexivity.
Qed.

Ltac slash_args G :=
  cbn [box_good] in G; apply check_ok in G; cbn [bbox_check] in G; apply ok_true in G;
  rewrite !andb_true_iff in G; destruct G as ((G1 & G2) & G3).

Lemma fc_typed l r d : box_good (XFC l r) = true -> f_box (XFC l r) = Ok d -> typed (XFC l r) d.
Proof.
  intros G H. unfold typed. slash_args G.
  destruct (is_over_inv _ G1) as (a & m & ->). destruct (is_over_inv _ G2) as (m' & c & ->).
  cbn [tleft tright ty_left ty_right] in G3. apply bty_eqb_eq in G3. subst m'.
  cbn [f_box xdom xcod tleft tright ty_left ty_right app] in *.
  destruct (py_head (BOver a m) [BOver m c]) as (-> & ->) in H. cbn [ty_left ty_right bind] in H.
  apply rfc_types in H. destruct H as (W & D0 & C0). split; [exact W|]. split.
  - rewrite D0. cbn [F_ty]. rewrite !F_ob_over, app_nil_r, <- !app_assoc. reflexivity.
  - rewrite C0, F_ty_one, F_ob_over. reflexivity.
Qed.

Lemma bc_typed l r d : box_good (XBC l r) = true -> f_box (XBC l r) = Ok d -> typed (XBC l r) d.
Proof.
  intros G H. unfold typed. slash_args G.
  destruct (is_under_inv _ G1) as (a & m & ->). destruct (is_under_inv _ G2) as (m' & c & ->).
  cbn [tleft tright ty_left ty_right] in G3. apply bty_eqb_eq in G3. subst m'.
  cbn [f_box xdom xcod tleft tright ty_left ty_right app] in *.
  destruct (py_head (BUnder a m) [BUnder m c]) as (-> & ->) in H. cbn [ty_left ty_right bind] in H.
  apply rbc_types in H. destruct H as (W & D0 & C0). split; [exact W|]. split.
  - rewrite D0. cbn [F_ty]. rewrite !F_ob_under, app_nil_r, <- !app_assoc. reflexivity.
  - rewrite C0, F_ty_one, F_ob_under. reflexivity.
Qed.

Lemma fx_typed l r d : box_good (XFX l r) = true -> f_box (XFX l r) = Ok d -> typed (XFX l r) d.
Proof.
  intros G H. unfold typed. slash_args G.
  destruct (is_over_inv _ G1) as (a & m & ->). destruct (is_under_inv _ G2) as (c & m' & ->).
  cbn [tleft tright ty_left ty_right] in G3. apply bty_eqb_eq in G3. subst m'.
  cbn [f_box xdom xcod tleft tright ty_left ty_right app] in *.
  destruct (py_head (BOver a m) [BUnder c m]) as (-> & ->) in H. cbn [ty_left ty_right bind] in H.
  apply rfx_types in H. destruct H as (W & D0 & C0). split; [exact W|]. split.
  - rewrite D0. cbn [F_ty]. rewrite F_ob_over, F_ob_under, app_nil_r, <- !app_assoc. reflexivity.
  - rewrite C0, F_ty_one, F_ob_under. reflexivity.
Qed.

Lemma bx_typed l r d : box_good (XBX l r) = true -> f_box (XBX l r) = Ok d -> typed (XBX l r) d.
Proof.
  intros G H. unfold typed. slash_args G.
  destruct (is_over_inv _ G1) as (m & a & ->). destruct (is_under_inv _ G2) as (m' & c & ->).
  cbn [tleft tright ty_left ty_right] in G3. apply bty_eqb_eq in G3. subst m'.
  cbn [f_box xdom xcod tleft tright ty_left ty_right app] in *.
  destruct (py_head (BOver m a) [BUnder m c]) as (-> & ->) in H. cbn [ty_left ty_right bind] in H.
  apply rbx_types in H. destruct H as (W & D0 & C0). split; [exact W|]. split.
  - rewrite D0. cbn [F_ty]. rewrite F_ob_over, F_ob_under, app_nil_r, <- !app_assoc. reflexivity.
  - rewrite C0, F_ty_one, F_ob_over. reflexivity.
Qed.

(* the loop of monoidal.Functor.__call__, given that the boxes are translated
   type-correctly and that the biclosed scan succeeds *)
Lemma b2r_loop_types bs :
  Forall (fun b => forall d, box_good b = true -> f_box b = Ok d -> typed b d) bs ->
  forall offs scan result t d, forallb box_good bs = true -> bscan scan bs offs = Ok t ->
  wf result -> dcod result = F_ty scan -> b2r_loop f_box bs offs scan result = Ok d ->
  wf d /\ ddom d = ddom result /\ dcod d = F_ty t.
Proof.
  induction 1 as [|b bs Hb Hbs IH]; intros offs scan result t d G S W C H.
  - cbn in S, H. inversion S; inversion H; subst. auto.
  - destruct offs as [|off offs]; [cbn in S, H; inversion S; inversion H; subst; auto|].
    rewrite b2r_loop_cons in H. cbn zeta in H. cbn [bscan] in S. cbn [forallb] in G.
    apply andb_true_iff in G. destruct G as (Gb & Gbs).
    destruct (negb _); [discriminate|]. destruct (bty_eqb scan _); [|discriminate].
    step H img E0. step H t1 E1. step H lay E2. step H r' E3.
    destruct (Hb img Gb eq_refl) as (Wi & Di & Ci).
    destruct (dtensor_wf _ _ _ (did_wf _) Wi E1) as (W1 & D1 & C1).
    destruct (dtensor_wf _ _ _ W1 (did_wf _) E2) as (W2 & D2 & C2).
    destruct (dthen_wf _ _ _ W W2 E3) as (W3 & D3 & C3).
    destruct (IH offs _ r' t d Gbs S W3) as (Wd & Dd & Cd); [|exact H|].
    + rewrite C3, C2, C1, Ci. cbn [did dcod]. rewrite !F_ty_app, <- !app_assoc. reflexivity.
    + split; [exact Wd|]. split; [congruence|exact Cd].
Qed.

Lemma curry_typed dom cod bs offs n lf d :
  Forall (fun b => forall d, box_good b = true -> f_box b = Ok d -> typed b d) bs ->
  box_good (XCurry dom cod bs offs n lf) = true -> f_box (XCurry dom cod bs offs n lf) = Ok d ->
  typed (XCurry dom cod bs offs n lf) d.
Proof.
  intros IH G H. cbn [box_good] in G. apply andb_true_iff in G. destruct G as (Gbs & Gs).
  destruct (bscan dom bs offs) as [t|] eqn:S; [|discriminate]. apply bty_eqb_eq in Gs. subst t.
  rewrite f_box_curry in H. cbn [xcod] in H. destruct lf; cbn [ty_left ty_right bind] in H.
  - step H d0 E0.
    destruct (b2r_loop_types bs IH offs dom _ cod d0 Gbs S (did_wf _) eq_refl E0) as (W0 & D0 & C0).
    cbn [did ddom] in D0.
    destruct (rcurry_left_types _ _ _ W0 H) as (W & Dd & Cd). split; [exact W|].
    cbn [xdom xcod]. rewrite Dd, Cd, D0, C0.
    assert (Hd : F_ty dom = F_ty (py_slice dom None (Some n)) ++ F_ty (py_slice dom (Some n) None))
      by (rewrite <- F_ty_app, py_split_any; reflexivity).
    rewrite Hd, py_suffix_app, py_prefix_app.
    split; [reflexivity|]. rewrite F_ty_one, F_ob_under. reflexivity.
  - step H d0 E0.
    destruct (b2r_loop_types bs IH offs dom _ cod d0 Gbs S (did_wf _) eq_refl E0) as (W0 & D0 & C0).
    cbn [did ddom] in D0.
    destruct (rcurry_right_types _ _ _ W0 H) as (W & Dd & Cd). split; [exact W|].
    cbn [xdom xcod]. rewrite F_ty_one, F_ob_over. rewrite Dd, Cd, C0, D0.
    remember (py_slice dom (Some (py_or (- n) (len dom))) None) as wires eqn:Hwires.
    remember (py_slice dom None (Some (py_or (- n) (len dom)))) as X eqn:HX.
    assert (Hsplit : dom = X ++ wires) by (subst; symmetry; apply right_split).
    assert (HF : F_ty dom = F_ty X ++ F_ty wires) by (rewrite <- F_ty_app, <- Hsplit; reflexivity).
    rewrite HF. clear HF Hsplit. unfold py_or at 1 2.
    destruct (- len (F_ty wires) =? 0) eqn:Ew.
    + apply Z.eqb_eq in Ew. assert (Hw : F_ty wires = []) by (apply len_zero_nil; lia).
      rewrite Hw, app_nil_r, py_prefix_len, py_suffix_len. split; reflexivity.
    + apply Z.eqb_neq in Ew. pose proof (len_nonneg (F_ty wires)).
      rewrite py_prefix_neg, py_suffix_neg by lia. split; reflexivity.
Qed.

Theorem f_box_types : forall b d, box_good b = true -> f_box b = Ok d -> typed b d.
Proof.
  induction b as [n dm c|o|u|l r|l r|l r|l r|dm c bs offs n lf IH] using bbox_ind'; intros d G H.
  - cbn in H. inversion H; subst. split; [apply dbox_wf|]. split; reflexivity.
  - apply fa_typed; auto.
  - apply ba_typed; auto.
  - apply fc_typed; auto.
  - apply bc_typed; auto.
  - apply fx_typed; auto.
  - apply bx_typed; auto.
  - apply curry_typed; auto.
Qed.

(* biclosed2rigid is type-preserving on well-typed diagrams whose backward
   applications take a single object on the left *)
Theorem b2r_type_preserving_lemma D d : diagram_good D = true -> b2r D = Ok d ->
  wf d /\ ddom d = F_ty (xd_dom D) /\ dcod d = F_ty (xd_cod D).
Proof.
  unfold diagram_good, b2r. intros G H. apply andb_true_iff in G. destruct G as (Gb & Gs).
  destruct (bscan _ _ _) as [t|] eqn:S; [|discriminate]. apply bty_eqb_eq in Gs. subst t.
  eapply b2r_loop_types in H; eauto using did_wf.
  apply Forall_forall. intros b _. apply f_box_types.
Qed.

(* ------------------------------------------------------------ what the constructors guarantee *)
Lemma bmk_built dom cod bs offs D : bmk dom cod bs offs = Ok D ->
  D = BD dom cod bs offs /\
  match bscan dom bs offs with Ok t => bty_eqb t cod | Err _ => false end = true.
Proof.
  unfold bmk. destruct (negb _); [discriminate|]. destruct (bscan dom bs offs) as [t|]; [|discriminate].
  cbn [bind]. destruct (bty_eqb t cod); [|discriminate]. intros H; inversion H; auto.
Qed.

Lemma build_box_built : forall b, build_box b = Ok tt -> box_good b = true.
Proof.
  induction b as [n dm c|o|u|l r|l r|l r|l r|dm c bs offs n lf IH] using bbox_ind'; intros H;
    try (cbn [build_box] in H; cbn [box_good]; rewrite H; reflexivity).
  cbn [build_box] in H. cbn [box_good].
  match type of H with (do _ <- ?all bs; _) = _ => destruct (all bs) as [[]|] eqn:Ea; [cbn [bind] in H|discriminate] end.
  destruct (bmk dm c bs offs) as [D|] eqn:Em; [|discriminate].
  destruct (bmk_built _ _ _ _ _ Em) as (_ & ->). rewrite andb_true_r.
  clear H Em. induction IH as [|b bs Hb _ IHbs]; [reflexivity|].
  destruct (build_box b) as [[]|] eqn:Eb; [cbn [bind] in Ea|discriminate].
  cbn [forallb]. rewrite (Hb eq_refl), IHbs; auto.
Qed.

Theorem build_built dom cod bs offs D : build dom cod bs offs = Ok D -> diagram_good D = true.
Proof.
  unfold build. destruct (build_boxes bs) as [[]|] eqn:Eb; [cbn [bind]|discriminate]. intros H.
  destruct (bmk_built _ _ _ _ _ H) as (-> & Hs). unfold diagram_good. cbn [xd_boxes xd_dom xd_cod xd_offs].
  rewrite Hs, andb_true_r. clear H Hs. induction bs as [|b bs IH]; [reflexivity|].
  cbn [build_boxes] in Eb. destruct (build_box b) as [[]|] eqn:E; [cbn [bind] in Eb|discriminate].
  cbn [forallb]. rewrite (build_box_built _ E), IH; auto.
Qed.

(* ------------------------------------------------------------ former findings, now regressions *)
Definition ax := BAtom 376.   (* 'x' *)
Definition ay := BAtom 377.   (* 'y' *)
Definition az := BAtom 378.   (* 'z' *)

(* F16 (fixed by 20fba5f): BA((y @ z) >> x), BA((y @ (y >> Ty())) >> x) and
   BA(Ty() >> x) are translated, with the right types *)
Example ba_composite_good :
  diagram_good (BD [ay; az; BUnder [ay; az] [ax]] [ax] [XBA [BUnder [ay; az] [ax]]] [0]) = true
  /\ diagram_good (BD [ay; BUnder [ay] []; BUnder [ay; BUnder [ay] []] [ax]] [ax]
                      [XBA [BUnder [ay; BUnder [ay] []] [ax]]] [0]) = true
  /\ diagram_good (BD [BUnder [] [ax]] [ax] [XBA [BUnder [] [ax]]] [0]) = true.
Proof. repeat split; vm_compute; reflexivity. Qed.

Example ba_composite_image :
  exists d, b2r (BD [ay; az; BUnder [ay; az] [ax]] [ax] [XBA [BUnder [ay; az] [ax]]] [0]) = Ok d /\
            length (dboxes d) = 2%nat /\ dcod d = [Ob 376 0].
Proof. eexists. split; [vm_compute; reflexivity|]. split; reflexivity. Qed.

(* F21 (fixed by d9e48bc): right currying of zero wires, and of a wire whose
   type translates to Ty() *)
Example curry_zero_good :
  diagram_good (BD [ax] [BOver [ay] []] [XCurry [ax] [ay] [XBox 21 [ax] [ay]] [0] 0 false] [0]) = true
  /\ diagram_good (BD [ax] [BOver [az] [BOver [] []]]
                      [XCurry [ax; BOver [] []] [az] [XBox 22 [ax; BOver [] []] [az]] [0] 1 false] [0]) = true.
Proof. split; vm_compute; reflexivity. Qed.

Example curry_zero_image :
  exists d, b2r (BD [ax] [BOver [ay] []] [XCurry [ax] [ay] [XBox 21 [ax] [ay]] [0] 0 false] [0]) = Ok d /\
            ddom d = [Ob 376 0] /\ dcod d = [Ob 377 0].
Proof. eexists. split; [vm_compute; reflexivity|]. split; reflexivity. Qed.

(* right currying with n_wires outside 0..len(dom) (over-long, negative): the
   box's domain dom[:k] and the curried wires dom[k:] (k = -n_wires or len(dom))
   stay complementary, so these requests are translated type-correctly too *)
Example curry_overlong_good :
  diagram_good (BD [] [BOver [az] [ax; ay]] [XCurry [ax; ay] [az] [XBox 21 [ax; ay] [az]] [0] 3 false] [0]) = true
  /\ diagram_good (BD [ax] [BOver [az] [ay]] [XCurry [ax; ay] [az] [XBox 21 [ax; ay] [az]] [0] (-1) false] [0]) = true.
Proof. split; vm_compute; reflexivity. Qed.

(* ------------------------------------------------------------ non-vacuity *)
(* forward application over a composite argument, a unary backward application,
   a forward composition and a nested left Curry, in one well-typed diagram *)
Definition example_diagram : bdiagram :=
  let o := BOver [ax] [ay; az] in
  let u := BUnder [BOver [ay] [az]] [ax] in
  BD [o; ay; az; BOver [ay] [az]; u]
     [BUnder [az] [ax]; ax]
     [XFA [o]; XBA [u];
      XCurry [az; ax] [ax] [XBox 21 [az; ax] [ax]] [0] 1 true]
     [0; 1; 0].

Example example_diagram_good : diagram_good example_diagram = true.
Proof. vm_compute. reflexivity. Qed.

Example example_diagram_image :
  exists d, b2r example_diagram = Ok d /\ length (dboxes d) = 6%nat /\
            ddom d = F_ty (xd_dom example_diagram) /\ dcod d = F_ty (xd_cod example_diagram).
Proof. eexists. split; [vm_compute; reflexivity|]. repeat split; vm_compute; reflexivity. Qed.

Example object_map_example :
  F_ty [BUnder [ay; az] [BOver [ax] [ay]]] =
  [Ob 378 1; Ob 377 1; Ob 376 0; Ob 377 (-1)].
Proof. reflexivity. Qed.
