(* discopy/biclosed.py (Ty / Over / Under, FA BA FC BC FX BX Curry, Functor,
   biclosed2rigid) and the rigid.Diagram.fa/ba/fc/bc/fx/bx/curry static methods
   the functor calls.  Bug-compatible with the pinned source.  Definitions only;
   proofs live in Grammar/BiclosedLemmas.v. *)
From Coq Require Import List ZArith Bool Lia.
Import ListNotations.
Require Import DV.Common.Base DV.Core.Diagram DV.Core.Perm DV.Core.Rigid.
Open Scope Z_scope.

(* ------------------------------------------------------------------ types *)
(* biclosed.Ty: a list of objects, each an atom (cat.Ob with an interned name),
   an Over(left, right) or an Under(left, right); a Ty of length 1 whose object
   is a slash type *is* that slash object (Ty.upgrade) *)
Inductive bob :=
| BAtom (n : Z)
| BOver (l r : list bob)
| BUnder (l r : list bob).
Definition bty := list bob.

Fixpoint bob_eqb (a b : bob) {struct a} : bool :=
  let fix tys (x y : list bob) {struct x} : bool :=
    match x, y with
    | [], [] => true
    | p :: x', q :: y' => bob_eqb p q && tys x' y'
    | _, _ => false
    end in
  match a, b with
  | BAtom n, BAtom m => n =? m
  | BOver l r, BOver l' r' => tys l l' && tys r r'
  | BUnder l r, BUnder l' r' => tys l l' && tys r r'
  | _, _ => false
  end.
Definition bty_eqb : bty -> bty -> bool := list_eqb bob_eqb.

(* biclosed.Functor.__call__ on types, for biclosed2rigid_ob:
   atoms -> rigid.Ty(name); Over -> F(left) << F(right) = F(left) @ F(right).l;
   Under -> F(left) >> F(right) = F(left).r @ F(right); products -> tensor *)
Fixpoint F_ob (x : bob) : ty :=
  let fix F_list (t : list bob) : ty :=
    match t with [] => [] | y :: t' => F_ob y ++ F_list t' end in
  match x with
  | BAtom n => [Ob n 0]
  | BOver l r => F_list l ++ ty_l (F_list r)
  | BUnder l r => ty_r (F_list l) ++ F_list r
  end.
Fixpoint F_ty (t : bty) : ty :=
  match t with [] => [] | y :: t' => F_ob y ++ F_ty t' end.

(* attribute access t.left / t.right on a sliced type: defined (not None) only
   when the slice is a single slash object; F(None) raises TypeError *)
Definition ty_left (t : bty) : res bty :=
  match t with [BOver l _] | [BUnder l _] => Ok l | _ => Err TypeError end.
Definition ty_right (t : bty) : res bty :=
  match t with [BOver _ r] | [BUnder _ r] => Ok r | _ => Err TypeError end.
Definition is_over (t : bty) : bool := match t with [BOver _ _] => true | _ => false end.
Definition is_under (t : bty) : bool := match t with [BUnder _ _] => true | _ => false end.

(* a or b on Python ints *)
Definition py_or (a b : Z) : Z := if a =? 0 then b else a.

(* ------------------------------------------------------------------ boxes *)
(* arguments of the special boxes are types as the caller passes them; the
   constructors' isinstance checks are in bbox_check *)
Inductive bbox :=
| XBox (name : Z) (dom cod : bty)                (* biclosed.Box, ccg.Word *)
| XFA (over : bty)
| XBA (under : bty)
| XFC (l r : bty)
| XBC (l r : bty)
| XFX (l r : bty)
| XBX (l r : bty)
| XCurry (dom cod : bty) (boxes : list bbox) (offs : list Z) (n : Z) (left : bool).

Record bdiagram := BD { xd_dom : bty; xd_cod : bty; xd_boxes : list bbox; xd_offs : list Z }.

Definition tleft (t : bty) : bty := match ty_left t with Ok l => l | Err _ => [] end.
Definition tright (t : bty) : bty := match ty_right t with Ok r => r | Err _ => [] end.

(* dom / cod as computed by the __init__ of FA, BA, FC, BC, FX, BX, Curry *)
Definition xdom (b : bbox) : bty :=
  match b with
  | XBox _ d _ => d
  | XFA o => o ++ tright o                      (* over @ over.right *)
  | XBA u => tleft u ++ u                       (* under.left @ under *)
  | XFC l r | XBC l r | XFX l r | XBX l r => l ++ r
  | XCurry d _ _ _ n lf =>
      if lf then py_slice d (Some n) None     (* diagram.dom[n_wires:] *)
      else py_slice d None (Some (py_or (- n) (len d)))   (* diagram.dom[:-n_wires or len(diagram.dom)] *)
  end.
Definition xcod (b : bbox) : bty :=
  match b with
  | XBox _ _ c => c
  | XFA o => tleft o
  | XBA u => tright u
  | XFC l r => [BOver (tleft l) (tright r)]     (* left.left << right.right *)
  | XBC l r => [BUnder (tleft l) (tright r)]    (* left.left >> right.right *)
  | XFX l r => [BUnder (tleft r) (tleft l)]     (* right.left >> left.left *)
  | XBX l r => [BOver (tright r) (tright l)]    (* right.right << left.right *)
  | XCurry d c _ _ n lf =>
      if lf then [BUnder (py_slice d None (Some n)) c]
      else [BOver c (py_slice d (Some (py_or (- n) (len d))) None)]
  end.

(* the TypeErrors of the box constructors *)
Definition bbox_check (b : bbox) : res unit :=
  let ok (c : bool) := if c then Ok tt else Err TypeError in
  match b with
  | XBox _ _ _ => Ok tt
  | XFA o => ok (is_over o)
  | XBA u => ok (is_under u)
  | XFC l r => ok (is_over l && is_over r && bty_eqb (tright l) (tleft r))
  | XBC l r => ok (is_under l && is_under r && bty_eqb (tright l) (tleft r))
  | XFX l r => ok (is_over l && is_under r && bty_eqb (tright l) (tright r))
  | XBX l r => ok (is_over l && is_under r && bty_eqb (tleft l) (tleft r))
  | XCurry _ _ _ _ _ _ => Ok tt
  end.

(* monoidal.Diagram.__init__ for the biclosed class: the scan over slash types
   (only dom / cod / boxes / offsets are kept; the functor reads nothing else) *)
Fixpoint bscan (scan : bty) (bs : list bbox) (offs : list Z) : res bty :=
  match bs, offs with
  | b :: bs', off :: offs' =>
      let left := py_slice scan None (Some off) in
      let right := py_slice scan (Some (off + len (xdom b))) None in
      if negb ((0 <=? off) && (off <=? len scan - len (xdom b))) then Err AxiomError
      else if bty_eqb scan (left ++ xdom b ++ right)
      then bscan (left ++ xcod b ++ right) bs' offs'
      else Err AxiomError
  | _, _ => Ok scan
  end.

Definition bmk (dom cod : bty) (bs : list bbox) (offs : list Z) : res bdiagram :=
  if negb (len bs =? len offs) then Err ValueError else
  do t <- bscan dom bs offs;
  if bty_eqb t cod then Ok (BD dom cod bs offs) else Err AxiomError.

(* ------------------------------------------------------------------ rigid side *)
(* rigid.Diagram.fa(left, right) *)
Definition rfa (left right : ty) : res diagram :=
  let off := py_or (- len right) (len left) in
  do c <- dcups (py_slice left (Some off) None) right;
  dtensor (did (py_slice left None (Some off))) c.

(* rigid.Diagram.ba(left, right) *)
Definition rba (left right : ty) : res diagram :=
  let off := py_or (len left) (- len right) in
  do c <- dcups left (py_slice right None (Some off));
  dtensor c (did (py_slice right (Some off) None)).

(* rigid.Diagram.fc(left, middle, right) *)
Definition rfc (left middle right : ty) : res diagram :=
  do c <- dcups (ty_l middle) middle;
  do t <- dtensor (did left) c;
  dtensor t (did (ty_l right)).

(* rigid.Diagram.bc(left, middle, right) *)
Definition rbc (left middle right : ty) : res diagram :=
  do c <- dcups middle (ty_r middle);
  do t <- dtensor (did (ty_r left)) c;
  dtensor t (did right).

(* rigid.Diagram.fx(left, middle, right) *)
Definition rfx (left middle right : ty) : res diagram :=
  do s1 <- dswap (ty_l middle) (ty_r right);
  do t1 <- dtensor (did left) s1;
  do a <- dtensor t1 (did middle);
  do s2 <- dswap left (ty_r right);
  do c <- dcups (ty_l middle) middle;
  do b <- dtensor s2 c;
  dthen a b.

(* rigid.Diagram.bx(left, middle, right) *)
Definition rbx (left middle right : ty) : res diagram :=
  do s1 <- dswap (ty_l left) (ty_r middle);
  do t1 <- dtensor (did middle) s1;
  do a <- dtensor t1 (did right);
  do c <- dcups middle (ty_r middle);
  do s2 <- dswap (ty_l left) right;
  do b <- dtensor c s2;
  dthen a b.

(* rigid.Diagram.curry(diagram, n_wires, left) *)
Definition rcurry (d : diagram) (n : Z) (left : bool) : res diagram :=
  if left then
    let wires := py_slice (ddom d) None (Some n) in
    do caps <- dcaps (ty_r wires) wires;
    do a <- dtensor caps (did (py_slice (ddom d) (Some n) None));
    do b <- dtensor (did (ty_r wires)) d;
    dthen a b
  else
    let wires := py_slice (ddom d) (Some (py_or (- n) (len (ddom d)))) None in
    do caps <- dcaps wires (ty_l wires);
    do a <- dtensor (did (py_slice (ddom d) None (Some (py_or (- n) (len (ddom d)))))) caps;
    do b <- dtensor d (did (ty_l wires));
    dthen a b.

(* ------------------------------------------------------------------ the functor *)
(* the ar of biclosed2rigid: rigid.Box(f.name, F(f.dom), F(f.cod)) *)
Definition F_plain (name : Z) (dom cod : bty) : diagram :=
  dbox (Box KBox name (F_ty dom) (F_ty cod) false None).

(* monoidal.Functor.__call__ on a diagram: the loop over boxes and offsets,
   given the image fb of a box *)
Definition b2r_loop (fb : bbox -> res diagram) :=
  fix loop (bs : list bbox) (offs : list Z) (scan : bty) (result : diagram) : res diagram :=
    match bs, offs with
    | b :: bs', off :: offs' =>
        let sl := py_slice scan None (Some off) in
        let sr := py_slice scan (Some (off + len (xdom b))) None in
        do img <- fb b;
        do t1 <- dtensor (did (F_ty sl)) img;
        do lay <- dtensor t1 (did (F_ty sr));
        do result' <- dthen result lay;
        loop bs' offs' (sl ++ xcod b ++ sr) result'
    | _, _ => Ok result
    end.

(* biclosed.Functor.__call__ on a box, for F = biclosed2rigid *)
Fixpoint f_box (b : bbox) : res diagram :=
  match b with
  | XBox name dom cod => Ok (F_plain name dom cod)
  | XCurry dom cod boxes offs n lf =>
      (* n_wires = len(F(cod.left if left else cod.right)) of the Curry box *)
      do side <- (if lf then ty_left (xcod b) else ty_right (xcod b));
      do d <- b2r_loop f_box boxes offs dom (did (F_ty dom));
      rcurry d (len (F_ty side)) lf
  | XFA _ =>
      (* fa(F(dom[:1]), F(dom[1:])) *)
      rfa (F_ty (py_slice (xdom b) None (Some 1))) (F_ty (py_slice (xdom b) (Some 1) None))
  | XBA _ =>
      (* ba(F(dom[:-1]), F(dom[-1:])) (after the F16 repair, commit 20fba5f) *)
      rba (F_ty (py_slice (xdom b) None (Some (-1)))) (F_ty (py_slice (xdom b) (Some (-1)) None))
  | XFC _ _ =>
      do l <- ty_left (py_slice (xdom b) None (Some 1));
      do r <- ty_right (py_slice (xdom b) (Some 1) None);
      do m <- ty_right (py_slice (xdom b) None (Some 1));
      rfc (F_ty l) (F_ty m) (F_ty r)
  | XBC _ _ =>
      do l <- ty_left (py_slice (xdom b) None (Some 1));
      do r <- ty_right (py_slice (xdom b) (Some 1) None);
      do m <- ty_right (py_slice (xdom b) None (Some 1));
      rbc (F_ty l) (F_ty m) (F_ty r)
  | XFX _ _ =>
      do l <- ty_left (py_slice (xdom b) None (Some 1));
      do r <- ty_left (py_slice (xdom b) (Some 1) None);
      do m <- ty_right (py_slice (xdom b) None (Some 1));
      rfx (F_ty l) (F_ty m) (F_ty r)
  | XBX _ _ =>
      do l <- ty_right (py_slice (xdom b) None (Some 1));
      do r <- ty_right (py_slice (xdom b) (Some 1) None);
      do m <- ty_left (py_slice (xdom b) None (Some 1));
      rbx (F_ty l) (F_ty m) (F_ty r)
  end.

(* biclosed2rigid(diagram) for a diagram that is not a single box instance *)
Definition b2r (D : bdiagram) : res diagram :=
  b2r_loop f_box (xd_boxes D) (xd_offs D) (xd_dom D) (did (F_ty (xd_dom D))).

(* building a biclosed diagram through the public constructors, then translating:
   all box constructors run first (innermost first), then Diagram(dom, cod, boxes,
   offsets), then biclosed2rigid *)
Fixpoint build_box (b : bbox) : res unit :=
  match b with
  | XCurry dom cod boxes offs n lf =>
      let fix all (bs : list bbox) : res unit :=
        match bs with [] => Ok tt | x :: bs' => do _ <- build_box x; all bs' end in
      do _ <- all boxes;
      do _ <- bmk dom cod boxes offs;
      Ok tt
  | _ => bbox_check b
  end.
Fixpoint build_boxes (bs : list bbox) : res unit :=
  match bs with [] => Ok tt | x :: bs' => do _ <- build_box x; build_boxes bs' end.

Definition build (dom cod : bty) (bs : list bbox) (offs : list Z) : res bdiagram :=
  do _ <- build_boxes bs; bmk dom cod bs offs.

Definition build_b2r (dom cod : bty) (bs : list bbox) (offs : list Z) : res diagram :=
  do bd <- build dom cod bs offs; b2r bd.

(* ------------------------------------------------------------------ decidable side conditions *)
(* a box built by the public constructors without error, all the way down
   through curried diagrams, which must themselves be well-typed *)
Fixpoint box_good (b : bbox) : bool :=
  match b with
  | XCurry dom cod boxes offs n lf =>
      forallb box_good boxes &&
      match bscan dom boxes offs with Ok t => bty_eqb t cod | Err _ => false end
  | _ => match bbox_check b with Ok _ => true | Err _ => false end
  end.

(* a well-typed biclosed diagram of such boxes *)
Definition diagram_good (D : bdiagram) : bool :=
  forallb box_good (xd_boxes D) &&
  match bscan (xd_dom D) (xd_boxes D) (xd_offs D) with
  | Ok t => bty_eqb t (xd_cod D)
  | Err _ => false
  end.
