(* The grammar front-end programs (one per entry point), their interpreter over
   the model and the wire codec.  Definitions only. *)
From Coq Require Import List ZArith Bool Lia.
Import ListNotations.
Require Import DV.Common.Base DV.Core.Diagram DV.Core.Prog
  DV.Grammar.Pregroup DV.Grammar.Biclosed DV.Grammar.CFG DV.Grammar.CCG.
Open Scope Z_scope.

Inductive gprog :=
| GEager (ws : list word) (target : ty)
| GBrute (vocab : list word) (target : ty) (n m : nat)
| GB2R (dom cod : bty) (bs : list bbox) (offs : list Z)
| GCfg (prods : list box) (start : ty) (max_sentences : Z) (max_depth max_iter : nat)
       (remove_duplicates : bool) (not_twice : list box) (oracle : list (list nat))
| GTree (t : tree)
| GCat (s : list Z)
| GOb (t : bty).

(* ------------------------------------------------------------------ encoders *)
Fixpoint enc_bob (x : bob) : sexp :=
  let fix encs (t : list bob) : list sexp :=
    match t with [] => [] | y :: t' => enc_bob y :: encs t' end in
  match x with
  | BAtom n => L [I 0; I n]
  | BOver l r => L [I 1; L (encs l); L (encs r)]
  | BUnder l r => L [I 2; L (encs l); L (encs r)]
  end.
Definition enc_bty (t : bty) : sexp := L (map enc_bob t).

(* a box is observed as (class, [name,] dom, cod [, inner diagram, n, left]) *)
Fixpoint enc_bbox (b : bbox) : sexp :=
  match b with
  | XBox name d c => L [I 0; I name; enc_bty d; enc_bty c]
  | XFA _ => L [I 1; enc_bty (xdom b); enc_bty (xcod b)]
  | XBA _ => L [I 2; enc_bty (xdom b); enc_bty (xcod b)]
  | XFC _ _ => L [I 3; enc_bty (xdom b); enc_bty (xcod b)]
  | XBC _ _ => L [I 4; enc_bty (xdom b); enc_bty (xcod b)]
  | XFX _ _ => L [I 5; enc_bty (xdom b); enc_bty (xcod b)]
  | XBX _ _ => L [I 6; enc_bty (xdom b); enc_bty (xcod b)]
  | XCurry d c bs offs n lf =>
      let fix encs (l : list bbox) : list sexp :=
        match l with [] => [] | y :: l' => enc_bbox y :: encs l' end in
      L [I 7; enc_bty (xdom b); enc_bty (xcod b);
         L [enc_bty d; enc_bty c; L (encs bs); of_ints offs]; I n; of_bool lf]
  end.
Definition enc_bdiagram (D : bdiagram) : sexp :=
  L [enc_bty (xd_dom D); enc_bty (xd_cod D); L (map enc_bbox (xd_boxes D)); of_ints (xd_offs D)].

Definition enc_r {A} (enc : A -> sexp) (r : res A) : sexp :=
  match r with Ok a => L [I 0; enc a] | Err e => L [I 1; I (err_code e)] end.

(* ------------------------------------------------------------------ interpreter *)
Definition grun (p : gprog) : sexp :=
  match p with
  | GEager ws target => enc_r enc_diagram (eager_parse ws target)
  | GBrute vocab target n m =>
      enc_r (fun ds => L (map enc_diagram ds)) (brute_force vocab target n m)
  | GB2R dom cod bs offs => enc_r enc_diagram (build_b2r dom cod bs offs)
  | GCfg prods start ms md mi rd nt oracle =>
      enc_r (fun r : list diagram * list (list nat) =>
               L [L (map enc_diagram (fst r)); I (len (snd r))])
            (cfg_generate prods start ms md mi rd nt oracle)
  | GTree t =>
      enc_r (fun D => L [enc_bdiagram D; enc_r enc_diagram (b2r D)]) (tree2diagram t)
  | GCat s => enc_r enc_bty (cat2ty s)
  | GOb t => L [I 0; enc_ty (F_ty t)]
  end.

(* ------------------------------------------------------------------ decoders *)
Fixpoint dec_bob (fuel : nat) (s : sexp) : res bob :=
  match fuel with
  | O => Err BadProgram
  | S f =>
      match s with
      | L [I 0; I n] => Ok (BAtom n)
      | L [I 1; L l; L r] => do l' <- mapM (dec_bob f) l; do r' <- mapM (dec_bob f) r; Ok (BOver l' r')
      | L [I 2; L l; L r] => do l' <- mapM (dec_bob f) l; do r' <- mapM (dec_bob f) r; Ok (BUnder l' r')
      | _ => Err BadProgram
      end
  end.
Definition dec_bty (s : sexp) : res bty := do l <- sx_list s; mapM (dec_bob 200) l.

Fixpoint dec_bbox (fuel : nat) (s : sexp) : res bbox :=
  match fuel with
  | O => Err BadProgram
  | S f =>
      match s with
      | L [I 0; I name; d; c] => do d' <- dec_bty d; do c' <- dec_bty c; Ok (XBox name d' c')
      | L [I 1; t] => do t' <- dec_bty t; Ok (XFA t')
      | L [I 2; t] => do t' <- dec_bty t; Ok (XBA t')
      | L [I 3; l; r] => do l' <- dec_bty l; do r' <- dec_bty r; Ok (XFC l' r')
      | L [I 4; l; r] => do l' <- dec_bty l; do r' <- dec_bty r; Ok (XBC l' r')
      | L [I 5; l; r] => do l' <- dec_bty l; do r' <- dec_bty r; Ok (XFX l' r')
      | L [I 6; l; r] => do l' <- dec_bty l; do r' <- dec_bty r; Ok (XBX l' r')
      | L [I 7; d; c; L bs; offs; I n; lf] =>
          do d' <- dec_bty d; do c' <- dec_bty c; do bs' <- mapM (dec_bbox f) bs;
          do o' <- sx_ints offs; do lf' <- sx_bool lf;
          Ok (XCurry d' c' bs' o' n lf')
      | _ => Err BadProgram
      end
  end.

Fixpoint dec_tree (fuel : nat) (s : sexp) : res tree :=
  match fuel with
  | O => Err BadProgram
  | S f =>
      match s with
      | L [I 0; I name; cat] => do c <- sx_ints cat; Ok (TWord name c)
      | L [I 1; I typ; cat; L ch] =>
          do c <- sx_ints cat; do ch' <- mapM (dec_tree f) ch; Ok (TNode typ c ch')
      | _ => Err BadProgram
      end
  end.

Definition dec_word (s : sexp) : res word :=
  match s with L [I n; t] => do t' <- dec_ty t; Ok (n, t') | _ => Err BadProgram end.
Definition dec_words (s : sexp) : res (list word) := do l <- sx_list s; mapM dec_word l.
Definition dec_nats (s : sexp) : res (list nat) := do l <- sx_ints s; Ok (map Z.to_nat l).

Definition dec_gprog (s : sexp) : res gprog :=
  match s with
  | L [I 0; ws; t] => do ws' <- dec_words ws; do t' <- dec_ty t; Ok (GEager ws' t')
  | L [I 1; ws; t; I n; I m] =>
      do ws' <- dec_words ws; do t' <- dec_ty t; Ok (GBrute ws' t' (Z.to_nat n) (Z.to_nat m))
  | L [I 2; d; c; L bs; offs] =>
      do d' <- dec_bty d; do c' <- dec_bty c; do bs' <- mapM (dec_bbox 50) bs;
      do o' <- sx_ints offs; Ok (GB2R d' c' bs' o')
  | L [I 3; prods; start; I ms; I md; I mi; rd; nt; L oracle] =>
      do p' <- dec_boxes prods; do s' <- dec_ty start; do rd' <- sx_bool rd;
      do nt' <- dec_boxes nt; do o' <- mapM dec_nats oracle;
      Ok (GCfg p' s' ms (Z.to_nat md) (Z.to_nat mi) rd' nt' o')
  | L [I 4; t] => do t' <- dec_tree 50 t; Ok (GTree t')
  | L [I 5; cs] => do c <- sx_ints cs; Ok (GCat c)
  | L [I 6; t] => do t' <- dec_bty t; Ok (GOb t')
  | _ => Err BadProgram
  end.

(* the single entry point of the extracted runner *)
Definition run_sexp (s : sexp) : sexp :=
  match dec_gprog s with
  | Ok p => grun p
  | Err e => L [I 1; I (err_code e)]
  end.
