(* Totality of the rule images: under the side conditions of
   biclosed2rigid_box_type_preserving, no application / composition / crossed
   composition box is ever refused by the translation. *)
From Coq Require Import List ZArith Bool Lia.
Import ListNotations.
Require Import DV.Common.Base DV.Common.ListLemmas DV.Core.Diagram DV.Core.WF
  DV.Core.DiagramLemmas DV.Core.Perm DV.Core.Route DV.Core.PermLemmas DV.Core.Rigid
  DV.Grammar.Biclosed DV.Grammar.BiclosedLemmas.
Open Scope Z_scope.

Lemma py_slice_app3_b {A} (a b c : list A) :
  py_slice (a ++ b ++ c) (Some (len a)) (Some (len a + len b)) = b.
Proof.
  rewrite py_slice_mid by (pose proof (len_nonneg a); pose proof (len_nonneg b); lia).
  rewrite !len_app. pose proof (len_nonneg a). pose proof (len_nonneg b). pose proof (len_nonneg c).
  rewrite !Z.min_l by lia.
  replace (len a + len b - len a) with (len b) by lia.
  unfold len. rewrite !Nat2Z.id. rewrite skipn_app_exact. apply firstn_app_exact.
Qed.

(* ------------------------------------------------------------ totality of the rule images *)
Definition adj (x y : ob) : Prop := y = ob_r x \/ x = ob_r y.

Lemma ob_r_l x : ob_r (ob_l x) = x.
Proof. destruct x as [n z]. unfold ob_r, ob_l. cbn. f_equal. lia. Qed.
Lemma ty_r_l t : ty_r (ty_l t) = t.
Proof.
  unfold ty_r, ty_l. rewrite <- map_rev, rev_involutive, map_map.
  rewrite <- (map_id t) at 2. apply map_ext. apply ob_r_l.
Qed.

Lemma cup_box_adj2 x y : adj x y -> cup_box [x] [y] = Ok (Box KCup (-2) [x; y] [] false None).
Proof.
  intros H. unfold cup_box, adjoint_ok. cbn [len length Z.of_nat Z.eqb andb negb Pos.eqb Pos.of_succ_nat].
  replace (ty_eqb (ty_r [x]) [y] || ty_eqb [x] (ty_r [y])) with true; [reflexivity|].
  symmetry. apply orb_true_iff. destruct H as [->| ->]; [left|right]; apply ty_eqb_refl.
Qed.
Lemma cap_box_adj2 x y : adj x y -> cap_box [x] [y] = Ok (Box KCap (-3) [] [x; y] false None).
Proof.
  intros H. unfold cap_box, adjoint_ok. cbn [len length Z.of_nat Z.eqb andb negb Pos.eqb Pos.of_succ_nat].
  replace (ty_eqb (ty_r [x]) [y] || ty_eqb [x] (ty_r [y])) with true; [reflexivity|].
  symmetry. apply orb_true_iff. destruct H as [->| ->]; [left|right]; apply ty_eqb_refl.
Qed.

Lemma nth_split {A} (l : list A) j x : nth_error l j = Some x ->
  l = firstn j l ++ [x] ++ skipn (S j) l /\ firstn (S j) l = firstn j l ++ [x] /\
  skipn j l = x :: skipn (S j) l.
Proof.
  revert j. induction l as [|a l IH]; intros [|j] H; cbn in H; try discriminate.
  - inversion H; subst. cbn. auto.
  - destruct (IH _ H) as (E1 & E2 & E3). cbn [firstn skipn app]. repeat split; [f_equal; exact E1|f_equal; exact E2|exact E3].
Qed.

Lemma py_slice_at {A} (l : list A) j x : nth_error l j = Some x ->
  py_slice l (Some (Z.of_nat j)) (Some (Z.of_nat j + 1)) = [x] /\
  py_slice l None (Some (Z.of_nat j)) = firstn j l /\
  py_slice l (Some (Z.of_nat j + 1)) None = skipn (S j) l.
Proof.
  intros H. destruct (nth_split _ _ _ H) as (E & _ & _).
  assert (Hl : length (firstn j l) = j).
  { apply firstn_length_le. apply Nat.lt_le_incl. apply nth_error_Some. congruence. }
  split; [|split].
  - rewrite E at 1. replace (Z.of_nat j) with (len (firstn j l)) by (unfold len; lia).
    change 1 with (len [x]). apply py_slice_app3_b.
  - rewrite py_slice_prefix by lia. rewrite Nat2Z.id. reflexivity.
  - rewrite py_slice_suffix by lia. replace (Z.to_nat (Z.of_nat j + 1)) with (S j) by lia. reflexivity.
Qed.

Lemma cups_loop_total (factory : ty -> ty -> res box) (rv : bool) l r :
  (forall x y, adj x y -> exists c, factory [x] [y] = Ok c /\
      bdom c = (if rv then [] else [x; y]) /\ bcod c = (if rv then [x; y] else [])) ->
  length r = length l ->
  (forall i x y, (i < length l)%nat -> nth_error l (length l - 1 - i) = Some x ->
                 nth_error r i = Some y -> adj x y) ->
  forall m i result, (i + m = length l)%nat -> wf result ->
    (if rv then ddom result else dcod result) = firstn (length l - i) l ++ skipn i r ->
    exists d, cups_loop factory rv l r result i m = Ok d.
Proof.
  intros Hfac Hlen Hadj. induction m as [|m IH]; intros i result Him W Inv; cbn [cups_loop]; [eauto|].
  set (j := (length l - 1 - i)%nat).
  destruct (nth_error l j) as [x|] eqn:Ex; [|apply nth_error_None in Ex; lia].
  destruct (nth_error r i) as [y|] eqn:Ey; [|apply nth_error_None in Ey; lia].
  replace (len l - Z.of_nat i - 1) with (Z.of_nat j) by (unfold len; lia).
  destruct (py_slice_at _ _ _ Ex) as (-> & -> & _).
  destruct (py_slice_at _ _ _ Ey) as (-> & _ & ->).
  destruct (Hfac x y (Hadj i x y ltac:(lia) Ex Ey)) as (c & -> & Dc & Cc). cbn [bind].
  destruct (dtensor_ok (did (firstn j l)) (dbox c) (did_wf _) (dbox_wf _)) as (t1 & -> & W1 & D1 & C1 & _).
  cbn [bind].
  destruct (dtensor_ok t1 (did (skipn (S i) r)) W1 (did_wf _)) as (lay & -> & W2 & D2 & C2 & _).
  cbn [bind]. cbn [did dbox ddom dcod] in *.
  destruct (nth_split _ _ _ Ex) as (_ & F1 & _). destruct (nth_split _ _ _ Ey) as (_ & _ & S1).
  replace (length l - i)%nat with (S j) in Inv by lia. rewrite F1, S1 in Inv.
  destruct rv.
  - destruct (dthen_ok lay result W2 W) as (r' & -> & W' & D' & C' & _).
    { rewrite C2, C1, Cc, Inv, <- !app_assoc. reflexivity. }
    cbn [bind]. apply IH; [lia|exact W'|]. rewrite D', D2, D1, Dc, app_nil_r.
    replace (length l - S i)%nat with j by lia. reflexivity.
  - destruct (dthen_ok result lay W W2) as (r' & -> & W' & D' & C' & _).
    { rewrite D2, D1, Dc, Inv, <- !app_assoc. reflexivity. }
    cbn [bind]. apply IH; [lia|exact W'|]. rewrite C', C2, C1, Cc, app_nil_r.
    replace (length l - S i)%nat with j by lia. reflexivity.
Qed.

Lemma nth_error_rev' {A} (l : list A) i : (i < length l)%nat ->
  nth_error (rev l) i = nth_error l (length l - 1 - i).
Proof.
  intros H. destruct l as [|a l0] eqn:E; [cbn in H; lia|]. rewrite <- E in *.
  rewrite (nth_error_nth' (rev l) a) by (rewrite rev_length; lia).
  rewrite (nth_error_nth' l a) by lia. f_equal. rewrite rev_nth by lia. f_equal. lia.
Qed.

Lemma adjoint_ok_adj l r : adjoint_ok l r = true ->
  forall i x y, (i < length l)%nat -> nth_error l (length l - 1 - i) = Some x ->
                nth_error r i = Some y -> adj x y.
Proof.
  unfold adjoint_ok. rewrite orb_true_iff, !ty_eqb_eq. intros [H|H] i x y Hi Ex Ey.
  - left. subst r. unfold ty_r in Ey. rewrite nth_error_map in Ey.
    assert (E : nth_error (rev l) i = Some x).
    { rewrite <- Ex. rewrite nth_error_rev' by lia. f_equal. }
    rewrite E in Ey. cbn in Ey. congruence.
  - right. subst l. unfold ty_r in *. rewrite map_length, rev_length in *.
    rewrite nth_error_map in Ex.
    assert (E : nth_error (rev r) (length r - 1 - i) = Some y).
    { rewrite <- Ey. rewrite nth_error_rev' by lia. f_equal. lia. }
    rewrite E in Ex. cbn in Ex. congruence.
Qed.

Theorem dcups_total l r : adjoint_ok l r = true -> exists d, dcups l r = Ok d.
Proof.
  intros A. unfold dcups. rewrite A. cbn [negb].
  apply (cups_loop_total cup_box false l r).
  - intros x y Hxy. eexists. split; [apply cup_box_adj2; exact Hxy|]. split; reflexivity.
  - apply adjoint_ok_length; exact A.
  - apply adjoint_ok_adj; exact A.
  - lia.
  - apply did_wf.
  - cbn. rewrite Nat.sub_0_r, firstn_all. reflexivity.
Qed.

Theorem dcaps_total l r : adjoint_ok l r = true -> exists d, dcaps l r = Ok d.
Proof.
  intros A. unfold dcaps. rewrite A. cbn [negb].
  apply (cups_loop_total cap_box true l r).
  - intros x y Hxy. eexists. split; [apply cap_box_adj2; exact Hxy|]. split; reflexivity.
  - apply adjoint_ok_length; exact A.
  - apply adjoint_ok_adj; exact A.
  - lia.
  - apply did_wf.
  - cbn. rewrite Nat.sub_0_r, firstn_all. reflexivity.
Qed.

Lemma adjoint_l_ok t : adjoint_ok (ty_l t) t = true.
Proof. unfold adjoint_ok. rewrite ty_r_l, ty_eqb_refl. reflexivity. Qed.
Lemma adjoint_r_ok t : adjoint_ok t (ty_r t) = true.
Proof. unfold adjoint_ok. rewrite ty_eqb_refl. reflexivity. Qed.

Lemma adjoint_nil : adjoint_ok [] [] = true.
Proof. reflexivity. Qed.

Lemma rfa_total L R : adjoint_ok (py_slice L (Some (py_or (- len R) (len L))) None) R = true ->
  exists d, rfa L R = Ok d.
Proof.
  intros A. unfold rfa. destruct (dcups_total _ _ A) as (c & Ec). rewrite Ec. cbn [bind].
  destruct (dcups_types _ _ _ Ec) as (Wc & _).
  destruct (dtensor_ok (did (py_slice L None (Some (py_or (- len R) (len L))))) c (did_wf _) Wc) as (d & -> & _).
  eauto.
Qed.

Lemma rba_total L R : adjoint_ok L (py_slice R None (Some (py_or (len L) (- len R)))) = true ->
  exists d, rba L R = Ok d.
Proof.
  intros A. unfold rba. destruct (dcups_total _ _ A) as (c & Ec). rewrite Ec. cbn [bind].
  destruct (dcups_types _ _ _ Ec) as (Wc & _).
  destruct (dtensor_ok c (did (py_slice R (Some (py_or (len L) (- len R))) None)) Wc (did_wf _)) as (d & -> & _).
  eauto.
Qed.

Lemma rfc_total l m r : exists d, rfc l m r = Ok d.
Proof.
  unfold rfc. destruct (dcups_total _ _ (adjoint_l_ok m)) as (c & Ec). rewrite Ec. cbn [bind].
  destruct (dcups_types _ _ _ Ec) as (Wc & _).
  destruct (dtensor_ok (did l) c (did_wf _) Wc) as (t & -> & Wt & _). cbn [bind].
  destruct (dtensor_ok t (did (ty_l r)) Wt (did_wf _)) as (d & -> & _). eauto.
Qed.

Lemma rbc_total l m r : exists d, rbc l m r = Ok d.
Proof.
  unfold rbc. destruct (dcups_total _ _ (adjoint_r_ok m)) as (c & Ec). rewrite Ec. cbn [bind].
  destruct (dcups_types _ _ _ Ec) as (Wc & _).
  destruct (dtensor_ok (did (ty_r l)) c (did_wf _) Wc) as (t & -> & Wt & _). cbn [bind].
  destruct (dtensor_ok t (did r) Wt (did_wf _)) as (d & -> & _). eauto.
Qed.

Lemma rfx_total l m r : exists d, rfx l m r = Ok d.
Proof.
  unfold rfx.
  destruct (dswap_total (ty_l m) (ty_r r)) as (s1 & E1). rewrite E1. cbn [bind].
  destruct (dswap_types _ _ _ E1) as (W1 & D1 & C1).
  destruct (dtensor_ok (did l) s1 (did_wf _) W1) as (t1 & -> & Wt & Dt & Ct & _). cbn [bind].
  destruct (dtensor_ok t1 (did m) Wt (did_wf _)) as (a & -> & Wa & Da & Ca & _). cbn [bind].
  destruct (dswap_total l (ty_r r)) as (s2 & E2). rewrite E2. cbn [bind].
  destruct (dswap_types _ _ _ E2) as (W2 & D2 & C2).
  destruct (dcups_total _ _ (adjoint_l_ok m)) as (c & Ec). rewrite Ec. cbn [bind].
  destruct (dcups_types _ _ _ Ec) as (Wc & Dc & Cc).
  destruct (dtensor_ok s2 c W2 Wc) as (b & -> & Wb & Db & Cb & _). cbn [bind].
  destruct (dthen_ok a b Wa Wb) as (d & -> & _); [|eauto].
  cbn [did dcod ddom] in *. rewrite Ca, Ct, C1, Db, D2, Dc, <- !app_assoc. reflexivity.
Qed.

Lemma rbx_total l m r : exists d, rbx l m r = Ok d.
Proof.
  unfold rbx.
  destruct (dswap_total (ty_l l) (ty_r m)) as (s1 & E1). rewrite E1. cbn [bind].
  destruct (dswap_types _ _ _ E1) as (W1 & D1 & C1).
  destruct (dtensor_ok (did m) s1 (did_wf _) W1) as (t1 & -> & Wt & Dt & Ct & _). cbn [bind].
  destruct (dtensor_ok t1 (did r) Wt (did_wf _)) as (a & -> & Wa & Da & Ca & _). cbn [bind].
  destruct (dcups_total _ _ (adjoint_r_ok m)) as (c & Ec). rewrite Ec. cbn [bind].
  destruct (dcups_types _ _ _ Ec) as (Wc & Dc & Cc).
  destruct (dswap_total (ty_l l) r) as (s2 & E2). rewrite E2. cbn [bind].
  destruct (dswap_types _ _ _ E2) as (W2 & D2 & C2).
  destruct (dtensor_ok c s2 Wc W2) as (b & -> & Wb & Db & Cb & _). cbn [bind].
  destruct (dthen_ok a b Wa Wb) as (d & -> & _); [|eauto].
  cbn [did dcod ddom] in *. rewrite Ca, Ct, C1, Db, D2, Dc, <- !app_assoc. reflexivity.
Qed.

Lemma rba_under_total A M : exists d, rba A (ty_r A ++ M) = Ok d.
Proof.
  apply rba_total. unfold py_or. destruct (len A =? 0) eqn:E.
  - apply Z.eqb_eq in E. assert (Ha : A = []) by (apply len_zero_nil; lia).
    rewrite Ha. cbn [ty_r rev map app].
    destruct (len M =? 0) eqn:E'.
    + apply Z.eqb_eq in E'. replace (- len M) with 0 by lia. rewrite py_prefix_0. reflexivity.
    + apply Z.eqb_neq in E'. pose proof (len_nonneg M).
      pose proof (py_prefix_neg [] M ltac:(lia)) as P. cbn [app] in P. rewrite P. reflexivity.
  - replace (len A) with (len (ty_r A)) by apply len_ty_r.
    rewrite py_prefix_app. apply adjoint_r_ok.
Qed.

Definition is_curry (b : bbox) : bool :=
  match b with XCurry _ _ _ _ _ _ => true | _ => false end.

(* no application, composition or crossed composition is ever refused *)
Theorem rule_image_total : forall b, box_good b = true -> is_curry b = false ->
  exists d, f_box b = Ok d.
Proof.
  intros b G NC. destruct b as [n dm c|o|u|l r|l r|l r|l r|dm c bs offs n lf]; try discriminate.
  - cbn. eauto.
  - cbn [box_good] in G. apply check_ok in G. cbn [bbox_check] in G. apply ok_true in G.
    destruct (is_over_inv _ G) as (l & r & ->). cbn [f_box xdom tright ty_right app].
    destruct (py_head (BOver l r) r) as (-> & ->). apply rfa_total.
    rewrite F_ty_one, F_ob_over. unfold py_or.
    destruct (- len (F_ty r) =? 0) eqn:E.
    + apply Z.eqb_eq in E. assert (Hr : F_ty r = []) by (apply len_zero_nil; lia).
      rewrite Hr, py_suffix_len. reflexivity.
    + apply Z.eqb_neq in E. rewrite <- (len_ty_l (F_ty r)) at 1. rewrite py_suffix_neg.
      * apply adjoint_l_ok.
      * rewrite len_ty_l. pose proof (len_nonneg (F_ty r)). lia.
  - cbn [box_good] in G. apply check_ok in G. cbn [bbox_check] in G. apply ok_true in G.
    destruct (is_under_inv _ G) as (l & m & ->).
    cbn [f_box xdom tleft ty_left]. rewrite ba_args. apply rba_under_total.
  - cbn [box_good] in G. apply check_ok in G. cbn [bbox_check] in G. apply ok_true in G.
    rewrite !andb_true_iff in G. destruct G as ((G1 & G2) & _).
    destruct (is_over_inv _ G1) as (a & m & ->). destruct (is_over_inv _ G2) as (m' & c & ->).
    cbn [f_box xdom app]. destruct (py_head (BOver a m) [BOver m' c]) as (-> & ->).
    cbn [ty_left ty_right bind]. apply rfc_total.
  - cbn [box_good] in G. apply check_ok in G. cbn [bbox_check] in G. apply ok_true in G.
    rewrite !andb_true_iff in G. destruct G as ((G1 & G2) & _).
    destruct (is_under_inv _ G1) as (a & m & ->). destruct (is_under_inv _ G2) as (m' & c & ->).
    cbn [f_box xdom app]. destruct (py_head (BUnder a m) [BUnder m' c]) as (-> & ->).
    cbn [ty_left ty_right bind]. apply rbc_total.
  - cbn [box_good] in G. apply check_ok in G. cbn [bbox_check] in G. apply ok_true in G.
    rewrite !andb_true_iff in G. destruct G as ((G1 & G2) & _).
    destruct (is_over_inv _ G1) as (a & m & ->). destruct (is_under_inv _ G2) as (c & m' & ->).
    cbn [f_box xdom app]. destruct (py_head (BOver a m) [BUnder c m']) as (-> & ->).
    cbn [ty_left ty_right bind]. apply rfx_total.
  - cbn [box_good] in G. apply check_ok in G. cbn [bbox_check] in G. apply ok_true in G.
    rewrite !andb_true_iff in G. destruct G as ((G1 & G2) & _).
    destruct (is_over_inv _ G1) as (m & a & ->). destruct (is_under_inv _ G2) as (m' & c & ->).
    cbn [f_box xdom app]. destruct (py_head (BOver m a) [BUnder m' c]) as (-> & ->).
    cbn [ty_left ty_right bind]. apply rbx_total.
Qed.

(* ------------------------------------------------------------ currying and whole diagrams *)
Lemma rcurry_left_total d0 n : wf d0 -> exists d, rcurry d0 n true = Ok d.
Proof.
  intros W0. unfold rcurry. set (wires := py_slice (ddom d0) None (Some n)).
  assert (A : adjoint_ok (ty_r wires) wires = true).
  { unfold adjoint_ok. rewrite (ty_eqb_refl (ty_r wires)). apply orb_true_r. }
  destruct (dcaps_total _ _ A) as (caps & Ec). rewrite Ec. cbn [bind].
  destruct (dcaps_types _ _ _ Ec) as (Wc & Dc & Cc).
  destruct (dtensor_ok caps (did (py_slice (ddom d0) (Some n) None)) Wc (did_wf _)) as (a & -> & Wa & Da & Ca & _).
  cbn [bind].
  destruct (dtensor_ok (did (ty_r wires)) d0 (did_wf _) W0) as (b & -> & Wb & Db & Cb & _). cbn [bind].
  destruct (dthen_ok a b Wa Wb) as (d & -> & _); [|eauto].
  cbn [did ddom dcod] in *. rewrite Ca, Cc, Db, <- app_assoc. unfold wires. rewrite py_split_any. reflexivity.
Qed.

Lemma rcurry_right_total d0 n : wf d0 -> exists d, rcurry d0 n false = Ok d.
Proof.
  intros W0. unfold rcurry.
  set (wires := py_slice (ddom d0) (Some (py_or (- n) (len (ddom d0)))) None).
  assert (A : adjoint_ok wires (ty_l wires) = true).
  { unfold adjoint_ok. rewrite ty_r_l, (ty_eqb_refl wires). apply orb_true_r. }
  destruct (dcaps_total _ _ A) as (caps & Ec). rewrite Ec. cbn [bind].
  destruct (dcaps_types _ _ _ Ec) as (Wc & Dc & Cc).
  destruct (dtensor_ok (did (py_slice (ddom d0) None (Some (py_or (- n) (len (ddom d0)))))) caps (did_wf _) Wc)
    as (a & -> & Wa & Da & Ca & _). cbn [bind].
  destruct (dtensor_ok d0 (did (ty_l wires)) W0 (did_wf _)) as (b & -> & Wb & Db & Cb & _). cbn [bind].
  destruct (dthen_ok a b Wa Wb) as (d & -> & _); [|eauto].
  cbn [did ddom dcod] in *. rewrite Ca, Cc, Db, app_assoc. unfold wires. rewrite right_split. reflexivity.
Qed.

Lemma b2r_loop_total bs :
  Forall (fun b => box_good b = true -> exists d, f_box b = Ok d) bs ->
  forall offs scan result t, forallb box_good bs = true -> bscan scan bs offs = Ok t ->
  wf result -> dcod result = F_ty scan -> exists d, b2r_loop f_box bs offs scan result = Ok d.
Proof.
  induction 1 as [|b bs Hb Hbs IH]; intros offs scan result t G S W C.
  - cbn. eauto.
  - destruct offs as [|off offs]; [cbn; eauto|].
    rewrite b2r_loop_cons. cbn zeta. cbn [bscan] in S. cbn [forallb] in G.
    apply andb_true_iff in G. destruct G as (Gb & Gbs).
    destruct (negb _); [discriminate|]. destruct (bty_eqb scan _) eqn:E; [|discriminate].
    apply bty_eqb_eq in E.
    destruct (Hb Gb) as (img & E0). rewrite E0. cbn [bind].
    destruct (f_box_types _ _ Gb E0) as (Wi & Di & Ci).
    destruct (dtensor_ok (did (F_ty (py_slice scan None (Some off)))) img (did_wf _) Wi)
      as (t1 & -> & W1 & D1 & C1 & _). cbn [bind].
    destruct (dtensor_ok t1 (did (F_ty (py_slice scan (Some (off + len (xdom b))) None))) W1 (did_wf _))
      as (lay & -> & W2 & D2 & C2 & _). cbn [bind].
    destruct (dthen_ok result lay W W2) as (r' & -> & W3 & D3 & C3 & _).
    { rewrite C, D2, D1, Di. cbn [did ddom]. rewrite <- !F_ty_app, <- app_assoc. f_equal. exact E. }
    cbn [bind]. apply (IH offs _ r' t Gbs S W3).
    rewrite C3, C2, C1, Ci. cbn [did dcod]. rewrite !F_ty_app, <- !app_assoc. reflexivity.
Qed.

(* no box built within the side conditions is refused: applications,
   compositions, crossed compositions and currying (both sides) *)
Theorem f_box_total : forall b, box_good b = true -> exists d, f_box b = Ok d.
Proof.
  induction b as [n dm c|o|u|l r|l r|l r|l r|dm c bs offs n lf IH] using bbox_ind'; intros G;
    try (apply rule_image_total; [exact G|reflexivity]).
  cbn [box_good] in G. apply andb_true_iff in G. destruct G as (Gbs & Gs).
  destruct (bscan dm bs offs) as [t|] eqn:S; [|discriminate]. apply bty_eqb_eq in Gs. subst t.
  rewrite f_box_curry. cbn [xcod].
  destruct (b2r_loop_total bs IH offs dm (did (F_ty dm)) c Gbs S (did_wf _) eq_refl) as (d0 & E0).
  assert (T : wf d0 /\ ddom d0 = F_ty dm).
  { eapply b2r_loop_types in E0; eauto using did_wf; [destruct E0 as (? & ? & ?); auto|].
    apply Forall_forall. intros b _. apply f_box_types. }
  destruct T as (W0 & D0).
  destruct lf; cbn [ty_left ty_right bind]; rewrite E0; cbn [bind].
  - apply rcurry_left_total. exact W0.
  - apply rcurry_right_total. exact W0.
Qed.

(* biclosed2rigid is total on well-typed diagrams of such boxes *)
Theorem b2r_total D : diagram_good D = true -> exists d, b2r D = Ok d.
Proof.
  unfold diagram_good, b2r. intros G. apply andb_true_iff in G. destruct G as (Gb & Gs).
  destruct (bscan _ _ _) as [t|] eqn:S; [|discriminate]. apply bty_eqb_eq in Gs. subst t.
  eapply b2r_loop_total; eauto using did_wf.
  apply Forall_forall. intros b _. apply f_box_total.
Qed.

(* every biclosed diagram the public constructors accept is translated, into a
   well-typed rigid diagram between the images of its domain and codomain *)
Theorem build_b2r_typed dom cod bs offs D : build dom cod bs offs = Ok D ->
  exists d, b2r D = Ok d /\ wf d /\ ddom d = F_ty dom /\ dcod d = F_ty cod.
Proof.
  intros H. pose proof (build_built _ _ _ _ _ H) as G.
  destruct (b2r_total _ G) as (d & E). exists d. split; [exact E|].
  destruct (b2r_type_preserving_lemma _ _ G E) as (W & D0 & C0).
  unfold build in H. destruct (build_boxes bs) as [[]|]; [cbn [bind] in H|discriminate].
  destruct (bmk_built _ _ _ _ _ H) as (-> & _). auto.
Qed.
