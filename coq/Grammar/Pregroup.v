(* discopy/grammar/pregroup.py : Word, eager_parse, brute_force.
   Definitions only; proofs live in Grammar/PregroupLemmas.v. *)
From Coq Require Import List ZArith Bool Lia.
Import ListNotations.
Require Import DV.Common.Base DV.Core.Diagram DV.Core.Perm DV.Core.Rigid.
Open Scope Z_scope.

(* pregroup.Word(name, cod): a rigid.Box with dom = cod[0:0] = Ty() *)
Definition word := (Z * ty)%type.
Definition word_box (w : word) : box := Box KBox (fst w) [] (snd w) false None.
Definition word_diagram (w : word) : diagram := dbox (word_box w).

(* monoidal.Diagram.tensor(self, other=None, *rest): self.tensor(other).tensor( *rest) *)
Fixpoint tensor_all (acc : diagram) (ds : list diagram) : res diagram :=
  match ds with
  | [] => Ok acc
  | d :: ds' => do a <- dtensor acc d; tensor_all a ds'
  end.

(* the `for i in range(len(scan) - 1)` loop of eager_parse: the first i with
   scan[i:i+1].r == scan[i+1:i+2]; n = remaining iterations *)
Fixpoint find_pair (scan : ty) (i n : nat) : option nat :=
  match n with
  | O => None
  | S n' =>
      let iz := Z.of_nat i in
      if ty_eqb (ty_r (py_slice scan (Some iz) (Some (iz + 1))))
                (py_slice scan (Some (iz + 1)) (Some (iz + 2)))
      then Some i else find_pair scan (S i) n'
  end.

(* one round of the `while True` loop; fuel bounds the number of rounds *)
Fixpoint eager_loop (fuel : nat) (result : diagram) (target : ty) : res diagram :=
  match fuel with
  | O => Err OutOfFuel
  | S f =>
      let scan := dcod result in
      match find_pair scan 0 (length scan - 1) with
      | Some i =>
          let iz := Z.of_nat i in
          do cup <- cup_box (py_slice scan (Some iz) (Some (iz + 1)))
                            (py_slice scan (Some (iz + 1)) (Some (iz + 2)));
          do t1 <- dtensor (did (py_slice scan None (Some iz))) (dbox cup);
          do lay <- dtensor t1 (did (py_slice scan (Some (iz + 2)) None));
          do result' <- dthen result lay;
          if ty_eqb (dcod result') target then Ok result'
          else eager_loop f result' target
      | None =>
          if ty_eqb (dcod result) target then Ok result
          else Err NotImplementedError
      end
  end.

(* eager_parse( *words, target) *)
Definition eager_parse (ws : list word) (target : ty) : res diagram :=
  do result <- tensor_all (did []) (map word_diagram ws);
  eager_loop (S (length (dcod result))) result target.

(* brute_force( *vocab, target): the queue `test` starts as [()] and every
   candidate words + (word,) is appended after it was tried, so the candidates
   are tried in the order: all sentences of length 1 (vocabulary order), then all
   of length 2 (prefix-major), ...  `extend vocab level` is the queue segment of
   tuples one longer than those of `level`. *)
Definition extend (vocab : list word) (level : list (list word)) : list (list word) :=
  flat_map (fun ws => map (fun w => ws ++ [w]) vocab) level.

(* the first m candidates the generator tries, level by level (`level` is the
   queue segment of tuples of the current length; an empty vocabulary ends the
   generator at once) *)
Fixpoint candidates_from (vocab : list word) (level : list (list word)) (m fuel : nat)
  : list (list word) :=
  match fuel with
  | O => []
  | S f =>
      match extend vocab level with
      | [] => []
      | next =>
          if Nat.leb m (length next) then firstn m next
          else next ++ candidates_from vocab next (m - length next) f
      end
  end.
Definition candidates (vocab : list word) (m : nat) : list (list word) :=
  candidates_from vocab [[]] m m.

(* consume candidates until n results were yielded: NotImplementedError is
   swallowed, every other exception propagates out of the generator *)
Fixpoint bf_collect (cands : list (list word)) (target : ty) (n : nat) : res (list diagram) :=
  match n, cands with
  | O, _ => Ok []
  | _, [] => Ok []
  | S n', ws :: rest =>
      match eager_parse ws target with
      | Ok d => do ds <- bf_collect rest target n'; Ok (d :: ds)
      | Err NotImplementedError => bf_collect rest target n
      | Err e => Err e
      end
  end.

(* itertools.islice(brute_force( *vocab, target), n) with the search cut off
   after m candidates *)
Definition brute_force (vocab : list word) (target : ty) (n m : nat) : res (list diagram) :=
  bf_collect (candidates vocab m) target n.
