(* CQMap.tensor AS CODED equals its closed form.

   discopy/quantum/cqmap.py, CQMap.tensor evaluates the diagram
       above >> f @ g >> below
   through tensor.Functor, where above / below are two layers of block swaps
   each (CQMap.v: net_above, net_below, swapm = Tensor.swap, whisker = Id @ _ @ Id)
   that bring the domain  c0 c1 | q0 q1 | q0' q1'  of the result to the domain
   c0 q0 q0' | c1 q1 q1'  of the plain Kronecker product  f @ g  and back.
   [cq_tensor_net] is that network, [cq_tensor] the closed form
       (f (x) g)[c0 c1 q0 q1 q0' q1' ; ...] = f[c0 q0 q0' ; ...] * g[c1 q1 q1' ; ...]
   the executable model (and every C12 theorem) uses.  This file proves
       cq_tensor_is_kron_on_each_sector_stmt        (CQLemmas.v, there only a Definition)
   i.e. the two agree (meq: on all indices of the right lengths) for every
   StarRing, all f, g and all type shapes (no hypothesis: the lengths in the
   statement are the only ones the matrices of f and g are read at).

   Method (no reindexing of bsum under a permutation is needed): every swap
   layer is a RELABELLING matrix, i.e. on indices of the right lengths
       whisker k (a+b) (b+a) (swapm a) (l ++ (u ++ v) ++ r) x = delta (l ++ (v ++ u) ++ r) x
   (whisker_swapm_l; _r for the other side), and composing with a relabelling
   matrix collapses the sum by bsum_delta_l / bsum_delta_r (mmul_delta_l/_r):
   the composite relabels the index.  Hence
       net_above a b (idx6 c0 c1 q0 q1 p0 p1) x = delta ((c0 q0 p0) ++ (c1 q1 p1)) x
       net_below a b x (idx6 d0 d1 r0 r1 s0 s1) = delta x ((d0 r0 s0) ++ (d1 r1 s1))
   and the network reads  kron f g  at exactly the indices of the closed form.

   Reused: whisker_app3 (Quantum/RewireGeneral.v), delta_app, bsum_delta_l/_r
   (Quantum/MatrixLemmas.v), split3, split_idx6, cq_tensor_at (CQ/CQLemmas.v). *)
From Coq Require Import List Bool Arith Lia Ring.
Import ListNotations.
Require Import DV.Common.Base.
Require Import DV.Quantum.Ring DV.Quantum.Matrix DV.Quantum.MatrixLemmas DV.Quantum.RewireGeneral.
Require Import DV.CQ.CQMap DV.CQ.CQLemmas.
Local Open Scope nat_scope.

Section CQTensorNet.
  Variable SR : StarRing.
  Add Ring SRrnet : (SR_ring SR).
  Implicit Types (A B : mat SR) (f g : cqmap SR).

  (* ---------------------------------------------------------------- relabelling matrices *)
  (* A then B where row i of A is the indicator of p: the sum collapses, B is read at p *)
  Lemma mmul_delta_l : forall n A B i o (p : bits), length p = n ->
    (forall x, length x = n -> A i x = delta p x) ->
    mmul n A B i o = B p o.
  Proof.
    intros n A B i o p Hp HA. unfold mmul.
    rewrite (bsum_ext SR n _ (fun x => (delta p x * B x o)%sr)).
    - apply (bsum_delta_l SR n p (fun x => B x o) Hp).
    - intros x Hx. rewrite (HA x Hx). reflexivity.
  Qed.

  (* A then B where column o of B is the indicator of p: A is read at p *)
  Lemma mmul_delta_r : forall n A B i o (p : bits), length p = n ->
    (forall x, length x = n -> B x o = delta x p) ->
    mmul n A B i o = A i p.
  Proof.
    intros n A B i o p Hp HB. unfold mmul.
    rewrite (bsum_ext SR n _ (fun x => (A i x * delta x p)%sr)).
    - apply (bsum_delta_r SR n p (fun x => A i x) Hp).
    - intros x Hx. rewrite (HB x Hx). reflexivity.
  Qed.

  (* Tensor.swap on blocks: in = u ++ v, out = v ++ u *)
  Lemma swapm_blocks : forall a (u v x : bits), length u = a ->
    swapm a (u ++ v) x = (delta (v ++ u) x : SR).
  Proof.
    intros a u v x Hu. unfold swapm.
    rewrite (skipn_app_len _ a u v Hu), (firstn_app_len _ a u v Hu). reflexivity.
  Qed.

  (* Id(k) @ swap(a, b) @ Id(r), read from the input side: the row of the input
     l (u v) r is the indicator of l (v u) r *)
  Lemma whisker_swapm_l : forall k a b (l u v r x : bits),
    length l = k -> length u = a -> length v = b ->
    length x = k + (b + a) + length r ->
    whisker k (a + b) (b + a) (swapm a) (l ++ (u ++ v) ++ r) x
    = (delta (l ++ (v ++ u) ++ r) x : SR).
  Proof.
    intros k a b l u v r x Hl Hu Hv Hx.
    assert (Hx' : length x = k + ((b + a) + length r)) by lia.
    destruct (split3 _ k (b + a) (length r) x Hx') as (l' & m' & r' & -> & Hl' & Hm' & Hr').
    assert (Luv : length (u ++ v) = a + b) by (rewrite app_length; lia).
    assert (Lvu : length (v ++ u) = length m') by (rewrite app_length; lia).
    assert (Lll : length l = length l') by lia.
    rewrite (whisker_app3 SR k (a + b) (b + a) (swapm a) l (u ++ v) r l' m' r' Hl Hl' Luv Hm').
    rewrite (swapm_blocks a u v m' Hu).
    rewrite (delta_app SR l ((v ++ u) ++ r) l' (m' ++ r') Lll).
    rewrite (delta_app SR (v ++ u) r m' r' Lvu).
    ring.
  Qed.

  (* the same layer read from the output side: the column of the output
     l (v u) r is the indicator of l (u v) r *)
  Lemma whisker_swapm_r : forall k a b (l u v r x : bits),
    length l = k -> length u = a -> length v = b ->
    length x = k + (a + b) + length r ->
    whisker k (a + b) (b + a) (swapm a) x (l ++ (v ++ u) ++ r)
    = (delta x (l ++ (u ++ v) ++ r) : SR).
  Proof.
    intros k a b l u v r x Hl Hu Hv Hx.
    assert (Hx' : length x = k + ((a + b) + length r)) by lia.
    destruct (split3 _ k (a + b) (length r) x Hx') as (l' & m' & r' & -> & Hl' & Hm' & Hr').
    destruct (split2 _ a b m' Hm') as (u' & v' & -> & Hu' & Hv').
    assert (Lout : length (l ++ (v ++ u) ++ r) = k + (b + a) + length r')
      by (rewrite !app_length; lia).
    rewrite (whisker_swapm_l k a b l' u' v' r' (l ++ (v ++ u) ++ r) Hl' Hu' Hv' Lout).
    assert (Lll : length l' = length l) by lia.
    assert (Lvv : length v' = length v) by lia.
    assert (Luu : length u' = length u) by lia.
    assert (Lvu : length (v' ++ u') = length (v ++ u)) by (rewrite !app_length; lia).
    assert (Luv : length (u' ++ v') = length (u ++ v)) by (rewrite !app_length; lia).
    rewrite (delta_app SR l' ((v' ++ u') ++ r') l ((v ++ u) ++ r) Lll).
    rewrite (delta_app SR (v' ++ u') r' (v ++ u) r Lvu).
    rewrite (delta_app SR v' u' v u Lvv).
    rewrite (delta_app SR l' ((u' ++ v') ++ r') l ((u ++ v) ++ r) Lll).
    rewrite (delta_app SR (u' ++ v') r' (u ++ v) r Luv).
    rewrite (delta_app SR u' v' u v Luu).
    ring.
  Qed.

  (* ---------------------------------------------------------------- the two halves of the network *)
  (* above: c0 c1 | q0 q1 | p0 p1   |->   c0 q0 p0 | c1 q1 p1 *)
  Lemma net_above_at : forall (a b : cq) (c0 c1 q0 q1 p0 p1 x : bits),
    length c0 = fst a -> length c1 = fst b -> length q0 = snd a -> length q1 = snd b ->
    length p0 = snd a -> length p1 = snd b ->
    length x = uw a + uw b ->
    net_above a b (idx6 c0 c1 q0 q1 p0 p1) x
    = (delta ((c0 ++ q0 ++ p0) ++ (c1 ++ q1 ++ p1)) x : SR).
  Proof.
    intros [ca qa] [cb qb] c0 c1 q0 q1 p0 p1 x H1 H2 H3 H4 H5 H6 Hx.
    unfold uw in Hx. cbn [fst snd] in *.
    unfold net_above, idx6, uw, cq_add. cbn [fst snd].
    (* first layer: Id(c0 c1 q0) @ swap(q1, p0) @ Id(p1) *)
    assert (E1 : (c0 ++ c1) ++ (q0 ++ q1) ++ p0 ++ p1
                 = (c0 ++ c1 ++ q0) ++ (q1 ++ p0) ++ p1)
      by (repeat rewrite <- app_assoc; reflexivity).
    (* second layer: Id(c0) @ swap(c1, q0 p0) @ Id(q1 p1) *)
    assert (E2 : (c0 ++ c1 ++ q0) ++ (p0 ++ q1) ++ p1
                 = c0 ++ (c1 ++ (q0 ++ p0)) ++ (q1 ++ p1))
      by (repeat rewrite <- app_assoc; reflexivity).
    assert (E3 : c0 ++ ((q0 ++ p0) ++ c1) ++ (q1 ++ p1)
                 = (c0 ++ q0 ++ p0) ++ (c1 ++ q1 ++ p1))
      by (repeat rewrite <- app_assoc; reflexivity).
    rewrite E1.
    rewrite (mmul_delta_l (ca + cb + (qa + qb + (qa + qb)))
               (whisker (ca + cb + qa) (qb + qa) (qa + qb) (swapm qb))
               (whisker ca (cb + (qa + qa)) (qa + qa + cb) (swapm cb))
               ((c0 ++ c1 ++ q0) ++ (q1 ++ p0) ++ p1) x
               ((c0 ++ c1 ++ q0) ++ (p0 ++ q1) ++ p1)).
    - rewrite E2.
      rewrite (whisker_swapm_l ca cb (qa + qa) c0 c1 (q0 ++ p0) (q1 ++ p1) x).
      + rewrite E3. reflexivity.
      + exact H1.
      + exact H2.
      + rewrite app_length. lia.
      + rewrite app_length. lia.
    - rewrite !app_length. lia.
    - intros y Hy.
      apply (whisker_swapm_l (ca + cb + qa) qb qa (c0 ++ c1 ++ q0) q1 p0 p1 y).
      + rewrite !app_length. lia.
      + exact H4.
      + exact H5.
      + lia.
  Qed.

  (* below: d0 r0 s0 | d1 r1 s1   |->   d0 d1 | r0 r1 | s0 s1 *)
  Lemma net_below_at : forall (a b : cq) (d0 d1 r0 r1 s0 s1 x : bits),
    length d0 = fst a -> length d1 = fst b -> length r0 = snd a -> length r1 = snd b ->
    length s0 = snd a -> length s1 = snd b ->
    length x = uw a + uw b ->
    net_below a b x (idx6 d0 d1 r0 r1 s0 s1)
    = (delta x ((d0 ++ r0 ++ s0) ++ (d1 ++ r1 ++ s1)) : SR).
  Proof.
    intros [da ra] [db rb] d0 d1 r0 r1 s0 s1 x H1 H2 H3 H4 H5 H6 Hx.
    unfold uw in Hx. cbn [fst snd] in *.
    unfold net_below, idx6, uw, cq_add. cbn [fst snd].
    (* second layer: Id(d0 d1 r0) @ swap(s0, r1) @ Id(s1), read from its output *)
    assert (E1 : (d0 ++ d1) ++ (r0 ++ r1) ++ s0 ++ s1
                 = (d0 ++ d1 ++ r0) ++ (r1 ++ s0) ++ s1)
      by (repeat rewrite <- app_assoc; reflexivity).
    (* first layer: Id(d0) @ swap(r0 s0, d1) @ Id(r1 s1), read from its output *)
    assert (E2 : (d0 ++ d1 ++ r0) ++ (s0 ++ r1) ++ s1
                 = d0 ++ (d1 ++ (r0 ++ s0)) ++ (r1 ++ s1))
      by (repeat rewrite <- app_assoc; reflexivity).
    assert (E3 : d0 ++ ((r0 ++ s0) ++ d1) ++ (r1 ++ s1)
                 = (d0 ++ r0 ++ s0) ++ (d1 ++ r1 ++ s1))
      by (repeat rewrite <- app_assoc; reflexivity).
    rewrite E1.
    rewrite (mmul_delta_r (da + db + (ra + rb + (ra + rb)))
               (whisker da (ra + ra + db) (db + (ra + ra)) (swapm (ra + ra)))
               (whisker (da + db + ra) (ra + rb) (rb + ra) (swapm ra))
               x ((d0 ++ d1 ++ r0) ++ (r1 ++ s0) ++ s1)
               ((d0 ++ d1 ++ r0) ++ (s0 ++ r1) ++ s1)).
    - rewrite E2.
      rewrite (whisker_swapm_r da (ra + ra) db d0 (r0 ++ s0) d1 (r1 ++ s1) x).
      + rewrite E3. reflexivity.
      + exact H1.
      + rewrite app_length. lia.
      + exact H2.
      + rewrite app_length. lia.
    - rewrite !app_length. lia.
    - intros y Hy.
      apply (whisker_swapm_r (da + db + ra) ra rb (d0 ++ d1 ++ r0) s0 r1 s1 y).
      + rewrite !app_length. lia.
      + exact H5.
      + exact H4.
      + lia.
  Qed.

  (* ---------------------------------------------------------------- the network, pointwise *)
  Lemma cq_tensor_net_at : forall f g c0 c1 q0 q1 p0 p1 d0 d1 r0 r1 s0 s1,
    length c0 = fst (cq_dom f) -> length c1 = fst (cq_dom g) ->
    length q0 = snd (cq_dom f) -> length q1 = snd (cq_dom g) ->
    length p0 = snd (cq_dom f) -> length p1 = snd (cq_dom g) ->
    length d0 = fst (cq_cod f) -> length d1 = fst (cq_cod g) ->
    length r0 = snd (cq_cod f) -> length r1 = snd (cq_cod g) ->
    length s0 = snd (cq_cod f) -> length s1 = snd (cq_cod g) ->
    cq_mat (cq_tensor_net f g) (idx6 c0 c1 q0 q1 p0 p1) (idx6 d0 d1 r0 r1 s0 s1)
    = (cq_mat f (c0 ++ q0 ++ p0) (d0 ++ r0 ++ s0) * cq_mat g (c1 ++ q1 ++ p1) (d1 ++ r1 ++ s1))%sr.
  Proof.
    intros f g c0 c1 q0 q1 p0 p1 d0 d1 r0 r1 s0 s1
           Hc0 Hc1 Hq0 Hq1 Hp0 Hp1 Hd0 Hd1 Hr0 Hr1 Hs0 Hs1.
    cbn [cq_tensor_net cq_mat].
    assert (Li : length (c0 ++ q0 ++ p0) = uw (cq_dom f))
      by (unfold uw; rewrite !app_length; lia).
    assert (Lo : length (d0 ++ r0 ++ s0) = uw (cq_cod f))
      by (unfold uw; rewrite !app_length; lia).
    assert (Li2 : length (c1 ++ q1 ++ p1) = uw (cq_dom g))
      by (unfold uw; rewrite !app_length; lia).
    assert (Lo2 : length (d1 ++ r1 ++ s1) = uw (cq_cod g))
      by (unfold uw; rewrite !app_length; lia).
    rewrite (mmul_delta_l (uw (cq_dom f) + uw (cq_dom g))
               (net_above (cq_dom f) (cq_dom g)) _
               (idx6 c0 c1 q0 q1 p0 p1) (idx6 d0 d1 r0 r1 s0 s1)
               ((c0 ++ q0 ++ p0) ++ (c1 ++ q1 ++ p1))).
    - rewrite (mmul_delta_r (uw (cq_cod f) + uw (cq_cod g)) _
                 (net_below (cq_cod f) (cq_cod g))
                 ((c0 ++ q0 ++ p0) ++ (c1 ++ q1 ++ p1)) (idx6 d0 d1 r0 r1 s0 s1)
                 ((d0 ++ r0 ++ s0) ++ (d1 ++ r1 ++ s1))).
      + unfold kron.
        rewrite (firstn_app_len _ _ (c0 ++ q0 ++ p0) (c1 ++ q1 ++ p1) Li).
        rewrite (skipn_app_len _ _ (c0 ++ q0 ++ p0) (c1 ++ q1 ++ p1) Li).
        rewrite (firstn_app_len _ _ (d0 ++ r0 ++ s0) (d1 ++ r1 ++ s1) Lo).
        rewrite (skipn_app_len _ _ (d0 ++ r0 ++ s0) (d1 ++ r1 ++ s1) Lo).
        reflexivity.
      + rewrite app_length, Lo, Lo2. reflexivity.
      + intros x Hx.
        apply (net_below_at (cq_cod f) (cq_cod g) d0 d1 r0 r1 s0 s1 x); assumption.
    - rewrite app_length, Li, Li2. reflexivity.
    - intros x Hx.
      apply (net_above_at (cq_dom f) (cq_dom g) c0 c1 q0 q1 p0 p1 x); assumption.
  Qed.

  (* ---------------------------------------------------------------- the statement *)
  (* CQMap.tensor as coded = the closed form, on every index of the (co)domain *)
  Lemma cq_tensor_net_eq : forall f g,
    meq (uw (cq_add (cq_dom f) (cq_dom g))) (uw (cq_add (cq_cod f) (cq_cod g)))
        (cq_mat (cq_tensor_net f g)) (cq_mat (cq_tensor f g)).
  Proof.
    intros f g i o Hi Ho.
    destruct (split_idx6 (cq_dom f) (cq_dom g) i Hi)
      as (c0 & c1 & q0 & q1 & p0 & p1 & -> & Hc0 & Hc1 & Hq0 & Hq1 & Hp0 & Hp1).
    destruct (split_idx6 (cq_cod f) (cq_cod g) o Ho)
      as (d0 & d1 & r0 & r1 & s0 & s1 & -> & Hd0 & Hd1 & Hr0 & Hr1 & Hs0 & Hs1).
    rewrite (cq_tensor_net_at f g c0 c1 q0 q1 p0 p1 d0 d1 r0 r1 s0 s1) by assumption.
    rewrite (cq_tensor_at SR f g c0 c1 q0 q1 p0 p1 d0 d1 r0 r1 s0 s1) by assumption.
    reflexivity.
  Qed.

  (* the network has the same types as the closed form (by definition) *)
  Lemma cq_tensor_net_types : forall f g,
    cq_dom (cq_tensor_net f g) = cq_dom (cq_tensor f g)
    /\ cq_cod (cq_tensor_net f g) = cq_cod (cq_tensor f g).
  Proof. intros f g. split; reflexivity. Qed.

  (* the two halves are mutually inverse relabellings: above >> below = id on the
     rearranged side (a sanity statement about the network itself) *)
  Lemma net_below_above : forall (a b : cq),
    meq (uw a + uw b) (uw a + uw b)
        (mmul (uw (cq_add a b)) (net_below a b) (net_above a b)) (mid : mat SR).
  Proof.
    intros a b i o Hi Ho. unfold mmul, mid.
    assert (Ho' : length o = fst a + (snd a + snd a) + (fst b + (snd b + snd b)))
      by (unfold uw in Ho; exact Ho).
    destruct (split2 _ _ _ o Ho') as (oa & ob & -> & Loa & Lob).
    destruct (split3 _ _ _ _ oa Loa) as (c0 & q0 & p0 & -> & Hc0 & Hq0 & Hp0).
    destruct (split3 _ _ _ _ ob Lob) as (c1 & q1 & p1 & -> & Hc1 & Hq1 & Hp1).
    assert (L6 : length (idx6 c0 c1 q0 q1 p0 p1) = uw (cq_add a b))
      by (rewrite idx6_length; unfold uw, cq_add; cbn [fst snd]; lia).
    rewrite (bsum_ext SR _ _
               (fun x => (net_below a b i x * delta x (idx6 c0 c1 q0 q1 p0 p1))%sr)).
    - rewrite (bsum_delta_r SR _ (idx6 c0 c1 q0 q1 p0 p1) (fun x => net_below a b i x) L6).
      apply (net_below_at a b c0 c1 q0 q1 p0 p1 i); assumption.
    - intros x Hx.
      destruct (split_idx6 a b x Hx)
        as (e0 & e1 & f0 & f1 & g0 & g1 & -> & He0 & He1 & Hf0 & Hf1 & Hg0 & Hg1).
      rewrite (net_above_at a b e0 e1 f0 f1 g0 g1 ((c0 ++ q0 ++ p0) ++ c1 ++ q1 ++ p1))
        by (try assumption; rewrite !app_length; unfold uw; lia).
      f_equal.
      assert (La : length (e0 ++ f0 ++ g0) = length (c0 ++ q0 ++ p0))
        by (rewrite !app_length; lia).
      assert (Lc : length (e0 ++ e1) = length (c0 ++ c1)) by (rewrite !app_length; lia).
      assert (Lq : length (f0 ++ f1) = length (q0 ++ q1)) by (rewrite !app_length; lia).
      unfold idx6.
      rewrite (delta_app SR (e0 ++ f0 ++ g0) _ (c0 ++ q0 ++ p0) _ La).
      rewrite (delta_app SR e0 (f0 ++ g0) c0 (q0 ++ p0)) by lia.
      rewrite (delta_app SR f0 g0 q0 p0) by lia.
      rewrite (delta_app SR e1 (f1 ++ g1) c1 (q1 ++ p1)) by lia.
      rewrite (delta_app SR f1 g1 q1 p1) by lia.
      rewrite (delta_app SR (e0 ++ e1) _ (c0 ++ c1) _ Lc).
      rewrite (delta_app SR (f0 ++ f1) _ (q0 ++ q1) _ Lq).
      rewrite (delta_app SR e0 e1 c0 c1) by lia.
      rewrite (delta_app SR f0 f1 q0 q1) by lia.
      rewrite (delta_app SR g0 g1 p0 p1) by lia.
      ring.
  Qed.
End CQTensorNet.

(* the statement kept as a Definition in CQLemmas.v, now asserted *)
Theorem cq_tensor_is_kron_on_each_sector : cq_tensor_is_kron_on_each_sector_stmt.
Proof. intros SR f g. apply cq_tensor_net_eq. Qed.

(* ------------------------------------------------------------------ non-vacuity (Cyc32) *)
Require Import DV.Quantum.Cyc32.

(* the statement has no hypotheses; a concrete instance with classical AND quantum
   parts on both factors and on both sides: a non-destructive measurement
   (Q -> C @ Q) next to the adjoint of one (C @ Q -> Q) *)
Example ex_net_instance :
  let f := cq_measure1 false : cqmap Cyc32 in
  let g := cq_dagger (cq_measure1 false) : cqmap Cyc32 in
  cq_dom (cq_tensor_net f g) = (1, 2) /\ cq_cod (cq_tensor_net f g) = (1, 2)
  /\ meq 5 5 (cq_mat (cq_tensor_net f g)) (cq_mat (cq_tensor f g)).
Proof.
  cbv zeta. split; [reflexivity|]. split; [reflexivity|].
  exact (cq_tensor_net_eq Cyc32 (cq_measure1 false) (cq_dagger (cq_measure1 false))).
Qed.

Print Assumptions cq_tensor_is_kron_on_each_sector.
Print Assumptions net_below_above.
