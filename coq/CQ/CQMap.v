(* "discopy/quantum/cqmap.py in Gallina", together with the parts of
   discopy/quantum/circuit.py and gates.py that mixed evaluation goes through.

   Everything here lives on bits and qubits (every axis has dimension 2), so a
   CQ type  CQ(classical=Dim(2,..,2), quantum=Dim(2,..,2))  is the pair
   [cq = (number of bits, number of qubits)].

   A CQMap is `Tensor(udom, ucod, array)` with
       udom = dom.classical @ dom.quantum @ dom.quantum        (CQMap.__init__)
   i.e. an array whose axes are, in this order,
       [classical in .., quantum in .., quantum in (2nd copy) ..,
        classical out .., quantum out .., quantum out (2nd copy) ..].
   It is modelled as a matrix [mat SR] (Matrix.v: first index = all input axes
   in that order, second index = all output axes in that order) together with
   its CQ domain and codomain.  [uw a] is len(udom).

   Python function                          Gallina definition
   ---------------------------------------------------------------------------
   CQ.tensor                                cq_add
   CQMap.id / then / dagger                 cq_id / cq_then / cq_dagger
     (then: Tensor.then raises AxiomError when the *underlying* dims differ)
   CQMap.tensor                             cq_tensor (closed form, see below)
                                            and cq_tensor_net (the swap network
                                            above >> f @ g >> below, as coded)
   CQMap.swap                               cq_swap
   CQMap.measure / encode                   cq_measure1, cq_measure / cq_dagger
   CQMap.pure / classical / discard         cq_pure / cq_classical / cq_discard
   cqmap.Functor._ob (+ rigid.Functor on    F_ob
     types: CQ().tensor of the images)
   cqmap.Functor._ar                        raw_ar
   cat.Functor.__call__ on a box            cq_box  (is_dagger detour:
     + monoidal.Functor on a Swap                     ar[box.dagger()].dagger())
   monoidal.Functor.__call__ on a diagram   cq_layer, cq_eval_layers, cq_eval
     = Circuit.eval(mixed=True)
   Circuit(dom, cod, boxes, offsets)        mk_mcircuit (AxiomError), m_cod
   >>, @, .dagger()                         mthen, mtensor, mdagger
   Circuit.is_mixed, Box.is_mixed           mc_is_mixed, mbox_is_mixed
   Circuit.init_and_discard                 init_and_discard
   tensor.Functor on a non-mixed circuit    plain_box, plain_eval
   Circuit.eval()                           eval_auto
   Circuit.get_counts()                     get_counts
   Circuit.measure(mixed)                   measure
   Measure/Encode/Discard/MixedState        MMeasure/MEncode/MDiscard/MMixedState
     (.dom, .cod, .dagger, is_mixed)          mbox_dom, mbox_cod, mbox_dagger
   ClassicalGate/Copy/Match/Bits            MClassical/MCopy/MMatch/MBits
   Scalar(is_mixed=True) / MixedScalar      MMixedScalar
   Swap(a, b) on bits / qubits              MSwap
   QuantumGate, Ket, Bra, scalar, sqrt,     MPure (the boxes of Gates.v, C11)
     SWAP

   CQMap.tensor.  The code conjugates  f @ g  (plain Tensor.tensor of the two
   underlying tensors, domain  c0 q0 q0' c1 q1 q1') by two pairs of swaps
   evaluated through tensor.Functor, so that the result has domain
   c0 c1 q0 q1 q0' q1'.  [cq_tensor] is the closed form
       (f (x) g)[c0 c1 q0 q1 q0' q1' ; d0 d1 r0 r1 r0' r1']
         = f[c0 q0 q0' ; d0 r0 r0'] * g[c1 q1 q1' ; d1 r1 r1']
   used for execution; [cq_tensor_net] is the network as the code writes it
   (two swap layers, the Kronecker product, two swap layers, each swap the
   matrix Tensor.swap builds); CQLemmas.v proves them equal for all shapes
   (cq_tensor_is_kron_on_each_sector).  That tensor.Functor evaluates such a
   diagram to the ordered composite of its layers is C09's subject; the
   correspondence check of C12 compares the whole evaluation.

   The model describes the code AS IT IS.  Two defects found with this model
   were repaired upstream and the model follows the repaired code:
   * F9 (fix 77ff08b): `Measure(override_bits=True)` (and `Encode(reset_bits=True)`,
     evaluated as its dagger's dagger) could not be evaluated:
     `CQMap.discard(self(box.dom).classical)` handed a Dim to a function that
     reads `.classical` of a CQ (AttributeError); now
     `measure @ CQMap.discard(C(self(box.dom).classical))`.  [ar_measure].
   * F9b (fix 1971467): `Encode(n, constructive=False)` / `Encode(n, reset_bits=True)`
     were declared bit ** n -> qubit ** n although they are evaluated as the
     adjoints of Measure(n, destructive=False) : qubit ** n -> qubit ** n @ bit ** n
     and Measure(n, override_bits=True) : qubit ** n @ bit ** n -> bit ** n; now
     Encode.__init__ adds the qubits to dom / the bits to cod.  [mbox_dom, mbox_cod].
   * `Scalar.dagger` (fix 58fd18f): the dagger of a mixed scalar with non-real data
     was the PURE `Scalar(conj)` (is_mixed lost); now
     `Scalar(conj, name=self._name, is_mixed=self.is_mixed)`.  [mbox_dagger].

   Definitions only; proofs are in CQLemmas.v. *)
From Coq Require Import List Bool Arith ZArith.
Import ListNotations.
Require Import DV.Common.Base.
Require Import DV.Quantum.Ring DV.Quantum.Matrix DV.Quantum.Gates.
Local Open Scope nat_scope.

(* ------------------------------------------------------------------ types *)
Inductive wire := WB | WQ.                       (* bit = Ty(Digit(2)), qubit = Ty(Qudit(2)) *)
Definition cty := list wire.                      (* circuit.Ty on bits and qubits *)

Definition wire_eqb (a b : wire) : bool :=
  match a, b with WB, WB => true | WQ, WQ => true | _, _ => false end.
Definition cty_eqb (a b : cty) : bool := list_eqb wire_eqb a b.
Definition is_b (w : wire) : bool := match w with WB => true | WQ => false end.
Definition is_q (w : wire) : bool := match w with WQ => true | WB => false end.
Definition nb (t : cty) : nat := length (filter is_b t).          (* Ty.count(bit) *)
Definition nq (t : cty) : nat := length (filter is_q t).          (* Ty.count(qubit) *)
Definition bits_ty (n : nat) : cty := repeat WB n.                (* bit ** n *)
Definition qubits_ty (n : nat) : cty := repeat WQ n.              (* qubit ** n *)

(* CQ(classical, quantum) over bits / qubits: the two lengths *)
Definition cq := (nat * nat)%type.
Definition cq_add (a b : cq) : cq := (fst a + fst b, snd a + snd b).     (* CQ.tensor *)
(* len(classical @ quantum @ quantum): the number of axes of one side of the utensor *)
Definition uw (a : cq) : nat := fst a + (snd a + snd a).
(* the functor on types: CQ().tensor of C(Dim(2)) or Q(Dim(2)) per wire *)
Definition F_ob (t : cty) : cq := (nb t, nq t).

(* index bookkeeping of CQMap.tensor: from an index of the tensor's domain
   (layout  c0 c1 | q0 q1 | q0' q1') to the index of the left factor
   (c0 q0 q0') and of the right factor (c1 q1 q1') *)
Definition left_part (a b : cq) (x : bits) : bits :=
  let c0 := fst a in let c1 := fst b in let q0 := snd a in let q1 := snd b in
  firstn c0 x ++ firstn q0 (skipn (c0 + c1) x) ++ firstn q0 (skipn (c0 + c1 + (q0 + q1)) x).
Definition right_part (a b : cq) (x : bits) : bits :=
  let c0 := fst a in let c1 := fst b in let q0 := snd a in let q1 := snd b in
  skipn c0 (firstn (c0 + c1) x) ++ skipn q0 (firstn (q0 + q1) (skipn (c0 + c1) x))
  ++ skipn q0 (skipn (c0 + c1 + (q0 + q1)) x).

Section CQ.
  Variable SR : StarRing.

  (* ---------------------------------------------------------------- CQMap *)
  Record cqmap := CQM { cq_dom : cq; cq_cod : cq; cq_mat : mat SR }.

  (* materialise the array (same matrix on indices of the right lengths) *)
  Definition cq_freeze (f : cqmap) : cqmap :=
    CQM (cq_dom f) (cq_cod f) (mfreeze (uw (cq_dom f)) (uw (cq_cod f)) (cq_mat f)).

  (* CQMap.id *)
  Definition cq_id (a : cq) : cqmap := CQM a a mid.
  (* CQMap.then: utensor >> utensor; Tensor.then raises AxiomError when the
     underlying dims differ (here: when the numbers of axes differ) *)
  Definition cq_then (f g : cqmap) : res cqmap :=
    if Nat.eqb (uw (cq_cod f)) (uw (cq_dom g))
    then Ok (CQM (cq_dom f) (cq_cod g) (mmul (uw (cq_cod f)) (cq_mat f) (cq_mat g)))
    else Err AxiomError.
  (* CQMap.dagger *)
  Definition cq_dagger (f : cqmap) : cqmap := CQM (cq_cod f) (cq_dom f) (madj (cq_mat f)).

  (* CQMap.tensor, closed form *)
  Definition cq_tensor (f g : cqmap) : cqmap :=
    CQM (cq_add (cq_dom f) (cq_dom g)) (cq_add (cq_cod f) (cq_cod g))
        (fun i o =>
           (cq_mat f (left_part (cq_dom f) (cq_dom g) i) (left_part (cq_cod f) (cq_cod g) o)
            * cq_mat g (right_part (cq_dom f) (cq_dom g) i) (right_part (cq_cod f) (cq_cod g) o))%sr).

  (* Tensor.swap(Dim(2) ** a, Dim(2) ** b): in = left ++ right, out = right ++ left *)
  Definition swapm (a : nat) : mat SR := fun i o => delta (skipn a i ++ firstn a i) o.

  (* CQMap.tensor as the code computes it.  With f : (c0, q0) -> (d0, r0) and
     g : (c1, q1) -> (d1, r1):
       above = Id(c0 c1 q0) @ swap(q1, q0') @ Id(q1')  >>  Id(c0) @ swap(c1, q0 q0') @ Id(q1 q1')
       below = Id(d0) @ swap(r0 r0', d1) @ Id(r1 r1')  >>  Id(d0 d1 r0) @ swap(r0', r1) @ Id(r1')
       result = above >> f @ g >> below                                              *)
  Definition net_above (a b : cq) : mat SR :=
    let c0 := fst a in let c1 := fst b in let q0 := snd a in let q1 := snd b in
    mmul (uw (cq_add a b))
         (whisker (c0 + c1 + q0) (q1 + q0) (q0 + q1) (swapm q1))
         (whisker c0 (c1 + (q0 + q0)) ((q0 + q0) + c1) (swapm c1)).
  Definition net_below (a b : cq) : mat SR :=
    let d0 := fst a in let d1 := fst b in let r0 := snd a in let r1 := snd b in
    mmul (uw (cq_add a b))
         (whisker d0 ((r0 + r0) + d1) (d1 + (r0 + r0)) (swapm (r0 + r0)))
         (whisker (d0 + d1 + r0) (r0 + r1) (r1 + r0) (swapm r0)).
  Definition cq_tensor_net (f g : cqmap) : cqmap :=
    let a := cq_dom f in let b := cq_dom g in let a' := cq_cod f in let b' := cq_cod g in
    CQM (cq_add a b) (cq_add a' b')
        (mmul (uw a + uw b) (net_above a b)
              (mmul (uw a' + uw b') (kron (uw a) (uw a') (cq_mat f) (cq_mat g)) (net_below a' b'))).

  (* CQMap.swap(left, right) = Tensor.swap(classical) @ Tensor.swap(quantum) @ Tensor.swap(quantum) *)
  Definition cq_swap (l r : cq) : cqmap :=
    let lc := fst l in let rc := fst r in let lq := snd l in let rq := snd r in
    CQM (cq_add l r) (cq_add r l)
        (kron ((lc + rc) + (lq + rq)) ((rc + lc) + (rq + lq))
              (kron (lc + rc) (rc + lc) (swapm lc) (swapm lq)) (swapm lq)).

  (* CQMap.discard(dom): tensordot(ones(classical), id(quantum), 0) *)
  Definition cq_discard (a : cq) : cqmap :=
    CQM a (0, 0) (fun i _ => delta (firstn (snd a) (skipn (fst a) i)) (skipn (snd a) (skipn (fst a) i))).

  (* CQMap(CQ(), CQ(), z) *)
  Definition cq_scalar (z : SR) : cqmap := CQM (0, 0) (0, 0) (fun _ _ => z).

  (* CQMap.measure(Dim(2), destructive): int(i == j == k) on axes [q, q', c], resp.
     int(i == j == k == l == m) on axes [q, q', c, r, r'] *)
  Definition cq_measure1 (destructive : bool) : cqmap :=
    if destructive
    then CQM (0, 1) (1, 0) (fun i o => delta (i ++ o) (repeat (hd false o) 3))
    else CQM (0, 1) (1, 1) (fun i o => delta (i ++ o) (repeat (hd false o) 5)).
  (* CQMap.measure(Dim(2) ** n, destructive): `not dim` -> the scalar 1; len 1 ->
     the base case; else measure(dim[:1]) @ measure(dim[1:]) *)
  Fixpoint cq_measure (n : nat) (destructive : bool) : cqmap :=
    match n with
    | O => cq_scalar 1%sr
    | S n' =>
        match n' with
        | O => cq_measure1 destructive
        | S _ => cq_tensor (cq_measure1 destructive) (cq_measure n' destructive)
        end
    end.

  (* CQMap.pure(Tensor(Dim(2)**m, Dim(2)**n, A)): (A.conjugate() @ A).array *)
  Definition cq_pure (m n : nat) (A : mat SR) : cqmap := CQM (0, m) (0, n) (kron m n (mconj A) A).
  (* CQMap(C(Dim(2)**m), C(Dim(2)**n), A) *)
  Definition cq_classical (m n : nat) (A : mat SR) : cqmap := CQM (m, 0) (n, 0) A.

  (* ---------------------------------------------------------------- boxes *)
  Inductive mbox :=
  | MPure (b : box SR)                 (* QuantumGate / Ket / Bra / scalar / sqrt / SWAP (Gates.v) *)
  | MClassical (m n : nat) (data : list SR) (dag : bool)
        (* a ClassicalGate with dom = bit ** m, cod = bit ** n, flat data, `_dagger` = dag
           (dag = true: the object ClassicalGate(name, n, m, data).dagger()) *)
  | MCopy | MMatch                     (* Copy(), Match(): data [1,0,0,0,0,0,0,1] *)
  | MBits (b : bits) (dag : bool)      (* Bits(b.., _dagger=dag) *)
  | MDiscard (t : cty)                 (* Discard(t) *)
  | MMixedState (t : cty)              (* MixedState(t) *)
  | MMeasure (n : nat) (destructive override_bits : bool)
  | MEncode (n : nat) (constructive reset_bits : bool)
  | MMixedScalar (z : SR)              (* Scalar(z, is_mixed=True) *)
  | MSwap (a b : wire).                (* Swap(a, b) *)

  Definition spider_flat : list SR := [1; 0; 0; 0; 0; 0; 0; 1]%sr.

  (* box.dom / box.cod exactly as the constructors set them *)
  Definition mbox_dom (b : mbox) : cty :=
    match b with
    | MPure p => qubits_ty (box_dom p)
    | MClassical m _ _ _ => bits_ty m
    | MCopy => [WB] | MMatch => [WB; WB]
    | MBits bs dag => if dag then bits_ty (length bs) else []
    | MDiscard t => t
    | MMixedState _ => []
    | MMeasure n _ o => qubits_ty n ++ (if o then bits_ty n else [])
    | MEncode n c _ => (if c then [] else qubits_ty n) ++ bits_ty n
    | MMixedScalar _ => []
    | MSwap a b => [a; b]
    end.
  Definition mbox_cod (b : mbox) : cty :=
    match b with
    | MPure p => qubits_ty (box_cod p)
    | MClassical _ n _ _ => bits_ty n
    | MCopy => [WB; WB] | MMatch => [WB]
    | MBits bs dag => if dag then [] else bits_ty (length bs)
    | MDiscard _ => []
    | MMixedState t => t
    | MMeasure n d _ => (if d then [] else qubits_ty n) ++ bits_ty n
    | MEncode n _ r => qubits_ty n ++ (if r then bits_ty n else [])
    | MMixedScalar _ => []
    | MSwap a b => [b; a]
    end.

  (* box.is_mixed *)
  Definition mbox_is_mixed (b : mbox) : bool :=
    match b with
    | MPure _ | MClassical _ _ _ _ | MCopy | MMatch | MBits _ _ => false
    | MDiscard _ | MMixedState _ | MMeasure _ _ _ | MEncode _ _ _ | MMixedScalar _ => true
    | MSwap a b => negb (wire_eqb a b)                         (* is_mixed = left != right *)
    end.

  (* the box b.dagger() of an is_dagger box b (named gates, ClassicalGate, Bits
     with `_dagger=True`): what cat.Functor.__call__ looks up in `ar` *)
  Definition undagger (b : mbox) : mbox :=
    match b with
    | MPure (BG1 g) => MPure (BG1 (gate1_dagger g))
    | MClassical m n data dag => MClassical n m data (negb dag)
    | MBits bs dag => MBits bs (negb dag)
    | _ => b
    end.

  (* box.is_dagger (`_dagger is True`) *)
  Definition mbox_is_dagger (b : mbox) : bool :=
    match b with
    | MPure (BG1 g) => gate1_is_dagger g
    | MClassical _ _ _ dag => dag
    | MBits _ dag => dag
    | _ => false
    end.

  (* the measurement part of cqmap.Functor._ar:
       measure = CQMap.measure(self(box.dom).quantum, destructive)
       measure @ CQMap.discard(C(self(box.dom).classical)) if box.override_bits else measure *)
  Definition ar_measure (n : nat) (destructive override_bits : bool) : cqmap :=
    if override_bits then cq_tensor (cq_measure n destructive) (cq_discard (n, 0))
    else cq_measure n destructive.

  (* box.array of a pure box, as stored (whatever `_dagger`) *)
  Definition pure_raw (p : box SR) : mat SR :=
    match p with
    | BG1 g => mat_of_flat (gate1_flat g)
    | _ => box_eval p
    end.

  (* cqmap.Functor._ar(box) for a box that is not a Swap and not is_dagger *)
  Definition raw_ar (b : mbox) : cqmap :=
    match b with
    | MDiscard t => cq_discard (F_ob t)
    | MMeasure n d o => ar_measure n d o
    | MMixedState t => cq_dagger (cq_discard (F_ob t))              (* self(box.dagger()).dagger() *)
    | MEncode n c r => cq_dagger (ar_measure n c r)                 (* self(box.dagger()).dagger() *)
    | MMixedScalar z => cq_scalar z                                 (* box.array[0] *)
    | MPure (BScalar z) => cq_scalar (z * rconj z)%sr               (* abs(box.array[0]) ** 2 *)
    | MPure (BSqrt2 k) => cq_scalar (sqrt2_pow k * rconj (sqrt2_pow k))%sr
    | MPure p => cq_pure (box_dom p) (box_cod p) (pure_raw p)       (* CQMap.pure(Tensor(dom, cod, box.array)) *)
    | MClassical m n data _ => cq_classical m n (mat_of_flat data)
    | MCopy => cq_classical 1 2 (mat_of_flat spider_flat)
    | MMatch => cq_classical 2 1 (mat_of_flat spider_flat)
    | MBits bs _ => cq_classical 0 (length bs) (fun i o => delta (i ++ o) bs)
    | MSwap a b => cq_swap (F_ob [a]) (F_ob [b])                    (* not reached through _ar *)
    end.

  (* cqmap.Functor()(box): a Swap goes to CQMap.swap; an is_dagger box to
     ar[box.dagger()].dagger(); anything else to _ar *)
  Definition cq_box (b : mbox) : cqmap :=
    match b with
    | MSwap x y => cq_swap (F_ob [x]) (F_ob [y])
    | MPure BSwap => cq_swap (0, 1) (0, 1)
    | _ => if mbox_is_dagger b then cq_dagger (raw_ar (undagger b)) else raw_ar b
    end.

  (* ---------------------------------------------------------------- circuits *)
  Record mcircuit := MC { m_dom : cty; m_layers : list (nat * mbox) }.

  (* the scan of Circuit.__init__: the type after the layers; None when a box
     does not find its domain at its offset *)
  Definition step_ty (scan : cty) (l : nat * mbox) : cty :=
    firstn (fst l) scan ++ mbox_cod (snd l) ++ skipn (fst l + length (mbox_dom (snd l))) scan.
  Definition fits (scan : cty) (l : nat * mbox) : bool :=
    (fst l + length (mbox_dom (snd l)) <=? length scan)
    && cty_eqb (firstn (length (mbox_dom (snd l))) (skipn (fst l) scan)) (mbox_dom (snd l)).
  Fixpoint run_ty (scan : cty) (ls : list (nat * mbox)) : option cty :=
    match ls with
    | [] => Some scan
    | l :: ls' => if fits scan l then run_ty (step_ty scan l) ls' else None
    end.
  Definition m_cod (c : mcircuit) : option cty := run_ty (m_dom c) (m_layers c).
  Definition wf_mcircuit (c : mcircuit) : bool :=
    match m_cod c with Some _ => true | None => false end.
  Definition cod_or_nil (c : mcircuit) : cty := match m_cod c with Some t => t | None => [] end.

  (* Circuit(dom, cod, boxes, offsets) *)
  Definition mk_mcircuit (dom : cty) (ls : list (nat * mbox)) : res mcircuit :=
    match run_ty dom ls with Some _ => Ok (MC dom ls) | None => Err AxiomError end.

  (* self >> other *)
  Definition mthen (a b : mcircuit) : res mcircuit :=
    if cty_eqb (cod_or_nil a) (m_dom b) then Ok (MC (m_dom a) (m_layers a ++ m_layers b))
    else Err AxiomError.
  (* self @ other *)
  Definition mtensor (a b : mcircuit) : mcircuit :=
    MC (m_dom a ++ m_dom b)
       (m_layers a ++ map (fun l => (length (cod_or_nil a) + fst l, snd l)) (m_layers b)).


  (* ---------------------------------------------------------------- dagger *)
  (* box.dagger() *)
  Definition mbox_dagger (b : mbox) : mbox :=
    match b with
    | MPure p => MPure (box_dagger p)
    | MClassical m n data dag => MClassical n m data (negb dag)
    | MCopy => MMatch | MMatch => MCopy
    | MBits bs dag => MBits bs (negb dag)
    | MDiscard t => MMixedState t
    | MMixedState t => MDiscard t
    | MMeasure n d o => MEncode n d o
    | MEncode n c r => MMeasure n c r
    | MMixedScalar z => MMixedScalar (rconj z)     (* Scalar.dagger: self if real, else Scalar(conj, is_mixed) *)
    | MSwap a b => MSwap b a
    end.

  (* self.dagger(): reversed, box by box (well-typed again: CQLemmas.mdagger_wf) *)
  Definition mdagger (a : mcircuit) : mcircuit :=
    MC (cod_or_nil a) (rev (map (fun l => (fst l, mbox_dagger (snd l))) (m_layers a))).

  (* Circuit.is_mixed *)
  Definition both_kinds (t : cty) : bool := (0 <? nb t) && (0 <? nq t).
  Fixpoint layer_cods (scan : cty) (ls : list (nat * mbox)) : list cty :=
    match ls with
    | [] => []
    | l :: ls' => step_ty scan l :: layer_cods (step_ty scan l) ls'
    end.
  Definition mc_is_mixed (c : mcircuit) : bool :=
    both_kinds (m_dom c) || existsb both_kinds (layer_cods (m_dom c) (m_layers c))
    || existsb (fun l => mbox_is_mixed (snd l)) (m_layers c).

  (* Circuit.init_and_discard *)
  Fixpoint init_layers (k : nat) (dom : cty) : list (nat * mbox) :=
    match dom with
    | [] => []
    | w :: dom' =>
        (k, match w with WB => MBits [false] false | WQ => MPure (BKet [false]) end)
        :: init_layers (S k) dom'
    end.
  Fixpoint discard_layers (k : nat) (cod : cty) : list (nat * mbox) :=
    match cod with
    | [] => []
    | WB :: cod' => discard_layers (S k) cod'                  (* Id(bit) *)
    | WQ :: cod' => (k, MDiscard [WQ]) :: discard_layers k cod'
    end.
  Definition init_and_discard (c : mcircuit) : mcircuit :=
    let cod := cod_or_nil c in
    let c1 := match m_dom c with [] => c | _ => MC [] (init_layers 0 (m_dom c) ++ m_layers c) end in
    if cty_eqb cod (bits_ty (length cod)) then c1
    else MC (m_dom c1) (m_layers c1 ++ discard_layers 0 cod).

  (* ---------------------------------------------------------------- mixed evaluation *)
  (* id_l @ self(box) @ id_r *)
  Definition cq_layer (scan : cty) (l : nat * mbox) : cqmap :=
    let left := firstn (fst l) scan in
    let right := skipn (fst l + length (mbox_dom (snd l))) scan in
    cq_tensor (cq_tensor (cq_id (F_ob left)) (cq_box (snd l))) (cq_id (F_ob right)).

  (* the loop of monoidal.Functor.__call__: result = result >> id_l @ F(box) @ id_r;
     [fz] re-tabulates (executable) or is the identity (specification) *)
  Fixpoint cq_eval_layers (fz : cqmap -> cqmap) (scan : cty) (acc : cqmap)
           (ls : list (nat * mbox)) : res cqmap :=
    match ls with
    | [] => Ok acc
    | l :: ls' =>
        do acc' <- cq_then acc (fz (cq_layer scan l));
        cq_eval_layers fz (step_ty scan l) (fz acc') ls'
    end.

  (* Circuit.eval(mixed=True) = cqmap.Functor()(circuit) *)
  Definition cq_eval_spec (c : mcircuit) : res cqmap :=
    cq_eval_layers (fun f => f) (m_dom c) (cq_id (F_ob (m_dom c))) (m_layers c).
  Definition cq_eval (c : mcircuit) : res cqmap :=
    cq_eval_layers cq_freeze (m_dom c) (cq_freeze (cq_id (F_ob (m_dom c)))) (m_layers c).

  Definition cq_flat (f : cqmap) : list SR :=
    tflat (mat_tab (uw (cq_dom f)) (uw (cq_cod f)) (cq_mat f)).

  (* ---------------------------------------------------------------- plain evaluation *)
  (* tensor.Functor(lambda x: x[0].dim, lambda f: f.array) on the boxes a
     non-mixed circuit can contain (every wire, bit or qubit, is one axis) *)
  Definition plain_box (b : mbox) : mat SR :=
    match b with
    | MPure p => box_eval p
    | MClassical _ _ data dag => if dag then madj (mat_of_flat data) else mat_of_flat data
    | MCopy | MMatch => mat_of_flat spider_flat
    | MBits bs _ => fun i o => delta (i ++ o) bs
    | MSwap _ _ => mat_of_flat swap_flat
    | _ => mzero                                    (* mixed boxes: never evaluated this way *)
    end.

  Fixpoint plain_layers (fz : nat -> nat -> mat SR -> mat SR) (n w : nat) (acc : mat SR)
           (ls : list (nat * mbox)) : mat SR :=
    match ls with
    | [] => acc
    | l :: ls' =>
        let d := length (mbox_dom (snd l)) in let c := length (mbox_cod (snd l)) in
        let w' := w - d + c in
        plain_layers fz n w' (fz n w' (mmul w acc (fz w w' (whisker (fst l) d c (plain_box (snd l)))))) ls'
    end.
  Definition plain_eval (c : mcircuit) : mat SR :=
    let n := length (m_dom c) in plain_layers mfreeze n n (mfreeze n n mid) (m_layers c).

  (* Circuit.eval(): cqmap.Functor when is_mixed, tensor.Functor otherwise *)
  Inductive evalres := EMixed (f : cqmap) | EPlain (m n : nat) (A : mat SR).
  Definition eval_auto (c : mcircuit) : res evalres :=
    if mc_is_mixed c then do f <- cq_eval c; Ok (EMixed f)
    else Ok (EPlain (length (m_dom c)) (length (cod_or_nil c)) (plain_eval c)).
  Definition evalres_flat (e : evalres) : list SR :=
    match e with
    | EMixed f => cq_flat f
    | EPlain m n A => tflat (mat_tab m n A)
    end.

  (* z.real *)
  Definition rre (z : SR) : SR := (rhalf * (z + rconj z))%sr.

  (* Circuit.get_counts(): the entries of init_and_discard().eval(), real parts
     (the dictionary keeps the non-zero ones) *)
  Definition get_counts (c : mcircuit) : res (list SR) :=
    do e <- eval_auto (init_and_discard c); Ok (map rre (evalres_flat e)).

  (* Circuit.measure(mixed) *)
  Definition born_flat (c : mcircuit) : list SR :=
    let n := length (m_dom c) in
    let st := MC [] ((0, MPure (BKet (repeat false n))) :: m_layers c) in   (* Ket(0, .., 0) >> self *)
    let A := plain_eval st in
    map (fun o => (A [] o * rconj (A [] o))%sr) (all_bits (length (cod_or_nil c))).
  Definition measure (c : mcircuit) (mixed : bool) : res (list SR) :=
    if mixed || mc_is_mixed c
    then do f <- cq_eval (init_and_discard c); Ok (map rre (cq_flat f))
    else if forallb is_q (m_dom c) then Ok (born_flat c)
    else Err AxiomError.                                     (* Ket(0, ..) >> self does not compose *)
End CQ.

Arguments CQM {_}. Arguments cq_dom {_}. Arguments cq_cod {_}. Arguments cq_mat {_}.
Arguments cq_freeze {_}. Arguments cq_id {_}. Arguments cq_then {_}. Arguments cq_dagger {_}.
Arguments cq_tensor {_}. Arguments swapm {_}. Arguments net_above {_}. Arguments net_below {_}.
Arguments cq_tensor_net {_}. Arguments cq_swap {_}. Arguments cq_discard {_}. Arguments cq_scalar {_}.
Arguments cq_measure1 {_}. Arguments cq_measure {_}. Arguments cq_pure {_}. Arguments cq_classical {_}.
Arguments MPure {_}. Arguments MClassical {_}. Arguments MCopy {_}. Arguments MMatch {_}.
Arguments MBits {_}. Arguments MDiscard {_}. Arguments MMixedState {_}. Arguments MMeasure {_}.
Arguments MEncode {_}. Arguments MMixedScalar {_}. Arguments MSwap {_}.
Arguments spider_flat {_}. Arguments mbox_dom {_}. Arguments mbox_cod {_}. Arguments mbox_is_mixed {_}.
Arguments mbox_dagger {_}. Arguments undagger {_}. Arguments mbox_is_dagger {_}. Arguments ar_measure {_}. Arguments pure_raw {_}.
Arguments raw_ar {_}. Arguments cq_box {_}. Arguments MC {_}. Arguments m_dom {_}. Arguments m_layers {_}.
Arguments step_ty {_}. Arguments fits {_}. Arguments run_ty {_}. Arguments m_cod {_}.
Arguments wf_mcircuit {_}. Arguments cod_or_nil {_}. Arguments mk_mcircuit {_}. Arguments mthen {_}.
Arguments mtensor {_}. Arguments mdagger {_}. Arguments layer_cods {_}. Arguments mc_is_mixed {_}.
Arguments init_layers {_}. Arguments discard_layers {_}. Arguments init_and_discard {_}.
Arguments cq_layer {_}. Arguments cq_eval_layers {_}. Arguments cq_eval_spec {_}. Arguments cq_eval {_}.
Arguments cq_flat {_}. Arguments plain_box {_}. Arguments plain_layers {_}. Arguments plain_eval {_}.
Arguments EMixed {_}. Arguments EPlain {_}. Arguments eval_auto {_}. Arguments evalres_flat {_}.
Arguments rre {_}. Arguments get_counts {_}. Arguments born_flat {_}. Arguments measure {_}.
