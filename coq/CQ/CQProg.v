(* The program DSL of the C12 correspondence check, its interpreter over the
   CQMap model instantiated at Cyc32, and the wire codec (re-using C11's
   encoding of gates, phases and exact Cyc32 results, GatesProg.v).

   WIRE FORMAT (nested integer lists).

   ty      (w ...)   w = 0 bit, 1 qubit
   num     ((n0 .. n15) d)  the exact number sum_j n_j/d zeta^j (short lists allowed)
   box     a C11 box (codes 0..9 of GatesProg.v: gates, CZ, Controlled, two-qubit
           rotations, SWAP, Ket, Bra, scalar, sqrt), or
           (10 m n (num ...) dag)  ClassicalGate with dom = bit ** m, cod = bit ** n, the
                                   flat data, `_dagger` = dag (dag = 1: built as
                                   ClassicalGate(name, n, m, data).dagger())
           (11) Copy()   (12) Match()   (13 (bits) dag) Bits(b..) or Bits(b..).dagger()
           (14 ty) Discard(ty)   (15 ty) MixedState(ty)
           (16 n destructive override_bits) Measure   (17 n constructive reset_bits) Encode
           (18 (n0 ..) d) Scalar(z, is_mixed=True)   (19 a b) Swap(a, b), a b wires
   prog    (0 ty ((off box) ...))  Circuit(dom, cod, boxes, offsets)
           (1 p) p.dagger()  (2 p q) p >> q  (3 p q) p @ q  (4 p) p.init_and_discard()
   request (obs prog)   obs = 0 eval(mixed=True) | 1 eval() | 2 is_mixed | 3 get_counts()
                              | 4 measure() | 5 measure(mixed=True)
   answer  (0 (0 c q c' q' (entry ...)))  a CQMap: CQ dom (c bits, q qubits), CQ cod, flat array
           (0 (1 m n (entry ...)))        a plain Tensor with m input and n output axes
           (0 (2 b))                      is_mixed
           (0 (3 (entry ...)))            get_counts: the real parts of the evaluation, flat
           (0 (4 (entry ...)))            measure: flat array
           (1 code)                       error (Common/Base.v err_code)
           entries as in GatesProg.v: (d (j n) ...) = sum_j n/d zeta^j

   Definitions only. *)
From Coq Require Import List Bool Arith ZArith QArith Qcanon.
Import ListNotations.
Require Import DV.Common.Base DV.Quantum.Ring DV.Quantum.Cyc32 DV.Quantum.Matrix DV.Quantum.Gates
               DV.Quantum.GatesProg DV.CQ.CQMap.
Local Open Scope Z_scope.

Definition cmbox := mbox Cyc32.
Definition cmcirc := mcircuit Cyc32.

Inductive prog :=
| PCirc (dom : cty) (ls : list (nat * cmbox))
| PDagger (p : prog)
| PThen (p q : prog)
| PTensor (p q : prog)
| PInit (p : prog).

Fixpoint run (p : prog) : res cmcirc :=
  match p with
  | PCirc dom ls => mk_mcircuit dom ls
  | PDagger p => do c <- run p; Ok (mdagger c)
  | PThen p q => do a <- run p; do b <- run q; mthen a b
  | PTensor p q => do a <- run p; do b <- run q; Ok (mtensor a b)
  | PInit p => do c <- run p; Ok (init_and_discard c)
  end.

(* ------------------------------------------------------------------ codec *)
Definition dec_wire (s : sexp) : res wire :=
  match s with I 0 => Ok WB | I 1 => Ok WQ | _ => Err BadProgram end.
Definition dec_ty (s : sexp) : res cty := do l <- sx_list s; mapM dec_wire l.

Definition dec_num (s : sexp) : res Cyc32 :=
  match s with
  | L [ns; I d] =>
      do ns' <- sx_ints ns;
      if d <=? 0 then Err BadProgram else Ok (c32_of_nums ns' (Z.to_pos d) : Cyc32)
  | _ => Err BadProgram
  end.

Definition dec_mbox (s : sexp) : res cmbox :=
  match s with
  | L [I 10; m; n; L data; dag] =>
      do m' <- dec_nat m; do n' <- dec_nat n; do data' <- mapM dec_num data; do dag' <- sx_bool dag;
      Ok (MClassical m' n' data' dag')
  | L [I 11] => Ok MCopy
  | L [I 12] => Ok MMatch
  | L [I 13; b; dag] => do b' <- dec_bits b; do dag' <- sx_bool dag; Ok (MBits b' dag')
  | L [I 14; t] => do t' <- dec_ty t; Ok (MDiscard t')
  | L [I 15; t] => do t' <- dec_ty t; Ok (MMixedState t')
  | L [I 16; n; d; o] =>
      do n' <- dec_nat n; do d' <- sx_bool d; do o' <- sx_bool o; Ok (MMeasure n' d' o')
  | L [I 17; n; c; r] =>
      do n' <- dec_nat n; do c' <- sx_bool c; do r' <- sx_bool r; Ok (MEncode n' c' r')
  | L [I 18; ns; d] => do z <- dec_num (L [ns; d]); Ok (MMixedScalar z)
  | L [I 19; a; b] => do a' <- dec_wire a; do b' <- dec_wire b; Ok (MSwap a' b')
  | _ => do b <- dec_box s; Ok (MPure b)
  end.

Definition dec_mlayer (s : sexp) : res (nat * cmbox) :=
  match s with
  | L [o; b] => do o' <- dec_nat o; do b' <- dec_mbox b; Ok (o', b')
  | _ => Err BadProgram
  end.

Fixpoint dec_prog (fuel : nat) (s : sexp) : res prog :=
  match fuel with
  | O => Err BadProgram
  | S f =>
    match s with
    | L [I 0; t; L ls] => do t' <- dec_ty t; do ls' <- mapM dec_mlayer ls; Ok (PCirc t' ls')
    | L [I 1; p] => do p' <- dec_prog f p; Ok (PDagger p')
    | L [I 2; p; q] => do p' <- dec_prog f p; do q' <- dec_prog f q; Ok (PThen p' q')
    | L [I 3; p; q] => do p' <- dec_prog f p; do q' <- dec_prog f q; Ok (PTensor p' q')
    | L [I 4; p] => do p' <- dec_prog f p; Ok (PInit p')
    | _ => Err BadProgram
    end
  end.

Definition enc_entries (l : list Cyc32) : sexp := L (map enc_c32 l).
Definition zn (n : nat) : sexp := I (Z.of_nat n).

Definition enc_cqmap (f : cqmap Cyc32) : sexp :=
  L [I 0; zn (fst (cq_dom f)); zn (snd (cq_dom f)); zn (fst (cq_cod f)); zn (snd (cq_cod f));
     enc_entries (cq_flat f)].

Definition enc_evalres (e : evalres Cyc32) : sexp :=
  match e with
  | EMixed f => enc_cqmap f
  | EPlain m n A => L [I 1; zn m; zn n; enc_entries (tflat (mat_tab m n A))]
  end.

Definition answer {A} (enc : A -> sexp) (r : res A) : sexp :=
  match r with
  | Ok a => L [I 0; enc a]
  | Err e => L [I 1; I (err_code e)]
  end.

Definition observe (obs : Z) (c : cmcirc) : sexp :=
  match obs with
  | 0 => answer enc_cqmap (cq_eval c)
  | 1 => answer enc_evalres (eval_auto c)
  | 2 => L [I 0; L [I 2; of_bool (mc_is_mixed c)]]
  | 3 => answer (fun l => L [I 3; enc_entries l]) (get_counts c)
  | 4 => answer (fun l => L [I 4; enc_entries l]) (measure c false)
  | 5 => answer (fun l => L [I 4; enc_entries l]) (measure c true)
  | _ => L [I 1; I (err_code BadProgram)]
  end.

(* the single entry point of the extracted runner *)
Definition run_sexp (s : sexp) : sexp :=
  match s with
  | L [I obs; p] =>
      match dec_prog 200 p with
      | Ok p' =>
          match run p' with
          | Ok c => observe obs c
          | Err e => L [I 1; I (err_code e)]
          end
      | Err e => L [I 1; I (err_code e)]
      end
  | _ => L [I 1; I (err_code BadProgram)]
  end.
