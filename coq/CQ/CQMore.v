(* More about the CQMap model (CQMap.v), closing items that notes/C12.md listed under
   "What is partial":

   1. TRACE PRESERVATION, the class extended to its semantic closure.  CQLemmas.v
      proves the closure theorem for the syntactic class [tp_box] (which already
      contains Measure in ALL its variants: destructive or not, overriding bits or
      not -- [tp_measure_nd]).  Here: the same closure for EVERY circuit whose boxes
      individually satisfy the discard law ([tp (cq_box b)]), whatever they are
      ([trace_preserving_sem], [get_counts_is_distribution_sem]); the explicit
      discard law of the non-destructive measurement; and the proof that the
      remaining Encode variants (constructive=False, reset_bits=True) and MixedState
      are NOT trace preserving (in any ring where 1 <> 0): they are the adjoints of
      channels, i.e. post-selections / unnormalised states, so they are rightly
      outside the class.
   2. WELL-TYPEDNESS is preserved by [mdagger] and by [init_and_discard]
      ([mdagger_wf], [init_and_discard_wf]), with the resulting domain / codomain.
   3. [measure] AT CIRCUIT LEVEL (Circuit.measure): for a well-typed pure circuit c
      * the non-mixed path (Ket(0..0) >> c, then |amplitude|^2) and
      * the mixed path of  c >> Measure(n)  (init_and_discard, cqmap.Functor)
      both return the Born probabilities |<o| eval c |0..0>|^2 of C11's pure
      evaluation, hence agree ([measure_pure_is_born], [measure_mixed_is_born],
      [measure_eq_eval]).

   Nothing here changes a definition of the model. *)
From Coq Require Import List Bool Arith ZArith Lia Ring.
Import ListNotations.
Require Import DV.Common.Base.
Require Import DV.Quantum.Ring DV.Quantum.Matrix DV.Quantum.MatrixLemmas DV.Quantum.Gates
               DV.Quantum.Std DV.Quantum.GatesLemmas DV.Quantum.CircuitLemmas DV.Quantum.TensorLemmas
               DV.Quantum.RewireGeneral.
Require Import DV.CQ.CQMap DV.CQ.CQLemmas DV.CQ.CQTensorNet.
Local Open Scope nat_scope.

(* ================================================================== 2. typing *)
Section Typing.
  Variable SR : StarRing.
  Implicit Types (b : mbox SR) (l : nat * mbox SR) (ls : list (nat * mbox SR)) (c : mcircuit SR).

  Lemma cty_eqb_refl : forall a : cty, cty_eqb a a = true.
  Proof.
    induction a as [|x a IH]; [reflexivity|].
    unfold cty_eqb in *. cbn [list_eqb]. rewrite IH. destruct x; reflexivity.
  Qed.

  (* a box whose domain is found after [pre]: it fits, and the scan becomes ... *)
  Lemma fits_at : forall (pre rest : cty) b,
    fits (pre ++ mbox_dom b ++ rest) (length pre, b) = true
    /\ step_ty (pre ++ mbox_dom b ++ rest) (length pre, b) = pre ++ mbox_cod b ++ rest.
  Proof.
    intros pre rest b. unfold fits, step_ty. cbn [fst snd]. split.
    - apply andb_true_intro. split.
      + apply Nat.leb_le. rewrite !app_length. lia.
      + rewrite (skipn_app_len _ (length pre) pre _ eq_refl).
        rewrite (firstn_app_len _ (length (mbox_dom b)) (mbox_dom b) rest eq_refl).
        apply cty_eqb_refl.
    - rewrite (firstn_app_len _ (length pre) pre _ eq_refl).
      rewrite skipn_add. rewrite (skipn_app_len _ (length pre) pre _ eq_refl).
      rewrite (skipn_app_len _ (length (mbox_dom b)) (mbox_dom b) rest eq_refl).
      reflexivity.
  Qed.

  (* ... and every fitting box is of that form *)
  Lemma fits_decomp : forall scan l, fits scan l = true ->
    exists pre rest, scan = pre ++ mbox_dom (snd l) ++ rest /\ length pre = fst l.
  Proof.
    intros scan l H. pose proof (fits_split SR scan l H) as E.
    exists (firstn (fst l) scan), (skipn (fst l + length (mbox_dom (snd l))) scan).
    split; [exact E|].
    unfold fits in H. apply andb_prop in H as [H _]. apply Nat.leb_le in H.
    rewrite firstn_length. lia.
  Qed.

  Lemma run_ty_app : forall ls1 ls2 scan t, run_ty scan ls1 = Some t ->
    run_ty scan (ls1 ++ ls2) = run_ty t ls2.
  Proof.
    induction ls1 as [|l ls1 IH]; intros ls2 scan t H.
    - cbn in H. injection H as <-. reflexivity.
    - cbn [app run_ty] in *. destruct (fits scan l); [|discriminate]. apply IH, H.
  Qed.

  (* ---------------------------------------------------------------- dagger *)
  Lemma mbox_dagger_dom : forall b, mbox_dom (mbox_dagger b) = mbox_cod b.
  Proof.
    intros [p|m n data dag| | |bs dag|t|t|n d o|n cc r|z|x y]; cbn [mbox_dagger mbox_dom mbox_cod];
      try reflexivity.
    - rewrite box_dagger_dom. reflexivity.
    - destruct dag; reflexivity.
  Qed.

  Lemma mbox_dagger_cod : forall b, mbox_cod (mbox_dagger b) = mbox_dom b.
  Proof.
    intros [p|m n data dag| | |bs dag|t|t|n d o|n cc r|z|x y]; cbn [mbox_dagger mbox_dom mbox_cod];
      try reflexivity.
    - rewrite box_dagger_cod. reflexivity.
    - destruct dag; reflexivity.
  Qed.

  Definition mdag_layers ls : list (nat * mbox SR) :=
    rev (map (fun l => (fst l, mbox_dagger (snd l))) ls).

  (* the daggered box fits where the box left its codomain, and restores the scan *)
  Lemma fits_dagger : forall scan l, fits scan l = true ->
    fits (step_ty scan l) (fst l, mbox_dagger (snd l)) = true
    /\ step_ty (step_ty scan l) (fst l, mbox_dagger (snd l)) = scan.
  Proof.
    intros scan [off b] H.
    destruct (fits_decomp scan (off, b) H) as (pre & rest & -> & Hoff).
    cbn [fst snd] in *. subst off.
    destruct (fits_at pre rest b) as [_ ->].
    rewrite <- (mbox_dagger_dom b).
    destruct (fits_at pre rest (mbox_dagger b)) as [F St]. split; [exact F|].
    rewrite St, mbox_dagger_cod. reflexivity.
  Qed.

  Lemma run_ty_dagger : forall ls scan t, run_ty scan ls = Some t ->
    run_ty t (mdag_layers ls) = Some scan.
  Proof.
    induction ls as [|l ls IH]; intros scan t H.
    - cbn in *. congruence.
    - cbn [run_ty] in H. destruct (fits scan l) eqn:Hfit; [|discriminate].
      unfold mdag_layers. cbn [map rev]. fold (mdag_layers ls).
      rewrite (run_ty_app _ _ _ _ (IH _ _ H)).
      destruct (fits_dagger scan l Hfit) as [F St].
      cbn [run_ty]. rewrite F, St. reflexivity.
  Qed.

  (* Circuit.dagger() of a well-typed circuit is well-typed, from its codomain to its domain *)
  Lemma mdagger_wf : forall c, wf_mcircuit c = true ->
    wf_mcircuit (mdagger c) = true
    /\ m_dom (mdagger c) = cod_or_nil c /\ cod_or_nil (mdagger c) = m_dom c.
  Proof.
    intros c H.
    assert (E : run_ty (m_dom c) (m_layers c) = Some (cod_or_nil c)).
    { unfold wf_mcircuit, cod_or_nil, m_cod in *.
      destruct (run_ty (m_dom c) (m_layers c)); [reflexivity | discriminate]. }
    pose proof (run_ty_dagger _ _ _ E) as D. unfold mdag_layers in D.
    unfold wf_mcircuit, m_cod.
    unfold cod_or_nil at 2. unfold m_cod. unfold mdagger. cbn [m_dom m_layers]. rewrite D.
    split; [reflexivity | split; reflexivity].
  Qed.

  (* the dagger is an involution on types: daggering twice gives back dom and cod *)
  Lemma mdagger_mdagger_types : forall c, wf_mcircuit c = true ->
    wf_mcircuit (mdagger (mdagger c)) = true
    /\ m_dom (mdagger (mdagger c)) = m_dom c /\ cod_or_nil (mdagger (mdagger c)) = cod_or_nil c.
  Proof.
    intros c H. destruct (mdagger_wf c H) as (W & D & C).
    destruct (mdagger_wf (mdagger c) W) as (W' & D' & C').
    split; [exact W'|]. split; congruence.
  Qed.

  (* ---------------------------------------------------------------- init_and_discard *)
  Lemma run_ty_init : forall (dom pre : cty),
    run_ty pre (init_layers (SR := SR) (length pre) dom) = Some (pre ++ dom).
  Proof.
    induction dom as [|w dom IH]; intro pre.
    - cbn. rewrite app_nil_r. reflexivity.
    - cbn [init_layers run_ty].
      set (bx := match w with WB => MBits [false] false | WQ => MPure (BKet [false]) end : mbox SR).
      assert (Hd : mbox_dom bx = []) by (destruct w; reflexivity).
      assert (Hc : mbox_cod bx = [w]) by (destruct w; reflexivity).
      destruct (fits_at pre [] bx) as [F St]. rewrite Hd, Hc in *. cbn [app] in F, St.
      rewrite app_nil_r in F, St. rewrite F, St.
      replace (S (length pre)) with (length (pre ++ [w])) by (rewrite app_length; cbn; lia).
      rewrite IH. rewrite <- app_assoc. reflexivity.
  Qed.

  Lemma run_ty_discard : forall (cod pre : cty),
    run_ty (pre ++ cod) (discard_layers (SR := SR) (length pre) cod) = Some (pre ++ filter is_b cod).
  Proof.
    induction cod as [|w cod IH]; intro pre.
    - reflexivity.
    - destruct w; cbn [discard_layers filter is_b].
      + replace (S (length pre)) with (length (pre ++ [WB])) by (rewrite app_length; cbn; lia).
        change (pre ++ WB :: cod) with (pre ++ [WB] ++ cod). rewrite app_assoc.
        rewrite IH. rewrite <- app_assoc. reflexivity.
      + cbn [run_ty].
        destruct (fits_at pre cod (MDiscard [WQ] : mbox SR)) as [F St].
        cbn [mbox_dom mbox_cod app] in F, St. rewrite F, St. apply IH.
  Qed.

  Lemma filter_bits_ty : forall n, filter is_b (bits_ty n) = bits_ty n.
  Proof. induction n as [|n IH]; [reflexivity|]. cbn. f_equal. exact IH. Qed.

  (* Circuit.init_and_discard() of a well-typed circuit is well-typed, has an empty
     domain, and its codomain is the bits of the circuit's codomain *)
  Lemma init_and_discard_wf : forall c, wf_mcircuit c = true ->
    wf_mcircuit (init_and_discard c) = true
    /\ m_dom (init_and_discard c) = []
    /\ cod_or_nil (init_and_discard c) = filter is_b (cod_or_nil c).
  Proof.
    intros c H. unfold init_and_discard.
    set (cod := cod_or_nil c).
    assert (E : run_ty (m_dom c) (m_layers c) = Some cod).
    { unfold cod, wf_mcircuit, cod_or_nil, m_cod in *.
      destruct (run_ty (m_dom c) (m_layers c)); [reflexivity | discriminate]. }
    set (c1 := match m_dom c with
               | [] => c
               | _ :: _ => MC [] (init_layers 0 (m_dom c) ++ m_layers c)
               end).
    assert (H1 : m_dom c1 = [] /\ run_ty [] (m_layers c1) = Some cod).
    { unfold c1. destruct (m_dom c) as [|w d] eqn:Ed.
      - rewrite Ed. split; [reflexivity | exact E].
      - cbn [m_dom m_layers]. split; [reflexivity|].
        rewrite (run_ty_app _ _ _ _ (run_ty_init (w :: d) [])). exact E. }
    destruct H1 as [D1 R1].
    destruct (cty_eqb cod (bits_ty (length cod))) eqn:B.
    - apply cty_eqb_eq in B.
      unfold wf_mcircuit, cod_or_nil, m_cod. rewrite D1, R1.
      split; [reflexivity | split; [reflexivity|]].
      rewrite B at 2. rewrite filter_bits_ty. exact B.
    - unfold wf_mcircuit, cod_or_nil, m_cod. cbn [m_dom m_layers]. rewrite D1.
      rewrite (run_ty_app _ _ _ _ R1).
      pose proof (run_ty_discard cod []) as X. cbn [app length] in X. rewrite X.
      split; [reflexivity | split; reflexivity].
  Qed.

  (* in particular its codomain consists of bits only: get_counts() can read it *)
  Lemma init_and_discard_cod_bits : forall c, wf_mcircuit c = true ->
    nq (cod_or_nil (init_and_discard c)) = 0.
  Proof.
    intros c H. destruct (init_and_discard_wf c H) as (_ & _ & ->).
    unfold nq. induction (cod_or_nil c) as [|w t IH]; [reflexivity|].
    destruct w; cbn; exact IH.
  Qed.
End Typing.

Arguments mdag_layers {_}.

(* ================================================================== 1. trace preservation *)
Section TPMore.
  Variable SR : StarRing.
  Add Ring SRrmore1 : (SR_ring SR).
  Implicit Types (A B : mat SR) (f g : cqmap SR) (c : mcircuit SR).

  (* the class, semantically: every box satisfies the discard law, whatever it is *)
  Definition tp_circuit_sem c : Prop := forall l, In l (m_layers c) -> tp (cq_box (snd l)).

  (* it contains the syntactic class of CQLemmas.v *)
  Lemma tp_circuit_sem_of_class : forall c, tp_circuit c -> tp_circuit_sem c.
  Proof. intros c H l Hl. apply tp_cq_box, H, Hl. Qed.

  Lemma tp_layer_sem : forall scan (l : nat * mbox SR), tp (cq_box (snd l)) -> tp (cq_layer scan l).
  Proof.
    intros scan l H. unfold cq_layer.
    apply tp_tensor; [apply tp_tensor; [apply tp_id | exact H] | apply tp_id].
  Qed.

  Lemma tp_eval_layers_sem : forall fz, fz_ok fz ->
    forall ls scan t acc, run_ty scan ls = Some t ->
      (forall l, In l ls -> tp (cq_box (snd l))) -> tp acc -> cq_cod acc = F_ob scan ->
      exists f, cq_eval_layers fz scan acc ls = Ok f /\ tp f
                /\ cq_dom f = cq_dom acc /\ cq_cod f = F_ob t.
  Proof.
    intros fz Hfz. induction ls as [|l ls IH]; intros scan t acc Hrun Hall Hacc Hcod.
    - cbn in Hrun. injection Hrun as <-. exists acc. auto.
    - cbn [run_ty] in Hrun. destruct (fits scan l) eqn:Hfit; [|discriminate].
      destruct (cq_layer_types SR scan l Hfit) as (DL & CL).
      destruct (Hfz (cq_layer scan l)) as (DF & CF & _).
      destruct (tp_then SR acc (fz (cq_layer scan l))) as (h & Eh & Dh & Ch & Th).
      { rewrite DF, DL. exact Hcod. }
      { exact Hacc. }
      { apply tp_fz; [exact Hfz | apply tp_layer_sem, Hall; left; reflexivity]. }
      cbn [cq_eval_layers]. rewrite Eh. cbn [bind].
      destruct (Hfz h) as (DH & CH & _).
      destruct (IH (step_ty scan l) t (fz h) Hrun) as (f & Ef & Tf & Df & Cf).
      { intros l' Hl'. apply Hall. right. exact Hl'. }
      { apply tp_fz; assumption. }
      { rewrite CH, Ch, CF, CL. reflexivity. }
      exists f. split; [exact Ef|]. split; [exact Tf|]. split; [|exact Cf].
      rewrite Df, DH, Dh. reflexivity.
  Qed.

  (* TRACE PRESERVATION, semantic class: every well-typed circuit all of whose boxes
     satisfy the discard law evaluates to a map satisfying the discard law *)
  Lemma trace_preserving_sem : forall c, wf_mcircuit c = true -> tp_circuit_sem c ->
    exists f, cq_eval c = Ok f /\ cq_dom f = F_ob (m_dom c) /\ cq_cod f = F_ob (cod_or_nil c) /\ tp f.
  Proof.
    intros c Hwf Hc. unfold wf_mcircuit, cod_or_nil, m_cod in *.
    destruct (run_ty (m_dom c) (m_layers c)) as [t|] eqn:E; [|discriminate].
    destruct (tp_eval_layers_sem _ (fz_ok_freeze SR) (m_layers c) (m_dom c) t
                (cq_freeze (cq_id (F_ob (m_dom c)))) E Hc) as (f & Ef & Tf & Df & Cf).
    { apply tp_fz; [apply fz_ok_freeze | apply tp_id]. }
    { reflexivity. }
    exists f. split; [exact Ef|]. split; [exact Df|]. split; [exact Cf | exact Tf].
  Qed.

  Lemma get_counts_is_distribution_sem : forall c,
    wf_mcircuit c = true -> tp_circuit_sem c -> m_dom c = [] -> nq (cod_or_nil c) = 0 ->
    exists f, cq_eval c = Ok f /\ bsum (nb (cod_or_nil c)) (fun o => cq_mat f [] o) = r1.
  Proof.
    intros c Hwf Hc Hd Hq. destruct (trace_preserving_sem c Hwf Hc) as (f & Ef & Df & Cf & Tf).
    exists f. split; [exact Ef|]. apply tp_state_sums_to_one; [exact Tf | |].
    - rewrite Df, Hd. reflexivity.
    - rewrite Cf. unfold F_ob. rewrite Hq. reflexivity.
  Qed.

  (* for ANY well-typed circuit of the class (any domain, any codomain): what
     get_counts() reads -- the evaluation of init_and_discard -- exists and sums to 1
     (init_and_discard adds only Bits(0), Ket(0), Discard(qubit): boxes of the class;
     its well-typedness is init_and_discard_wf) *)
  Lemma init_and_discard_tp : forall c, tp_circuit_sem c -> tp_circuit_sem (init_and_discard c).
  Proof.
    intros c Hc.
    assert (Hinit : forall dom k l, In l (init_layers (SR := SR) k dom) -> tp (cq_box (snd l))).
    { induction dom as [|w dom IH]; intros k l Hl; [contradiction|].
      cbn [init_layers] in Hl. destruct Hl as [<-|Hl]; [|exact (IH _ _ Hl)].
      cbn [snd]. apply tp_cq_box. destruct w; cbn; [reflexivity|].
      right. eexists. reflexivity. }
    assert (Hdisc : forall cod k l, In l (discard_layers (SR := SR) k cod) -> tp (cq_box (snd l))).
    { induction cod as [|w cod IH]; intros k l Hl; [contradiction|].
      destruct w; cbn [discard_layers] in Hl; [exact (IH _ _ Hl)|].
      destruct Hl as [<-|Hl]; [|exact (IH _ _ Hl)].
      cbn [snd]. apply tp_cq_box. exact Logic.I. }
    unfold init_and_discard.
    set (c1 := match m_dom c with
               | [] => c
               | _ :: _ => MC [] (init_layers 0 (m_dom c) ++ m_layers c)
               end).
    assert (H1 : tp_circuit_sem c1).
    { unfold c1. destruct (m_dom c); [exact Hc|].
      intros l Hl. cbn [m_layers] in Hl. apply in_app_or in Hl as [Hl|Hl];
        [exact (Hinit _ _ _ Hl) | exact (Hc _ Hl)]. }
    destruct (cty_eqb (cod_or_nil c) (bits_ty (length (cod_or_nil c)))); [exact H1|].
    intros l Hl. cbn [m_layers] in Hl. apply in_app_or in Hl as [Hl|Hl];
      [exact (H1 _ Hl) | exact (Hdisc _ _ _ Hl)].
  Qed.

  Lemma get_counts_sums_to_one : forall c, wf_mcircuit c = true -> tp_circuit_sem c ->
    exists f, cq_eval (init_and_discard c) = Ok f
              /\ bsum (nb (cod_or_nil c)) (fun o => cq_mat f [] o) = r1.
  Proof.
    intros c Hwf Hc.
    destruct (init_and_discard_wf SR c Hwf) as (W & D & C).
    destruct (get_counts_is_distribution_sem (init_and_discard c) W (init_and_discard_tp c Hc) D
                (init_and_discard_cod_bits SR c Hwf)) as (f & Ef & Sf).
    exists f. split; [exact Ef|].
    rewrite C in Sf. unfold nb in *. 
    assert (Efil : forall t : cty, filter is_b (filter is_b t) = filter is_b t).
    { induction t as [|w t IH]; [reflexivity|].
      destruct w; cbn; [f_equal|]; exact IH. }
    rewrite Efil in Sf. exact Sf.
  Qed.

  (* ---------------------------------------------------------------- the non-destructive measurement *)
  (* Measure(n, destructive=False [, override_bits]) : qubit^n [@ bit^n] -> qubit^n @ bit^n
     satisfies the discard law, in the composite form  f >> discard = discard *)
  Lemma measure_nondestructive_tp : forall n o,
    let f := cq_box (MMeasure n false o : mbox SR) in
    tp f /\
    forall i, length i = uw (cq_dom f) ->
      mmul (uw (cq_cod f)) (cq_mat f) (cq_mat (cq_discard (cq_cod f))) i []
      = cq_mat (cq_discard (cq_dom f)) i [].
  Proof.
    intros n o f.
    assert (T : tp f) by (apply tp_cq_box; exact Logic.I).
    split; [exact T | apply tp_is_discard_law, T].
  Qed.

  (* ---------------------------------------------------------------- boxes that are NOT trace preserving *)
  Local Open Scope sr_scope.

  (* Encode(1, constructive=False) : qubit @ bit -> qubit, the adjoint of the non-destructive
     measurement, post-selects "bit = qubit": on the input (bit 0, qubit |1><1|) it gives 0,
     the discard gives 1 *)
  Lemma encode_nonconstructive_not_tp :
    tp (cq_box (MEncode 1 false false : mbox SR)) -> (1 : SR) = 0.
  Proof.
    intro H. specialize (H [false; true; true] eq_refl).
    unfold tr_out, disc, madj in H.
    cbn [cq_box mbox_is_dagger raw_ar ar_measure cq_measure cq_measure1 cq_dagger cq_dom cq_cod cq_mat
         fst snd bsum app firstn skipn hd repeat] in H.
    unfold madj, delta in H. cbn [app beqb Bool.eqb andb hd repeat] in H.
    rewrite (conj_0 SR) in H. rewrite <- H. ring.
  Qed.

  (* Encode(1, reset_bits=True) : bit -> qubit @ bit, the adjoint of Measure(override_bits):
     it creates an unnormalised bit (weight 2) *)
  Lemma encode_reset_not_tp :
    tp (cq_box (MEncode 1 true true : mbox SR)) -> (1 : SR) = 0.
  Proof.
    intro H. specialize (H [false] eq_refl).
    unfold tr_out, disc in H.
    cbn [cq_box mbox_is_dagger raw_ar ar_measure cq_measure cq_measure1 cq_dagger cq_tensor cq_discard
         cq_dom cq_cod cq_mat cq_add fst snd bsum app firstn skipn Nat.add] in H.
    unfold madj, left_part, right_part, delta in H.
    cbn [fst snd app firstn skipn Nat.add beqb Bool.eqb andb hd repeat] in H.
    rewrite ?(conj_mul SR), ?(conj_0 SR), ?(conj_1 SR) in H.
    transitivity ((1 * 1 + 0 * 1 + (1 * 1 + 0 * 1)) - 1 : SR); [ring|]. rewrite H. ring.
  Qed.

  (* MixedState(qubit) = Discard(qubit)^dagger is the unnormalised maximally mixed state *)
  Lemma mixedstate_not_tp :
    tp (cq_box (MMixedState [WQ] : mbox SR)) -> (1 : SR) = 0.
  Proof.
    intro H. specialize (H [] eq_refl).
    unfold tr_out, disc in H.
    cbn [cq_box mbox_is_dagger raw_ar cq_dagger cq_discard F_ob nb nq filter is_b is_q length
         cq_dom cq_cod cq_mat fst snd bsum app firstn skipn] in H.
    unfold madj, delta in H. cbn [beqb Bool.eqb andb] in H.
    rewrite ?(conj_1 SR) in H.
    transitivity ((1 + 1) - 1 : SR); [ring|]. rewrite H. ring.
  Qed.
End TPMore.

Arguments tp_circuit_sem {_}.

(* ================================================================== 3. measure at circuit level *)
Section MeasureBorn.
  Variable SR : StarRing.
  Add Ring SRrmore3 : (SR_ring SR).
  Implicit Types (A B : mat SR) (c : circuit SR) (ls : list (nat * box SR)).

  Definition zeros (n : nat) : bits := repeat false n.

  (* the amplitudes of the state  Ket(0..0) >> c  (C11's pure evaluation) *)
  Definition amp c (o : bits) : SR := eval c (zeros (c_dom c)) o.

  (* ---------------------------------------------------------------- embedded pure circuits: types *)
  Lemma fits_pure : forall w (l : nat * box SR), fst l + box_dom (snd l) <= w ->
    fits (qubits_ty w) (fst l, MPure (snd l)) = true.
  Proof.
    intros w [off b] H. cbn [fst snd] in *. unfold fits. cbn [fst snd mbox_dom].
    rewrite !qubits_length. apply andb_true_intro. split; [apply Nat.leb_le; exact H|].
    unfold qubits_ty. rewrite skipn_repeat. rewrite firstn_repeat_le by lia. apply cty_eqb_refl.
  Qed.

  Lemma run_ty_embed : forall ls w w2, run_width w ls = Some w2 ->
    run_ty (qubits_ty w) (embed_layers ls) = Some (qubits_ty w2).
  Proof.
    induction ls as [|l ls IH]; intros w w2 H.
    - cbn in *. congruence.
    - apply run_width_cons in H as [Hfit H]. cbn [embed_layers map run_ty].
      rewrite (fits_pure w l Hfit). rewrite (step_ty_pure SR w l Hfit). apply IH, H.
  Qed.

  Lemma embed_wf : forall c, wf_circuit c = true ->
    wf_mcircuit (embed c) = true /\ cod_or_nil (embed c) = qubits_ty (cod_or0 c).
  Proof.
    intros c H. unfold wf_circuit, cod_or0, c_cod in *.
    destruct (run_width (c_dom c) (c_layers c)) as [w2|] eqn:E; [|discriminate].
    unfold wf_mcircuit, cod_or_nil, m_cod, embed. cbn [m_dom m_layers].
    rewrite (run_ty_embed _ _ _ E). split; reflexivity.
  Qed.

  Lemma nb_qubits : forall n, nb (qubits_ty n) = 0.
  Proof. intro n. pose proof (F_ob_qubits n) as H. unfold F_ob in H. congruence. Qed.

  Lemma both_kinds_qubits : forall n, both_kinds (qubits_ty n) = false.
  Proof. intro n. unfold both_kinds. rewrite nb_qubits. reflexivity. Qed.

  Lemma layer_cods_embed : forall ls w w2, run_width w ls = Some w2 ->
    existsb both_kinds (layer_cods (qubits_ty w) (embed_layers ls)) = false.
  Proof.
    induction ls as [|l ls IH]; intros w w2 H; [reflexivity|].
    apply run_width_cons in H as [Hfit H]. cbn [embed_layers map layer_cods existsb].
    rewrite (step_ty_pure SR w l Hfit), both_kinds_qubits. cbn [orb]. apply (IH _ _ H).
  Qed.

  Lemma no_mixed_box_embed : forall ls,
    existsb (fun l : nat * mbox SR => mbox_is_mixed (snd l)) (embed_layers ls) = false.
  Proof. induction ls as [|l ls IH]; [reflexivity|]. cbn. exact IH. Qed.

  (* Circuit.is_mixed of a pure circuit is False *)
  Lemma embed_not_mixed : forall c, wf_circuit c = true -> mc_is_mixed (embed c) = false.
  Proof.
    intros c H. unfold wf_circuit, c_cod in H.
    destruct (run_width (c_dom c) (c_layers c)) as [w2|] eqn:E; [|discriminate].
    unfold mc_is_mixed, embed. cbn [m_dom m_layers].
    rewrite both_kinds_qubits, (layer_cods_embed _ _ _ E), no_mixed_box_embed. reflexivity.
  Qed.

  Lemma forallb_is_q_qubits : forall n, forallb is_q (qubits_ty n) = true.
  Proof. induction n as [|n IH]; [reflexivity|]. cbn. exact IH. Qed.

  (* ---------------------------------------------------------------- plain evaluation = C11's evaluation *)
  Lemma plain_layers_embed : forall fz ls n w acc,
    plain_layers fz n w acc (embed_layers ls) = eval_layers fz n w acc ls.
  Proof.
    intros fz. induction ls as [|l ls IH]; intros n w acc; [reflexivity|].
    cbn [embed_layers map plain_layers eval_layers fst snd mbox_dom mbox_cod plain_box].
    rewrite !qubits_length. fold (embed_layers ls). rewrite IH. reflexivity.
  Qed.

  (* Ket(0, .., 0) >> c *)
  Definition with_ket c : circuit SR := Circ 0 ((0, BKet (zeros (c_dom c))) :: c_layers c).

  Lemma with_ket_wf : forall c, wf_circuit c = true ->
    wf_circuit (with_ket c) = true /\ cod_or0 (with_ket c) = cod_or0 c.
  Proof.
    intros c H. unfold wf_circuit, cod_or0, c_cod, with_ket in *. cbn [c_dom c_layers run_width].
    cbn [box_dom box_cod Nat.add Nat.sub Nat.leb]. unfold zeros. rewrite repeat_length.
    destruct (run_width (c_dom c) (c_layers c)); [split; reflexivity | discriminate].
  Qed.

  Lemma layer_ket_row : forall n x, length x = n ->
    layer_mat (0, BKet (zeros n) : box SR) [] x = (delta (zeros n) x : SR).
  Proof.
    intros n x Hx. unfold layer_mat. cbn [fst snd box_dom box_cod box_eval].
    assert (Hz : length (zeros n) = n) by apply repeat_length. rewrite Hz.
    pose proof (whisker_app3 SR 0 0 n (fun i o => delta (i ++ o) (zeros n)) [] [] [] [] x []
                  eq_refl eq_refl eq_refl Hx) as W.
    cbn [app] in W. rewrite app_nil_r in W. rewrite W.
    rewrite (delta_refl SR []), (delta_sym SR x (zeros n)). ring.
  Qed.

  Lemma with_ket_eval : forall c, wf_circuit c = true -> forall o, length o = cod_or0 c ->
    eval (with_ket c) [] o = amp c o.
  Proof.
    intros c H o Ho. destruct (with_ket_wf c H) as [W C].
    rewrite (eval_is_lprod SR (with_ket c) W [] o eq_refl) by (rewrite C; exact Ho).
    unfold with_ket. cbn [c_dom c_layers lprod].
    assert (Es : step_w 0 (0, BKet (zeros (c_dom c)) : box SR) = c_dom c).
    { unfold step_w. cbn [snd box_dom box_cod]. unfold zeros. rewrite repeat_length. lia. }
    rewrite Es.
    rewrite (mmul_delta_l SR (c_dom c) _ _ [] o (zeros (c_dom c))).
    - unfold amp. symmetry. apply (eval_is_lprod SR c H); [apply repeat_length | exact Ho].
    - apply repeat_length.
    - intros x Hx. apply layer_ket_row, Hx.
  Qed.

  (* ---------------------------------------------------------------- (a) the non-mixed path *)
  (* Circuit.measure() of a pure circuit c: dom -> cod on qubits: the squared magnitudes of
     the amplitudes of  Ket(0..0) >> c,  indexed by all bitstrings in row-major order *)
  Lemma measure_pure_is_born : forall c, wf_circuit c = true ->
    measure (embed c) false
    = Ok (map (fun o => (amp c o * rconj (amp c o))%sr) (all_bits (cod_or0 c))).
  Proof.
    intros c H. destruct (embed_wf c H) as [_ Ecod].
    unfold measure. rewrite (embed_not_mixed c H). cbn [orb].
    change (m_dom (embed c)) with (qubits_ty (c_dom c)). rewrite forallb_is_q_qubits.
    f_equal. unfold born_flat. rewrite Ecod.
    change (m_dom (embed c)) with (qubits_ty (c_dom c)). rewrite !qubits_length.
    apply map_ext_in. intros o Ho. apply length_all_bits in Ho.
    assert (E : plain_eval (MC [] ((0, MPure (BKet (repeat false (c_dom c)))) :: m_layers (embed c)))
                = eval (with_ket c)).
    { unfold plain_eval, eval, with_ket. cbn [m_dom m_layers length c_dom c_layers embed].
      apply (plain_layers_embed mfreeze ((0, BKet (zeros (c_dom c))) :: c_layers c)). }
    rewrite E. rewrite (with_ket_eval c H o Ho). reflexivity.
  Qed.

  (* ---------------------------------------------------------------- (b) the mixed path of c >> Measure *)
  (* the Ket(0) layers init_and_discard puts in front of a circuit on m qubits *)
  Definition kets (k m : nat) : list (nat * box SR) := map (fun j => (j, BKet [false])) (seq k m).

  Lemma init_layers_qubits : forall m k,
    init_layers (SR := SR) k (qubits_ty m) = embed_layers (kets k m).
  Proof.
    induction m as [|m IH]; intro k; [reflexivity|].
    cbn [qubits_ty repeat init_layers kets seq map embed_layers fst snd]. f_equal. apply IH.
  Qed.

  Lemma run_width_kets : forall m k, run_width k (kets k m) = Some (k + m).
  Proof.
    induction m as [|m IH]; intro k.
    - cbn. f_equal. lia.
    - cbn [kets seq map run_width box_dom box_cod length].
      replace (k + 0 <=? k) with true by (symmetry; apply Nat.leb_le; lia).
      replace (k - 0 + 1) with (S k) by lia.
      fold (kets (S k) m). rewrite IH. f_equal. lia.
  Qed.

  Lemma layer_ket1_row : forall k (i y : bits), length i = k -> length y = S k ->
    layer_mat (k, BKet [false] : box SR) i y = (delta (i ++ [false]) y : SR).
  Proof.
    intros k i y Hi Hy. unfold layer_mat. cbn [fst snd box_dom box_cod box_eval length].
    assert (Hy' : length y = k + 1) by lia.
    destruct (split2 _ k 1 y Hy') as (l' & m' & -> & Hl' & Hm').
    pose proof (whisker_app3 SR k 0 1 (fun i o => delta (i ++ o) [false]) i [] [] l' m' []
                  Hi Hl' eq_refl Hm') as W.
    cbn [app] in W. rewrite !app_nil_r in W. rewrite W.
    rewrite (delta_app SR i [false] l' m') by lia.
    rewrite (delta_refl SR []), (delta_sym SR m' [false]). ring.
  Qed.

  Lemma lprod_kets : forall m k (i x : bits), length i = k -> length x = k + m ->
    lprod k (kets k m) i x = (delta (i ++ zeros m) x : SR).
  Proof.
    induction m as [|m IH]; intros k i x Hi Hx.
    - cbn. rewrite app_nil_r. reflexivity.
    - cbn [kets seq map lprod]. fold (kets (S k) m).
      assert (Es : step_w k (k, BKet [false] : box SR) = S k)
        by (unfold step_w; cbn [snd box_dom box_cod length]; lia).
      rewrite Es.
      rewrite (mmul_delta_l SR (S k) _ _ i x (i ++ [false])).
      + rewrite (IH (S k) (i ++ [false]) x) by (rewrite ?app_length; cbn [length]; lia).
        rewrite <- app_assoc. reflexivity.
      + rewrite app_length. cbn [length]. lia.
      + intros y Hy. apply layer_ket1_row; assumption.
  Qed.

  Lemma cq_eval_layers_app : forall fz (ls1 ls2 : list (nat * mbox SR)) scan t acc,
    run_ty scan ls1 = Some t ->
    cq_eval_layers fz scan acc (ls1 ++ ls2)
    = (do f1 <- cq_eval_layers fz scan acc ls1; cq_eval_layers fz t f1 ls2).
  Proof.
    intros fz. induction ls1 as [|l ls1 IH]; intros ls2 scan t acc H.
    - cbn in H. injection H as <-. reflexivity.
    - cbn [app cq_eval_layers run_ty] in *. destruct (fits scan l); [|discriminate].
      destruct (cq_then acc (fz (cq_layer scan l))) as [h|e]; cbn [bind]; [apply IH, H | reflexivity].
  Qed.

  (* tensoring with the identity on the empty CQ type changes nothing *)
  Lemma cq_tensor_id0_l : forall (f : cqmap SR) a b, cq_dom f = a -> cq_cod f = b ->
    meq (uw a) (uw b) (cq_mat (cq_tensor (cq_id (0, 0)) f)) (cq_mat f).
  Proof.
    intros f a b <- <- i o Hi Ho. unfold uw in Hi, Ho.
    destruct (split3 _ _ _ _ i Hi) as (c1 & q1 & p1 & -> & Lc & Lq & Lp).
    destruct (split3 _ _ _ _ o Ho) as (d1 & r1 & s1 & -> & Ld & Lr & Ls).
    change (c1 ++ q1 ++ p1) with (idx6 [] c1 [] q1 [] p1).
    change (d1 ++ r1 ++ s1) with (idx6 [] d1 [] r1 [] s1).
    rewrite (cq_tensor_at SR (cq_id (0, 0)) f [] c1 [] q1 [] p1 [] d1 [] r1 [] s1)
      by first [reflexivity | assumption].
    cbn [cq_id cq_mat app]. unfold mid. rewrite (delta_refl SR []). unfold idx6. cbn [app]. ring.
  Qed.

  Lemma cq_tensor_id0_r : forall (f : cqmap SR) a b, cq_dom f = a -> cq_cod f = b ->
    meq (uw a) (uw b) (cq_mat (cq_tensor f (cq_id (0, 0)))) (cq_mat f).
  Proof.
    intros f a b <- <- i o Hi Ho. unfold uw in Hi, Ho.
    destruct (split3 _ _ _ _ i Hi) as (c0 & q0 & p0 & -> & Lc & Lq & Lp).
    destruct (split3 _ _ _ _ o Ho) as (d0 & r0 & s0 & -> & Ld & Lr & Ls).
    replace (c0 ++ q0 ++ p0) with (idx6 c0 [] q0 [] p0 []) at 1
      by (unfold idx6; rewrite !app_nil_r; reflexivity).
    replace (d0 ++ r0 ++ s0) with (idx6 d0 [] r0 [] s0 []) at 1
      by (unfold idx6; rewrite !app_nil_r; reflexivity).
    rewrite (cq_tensor_at SR f (cq_id (0, 0)) c0 [] q0 [] p0 [] d0 [] r0 [] s0 [])
      by first [reflexivity | assumption].
    cbn [cq_id cq_mat app]. unfold mid. rewrite (delta_refl SR []). ring.
  Qed.

  (* c >> Measure(n) on all n output qubits *)
  Definition meas_layer (n : nat) : nat * mbox SR := (0, MMeasure n true false).
  Definition then_measure c : mcircuit SR :=
    MC (qubits_ty (c_dom c)) (embed_layers (c_layers c) ++ [meas_layer (cod_or0 c)]).

  Lemma bits_length : forall n, length (bits_ty n) = n.
  Proof. intro n. apply repeat_length. Qed.

  Lemma meas_layer_fits : forall n,
    fits (qubits_ty n) (meas_layer n) = true /\ step_ty (qubits_ty n) (meas_layer n) = bits_ty n.
  Proof.
    intro n. destruct (fits_at SR [] [] (MMeasure n true false)) as [F St].
    cbn [mbox_dom mbox_cod app length] in F, St.
    rewrite ?app_nil_r in F. rewrite ?app_nil_r in St.
    split; [exact F | exact St].
  Qed.

  (* it is what `embed c >> Measure(n)` builds *)
  Lemma mthen_measure : forall c, wf_circuit c = true ->
    mthen (embed c) (MC (qubits_ty (cod_or0 c)) [meas_layer (cod_or0 c)]) = Ok (then_measure c).
  Proof.
    intros c H. destruct (embed_wf c H) as [_ E]. unfold mthen. rewrite E. cbn [m_dom].
    rewrite cty_eqb_refl. reflexivity.
  Qed.

  Lemma then_measure_wf : forall c, wf_circuit c = true ->
    wf_mcircuit (then_measure c) = true /\ cod_or_nil (then_measure c) = bits_ty (cod_or0 c).
  Proof.
    intros c H. unfold wf_mcircuit, cod_or_nil, m_cod, then_measure. cbn [m_dom m_layers].
    unfold wf_circuit, cod_or0, c_cod in *.
    destruct (run_width (c_dom c) (c_layers c)) as [n|] eqn:E; [|discriminate].
    rewrite (run_ty_app SR _ _ _ _ (run_ty_embed _ _ _ E)).
    destruct (meas_layer_fits n) as [F St]. cbn [run_ty]. rewrite F, St. split; reflexivity.
  Qed.

  (* init_and_discard(c >> Measure): one Ket(0) per input qubit in front, nothing to discard *)
  Lemma init_and_discard_then_measure : forall c, wf_circuit c = true ->
    init_and_discard (then_measure c)
    = MC [] (embed_layers (kets 0 (c_dom c) ++ c_layers c) ++ [meas_layer (cod_or0 c)]).
  Proof.
    intros c H. destruct (then_measure_wf c H) as [_ C].
    unfold init_and_discard. rewrite C, bits_length, cty_eqb_refl.
    unfold then_measure. cbn [m_dom m_layers].
    destruct (c_dom c) as [|m] eqn:Ed.
    - cbn [qubits_ty repeat kets seq map app]. reflexivity.
    - change (qubits_ty (S m)) with (WQ :: qubits_ty m) at 1. cbv iota.
      rewrite init_layers_qubits. unfold embed_layers. rewrite map_app, app_assoc. reflexivity.
  Qed.

  Lemma rre_norm : forall a : SR, rre (rconj a * a)%sr = (rconj a * a)%sr.
  Proof.
    intro a. unfold rre. rewrite conj_mul, conj_invol.
    transitivity (((1 + 1) * rhalf) * (rconj a * a))%sr; [ring|]. rewrite half_2. ring.
  Qed.

  (* the mixed evaluation of init_and_discard(c >> Measure) : C() -> C(bit^n) has the Born
     probabilities as its entries *)
  Lemma eval_then_measure : forall c, wf_circuit c = true ->
    exists f, cq_eval (init_and_discard (then_measure c)) = Ok f
              /\ cq_dom f = (0, 0) /\ cq_cod f = (cod_or0 c, 0)
              /\ forall o, length o = cod_or0 c -> cq_mat f [] o = (rconj (amp c o) * amp c o)%sr.
  Proof.
    intros c H. rewrite (init_and_discard_then_measure c H).
    pose proof (eval_is_lprod SR c H) as Hl.
    unfold wf_circuit, cod_or0, c_cod in *.
    destruct (run_width (c_dom c) (c_layers c)) as [n|] eqn:E; [|discriminate].
    set (m := c_dom c) in *. set (L := kets 0 m ++ c_layers c).
    assert (RL : run_width 0 L = Some n).
    { unfold L. rewrite (run_width_app SR _ _ _ _ (run_width_kets m 0)). exact E. }
    unfold cq_eval. cbn [m_dom m_layers].
    change (F_ob []) with ((0, 0) : cq).
    pose proof (run_ty_embed _ _ _ RL) as RT. change (qubits_ty 0) with ([] : cty) in RT.
    rewrite (cq_eval_layers_app _ _ _ _ _ _ RT).
    destruct (cq_eval_layers_pure SR _ (fz_ok_freeze SR) L 0 0 n
                (cq_freeze (cq_id (0, 0))) mid RL
                (fz_double SR _ _ _ _ _ (fz_ok_freeze SR) (cq_id_double SR 0)))
      as (f1 & Ef1 & D1 & C1 & M1).
    change (qubits_ty 0) with ([] : cty) in Ef1. rewrite Ef1. cbn [bind cq_eval_layers].
    (* the measurement layer *)
    destruct (meas_layer_fits n) as [Fm Sm].
    destruct (cq_layer_types SR (qubits_ty n) (meas_layer n) Fm) as (DL & CL).
    rewrite Sm, F_ob_bits in CL. rewrite F_ob_qubits in DL.
    set (Lyr := cq_layer (qubits_ty n) (meas_layer n)) in *.
    assert (ML : meq (n + n) n (cq_mat Lyr) (cq_mat (cq_measure n true : cqmap SR))).
    { destruct (measure_types SR n true) as (Dm & Cm).
      unfold Lyr, cq_layer, meas_layer. cbn [fst snd firstn mbox_dom].
      rewrite app_nil_r, qubits_length. cbn [Nat.add].
      rewrite skipn_all2 by (rewrite qubits_length; lia).
      change (F_ob []) with ((0, 0) : cq).
      change (cq_box (MMeasure n true false : mbox SR)) with (cq_measure n true : cqmap SR).
      pose proof (cq_tensor_id0_l (cq_measure n true) (0, n) (n, 0) Dm Cm) as X1.
      pose proof (cq_tensor_id0_r (cq_tensor (cq_id (0, 0)) (cq_measure n true)) (0, n) (n, 0)) as X2.
      cbn [cq_tensor cq_dom cq_cod cq_id] in X2. rewrite Dm, Cm in X2.
      specialize (X2 eq_refl eq_refl).
      intros i o Hi Ho.
      rewrite X2 by (unfold uw; cbn [fst snd]; lia). apply X1; unfold uw; cbn [fst snd]; lia. }
    unfold cq_then. cbn [cq_freeze cq_dom cq_cod]. rewrite C1, DL. cbn [uw fst snd Nat.add].
    rewrite Nat.eqb_refl. cbn [bind cq_freeze cq_dom cq_cod cq_mat].
    eexists. split; [reflexivity|]. cbn [cq_dom cq_cod cq_mat].
    split; [exact D1|]. split; [exact CL|].
    intros o Ho. unfold cq_freeze, uw. cbn [cq_dom cq_cod cq_mat].
    rewrite ?D1, ?CL, ?DL. cbn [fst snd Nat.add].
    rewrite (mfreeze_eq SR 0 (n + 0)) by (cbn [length]; lia).
    assert (MF : meq (n + n) n (mfreeze (n + n) (n + 0) (cq_mat Lyr)) (cq_mat (cq_measure n true : cqmap SR))).
    { intros i x Hi Hx. rewrite (mfreeze_eq SR (n + n) (n + 0)) by lia. apply ML; assumption. }
    rewrite (mmul_compat SR 0 (n + n) n _ _ _ _ M1 MF [] o eq_refl Ho).
    rewrite (measure_is_born SR n _ o Ho).
    assert (EA : mmul 0 (mid : mat SR) (lprod 0 L) [] o = amp c o).
    { rewrite (mmul_id_l SR 0 n (lprod 0 L) [] o eq_refl Ho).
      unfold L. rewrite (lprod_app SR _ _ 0 m n (run_width_kets m 0) E [] o eq_refl Ho).
      rewrite (mmul_delta_l SR m _ _ [] o (zeros m)).
      - unfold amp. symmetry. apply Hl; [apply repeat_length | exact Ho].
      - apply repeat_length.
      - intros x Hx. apply (lprod_kets m 0 [] x eq_refl Hx). }
    rewrite EA. reflexivity.
  Qed.

  Lemma then_measure_is_mixed : forall c, mc_is_mixed (then_measure c) = true.
  Proof.
    intro c. unfold mc_is_mixed, then_measure. cbn [m_dom m_layers].
    rewrite existsb_app. cbn [existsb meas_layer snd mbox_is_mixed]. rewrite !orb_true_r. reflexivity.
  Qed.

  (* Circuit.measure(mixed) of  c >> Measure(n)  (always the mixed path): the Born probabilities *)
  Lemma measure_mixed_is_born : forall c mixed, wf_circuit c = true ->
    measure (then_measure c) mixed
    = Ok (map (fun o => (rconj (amp c o) * amp c o)%sr) (all_bits (cod_or0 c))).
  Proof.
    intros c mixed H. unfold measure. rewrite then_measure_is_mixed, orb_true_r.
    destruct (eval_then_measure c H) as (f & Ef & Df & Cf & Mf). rewrite Ef. cbn [bind].
    f_equal. unfold cq_flat, mat_tab. rewrite Df, Cf. cbn [uw fst snd Nat.add].
    rewrite Nat.add_0_r. rewrite tflat_ttab, map_map.
    apply map_ext_in. intros o Ho. apply length_all_bits in Ho.
    cbn [firstn skipn]. rewrite (Mf o Ho). apply rre_norm.
  Qed.

  (* MEASURE = EVAL: for a pure circuit the two ways of getting outcome probabilities agree *)
  Lemma measure_eq_eval : forall c mixed, wf_circuit c = true ->
    measure (then_measure c) mixed = measure (embed c) false.
  Proof.
    intros c mixed H. rewrite (measure_mixed_is_born c mixed H), (measure_pure_is_born c H).
    f_equal. apply map_ext. intro o. ring.
  Qed.
End MeasureBorn.

Arguments zeros : clear implicits.
Arguments amp {_}. Arguments with_ket {_}. Arguments kets {_}. Arguments meas_layer {_}. Arguments then_measure {_}.

(* ------------------------------------------------------------------ closed statements, non-vacuity (Cyc32) *)
Require Import DV.Quantum.Cyc32.

Lemma cyc32_nontrivial : (r1 : Cyc32) <> r0.
Proof. intro H. discriminate H. Qed.

(* over the executable ring the three boxes really are outside the class *)
Lemma encode_variants_not_tp_cyc32 :
  ~ tp (cq_box (MEncode 1 false false : mbox Cyc32))
  /\ ~ tp (cq_box (MEncode 1 true true : mbox Cyc32))
  /\ ~ tp (cq_box (MMixedState [WQ] : mbox Cyc32)).
Proof.
  split; [|split]; intro H; apply cyc32_nontrivial;
    [apply (encode_nonconstructive_not_tp Cyc32 H) | apply (encode_reset_not_tp Cyc32 H)
     | apply (mixedstate_not_tp Cyc32 H)].
Qed.

(* a circuit of the class with non-destructive measurements (one overriding a bit) on
   interleaved wires, from a non-empty domain with both kinds of wires:
   the hypotheses of trace_preserving_sem / get_counts_sums_to_one are satisfiable *)
Definition ex_tp_nd : mcircuit Cyc32 :=
  MC [WB; WQ]
     [(1, MPure (BG1 (G1Named NH false))); (1, MMeasure 1 false false); (0, MSwap WB WQ);
      (0, MMeasure 1 false true); (2, MCopy)].
Example ex_tp_nd_hyps : wf_mcircuit ex_tp_nd = true /\ tp_circuit_sem ex_tp_nd.
Proof.
  split; [reflexivity|]. apply tp_circuit_sem_of_class.
  intros l Hl. cbn in Hl.
  repeat (destruct Hl as [<-|Hl]; [cbn; auto; try (left; split; [reflexivity | exact Logic.I])|]).
  contradiction.
Qed.

(* a pure circuit with a non-empty domain: H on wire 0, CX, S^dagger on wire 1 *)
Definition ex_bell : circuit Cyc32 :=
  Circ 2 [(0, BG1 (G1Named NH false)); (0, BG2 (G2Ctrl (G1Named NX false))); (1, BG1 (G1Named NS true))].
Example ex_bell_wf : wf_circuit ex_bell = true.
Proof. reflexivity. Qed.
(* the hypothesis of mdagger_wf / init_and_discard_wf is met by CQLemmas.ex_mixed (ex_mixed_wf) *)

Print Assumptions mdagger_wf.
Print Assumptions init_and_discard_wf.
Print Assumptions trace_preserving_sem.
Print Assumptions get_counts_sums_to_one.
Print Assumptions encode_variants_not_tp_cyc32.
Print Assumptions measure_eq_eval.
