(* Proofs about the CQMap model (CQMap.v): index bookkeeping of CQMap.tensor,
   the doubling of pure circuits, closed forms of measure / encode / discard,
   the Born rule, marginals, adjointness, trace preservation. *)
From Coq Require Import List Bool Arith ZArith Lia Ring.
Import ListNotations.
Require Import DV.Common.Base.
Require Import DV.Quantum.Ring DV.Quantum.Matrix DV.Quantum.MatrixLemmas DV.Quantum.Gates
               DV.Quantum.Std DV.Quantum.GatesLemmas DV.Quantum.CircuitLemmas DV.Quantum.TensorLemmas.
Require Import DV.CQ.CQMap.
Local Open Scope nat_scope.

(* ------------------------------------------------------------------ lists *)
Section ListFacts.
  Variable T : Type.
  Implicit Types (a b x : list T).

  Lemma firstn_repeat_le : forall (x : T) k n, k <= n -> firstn k (repeat x n) = repeat x k.
  Proof.
    intros x k. induction k as [|k IH]; intros n H; [reflexivity|].
    destruct n as [|n]; [lia|]. cbn. f_equal. apply IH. lia.
  Qed.

  Lemma skipn_repeat : forall (x : T) k n, skipn k (repeat x n) = repeat x (n - k).
  Proof.
    intros x k. induction k as [|k IH]; intros n; [rewrite Nat.sub_0_r; reflexivity|].
    destruct n as [|n]; [reflexivity|]. cbn. apply IH.
  Qed.

  Lemma split3 : forall m n p x, length x = m + (n + p) ->
    exists a b c, x = a ++ b ++ c /\ length a = m /\ length b = n /\ length c = p.
  Proof.
    intros m n p x H.
    destruct (split_len _ m (n + p) x H) as (E1 & L1 & L2).
    destruct (split_len _ n p (skipn m x) L2) as (E2 & L3 & L4).
    exists (firstn m x), (firstn n (skipn m x)), (skipn n (skipn m x)).
    rewrite <- E2. auto.
  Qed.

  Lemma split2 : forall m n x, length x = m + n ->
    exists a b, x = a ++ b /\ length a = m /\ length b = n.
  Proof.
    intros m n x H. destruct (split_len _ m n x H) as (E & L1 & L2).
    exists (firstn m x), (skipn m x). auto.
  Qed.
End ListFacts.

(* the index of the tensor's (co)domain, in the layout  c0 c1 | q0 q1 | p0 p1 *)
Definition idx6 (c0 c1 q0 q1 p0 p1 : bits) : bits := (c0 ++ c1) ++ (q0 ++ q1) ++ (p0 ++ p1).

Lemma parts_idx6 : forall (a b : cq) c0 c1 q0 q1 p0 p1,
  length c0 = fst a -> length c1 = fst b -> length q0 = snd a -> length q1 = snd b ->
  length p0 = snd a ->
  left_part a b (idx6 c0 c1 q0 q1 p0 p1) = c0 ++ q0 ++ p0 /\
  right_part a b (idx6 c0 c1 q0 q1 p0 p1) = c1 ++ q1 ++ p1.
Proof.
  intros [ca qa] [cb qb] c0 c1 q0 q1 p0 p1 H1 H2 H3 H4 H5. cbn [fst snd] in *.
  unfold left_part, right_part, idx6. cbn [fst snd].
  assert (Lc : length (c0 ++ c1) = ca + cb) by (rewrite app_length; lia).
  assert (Lq : length (q0 ++ q1) = qa + qb) by (rewrite app_length; lia).
  assert (S1 : skipn (ca + cb) ((c0 ++ c1) ++ (q0 ++ q1) ++ p0 ++ p1) = (q0 ++ q1) ++ p0 ++ p1)
    by (apply skipn_app_len; exact Lc).
  assert (S2 : skipn (ca + cb + (qa + qb)) ((c0 ++ c1) ++ (q0 ++ q1) ++ p0 ++ p1) = p0 ++ p1).
  { rewrite skipn_add, S1. apply skipn_app_len; exact Lq. }
  assert (F1 : firstn (ca + cb) ((c0 ++ c1) ++ (q0 ++ q1) ++ p0 ++ p1) = c0 ++ c1)
    by (apply firstn_app_len; exact Lc).
  assert (F2 : firstn (qa + qb) ((q0 ++ q1) ++ p0 ++ p1) = q0 ++ q1)
    by (apply firstn_app_len; exact Lq).
  rewrite S1, S2, F1, F2. split.
  - rewrite <- (app_assoc c0 c1). rewrite (firstn_app_len _ ca c0) by exact H1.
    rewrite <- (app_assoc q0 q1). rewrite (firstn_app_len _ qa q0) by exact H3.
    rewrite (firstn_app_len _ qa p0) by exact H5. reflexivity.
  - rewrite (skipn_app_len _ ca c0) by exact H1.
    rewrite (skipn_app_len _ qa q0) by exact H3.
    rewrite (skipn_app_len _ qa p0) by exact H5. reflexivity.
Qed.

Lemma split_idx6 : forall (a b : cq) x, length x = uw (cq_add a b) ->
  exists c0 c1 q0 q1 p0 p1, x = idx6 c0 c1 q0 q1 p0 p1 /\
    length c0 = fst a /\ length c1 = fst b /\ length q0 = snd a /\ length q1 = snd b /\
    length p0 = snd a /\ length p1 = snd b.
Proof.
  intros [ca qa] [cb qb] x H. unfold uw, cq_add in H. cbn [fst snd] in *.
  destruct (split3 _ (ca + cb) (qa + qb) (qa + qb) x H) as (c & q & p & E & Lc & Lq & Lp).
  destruct (split2 _ ca cb c Lc) as (c0 & c1 & Ec & L0 & L1).
  destruct (split2 _ qa qb q Lq) as (q0 & q1 & Eq & L2 & L3).
  destruct (split2 _ qa qb p Lp) as (p0 & p1 & Ep & L4 & L5).
  exists c0, c1, q0, q1, p0, p1. subst. unfold idx6. auto 10.
Qed.

Lemma idx6_length : forall c0 c1 q0 q1 p0 p1,
  length (idx6 c0 c1 q0 q1 p0 p1)
  = length c0 + length c1 + (length q0 + length q1 + (length p0 + length p1)).
Proof. intros. unfold idx6. rewrite !app_length. lia. Qed.

Section CQLemmas.
  Variable SR : StarRing.
  Add Ring SRr3 : (SR_ring SR).
  Local Open Scope sr_scope.
  Implicit Types (A B : mat SR) (f g : cqmap SR).

  (* ---------------------------------------------------------------- CQMap.tensor, pointwise *)
  Lemma cq_tensor_at : forall f g c0 c1 q0 q1 p0 p1 d0 d1 r0 r1 s0 s1,
    length c0 = fst (cq_dom f) -> length c1 = fst (cq_dom g) ->
    length q0 = snd (cq_dom f) -> length q1 = snd (cq_dom g) -> length p0 = snd (cq_dom f) ->
    length d0 = fst (cq_cod f) -> length d1 = fst (cq_cod g) ->
    length r0 = snd (cq_cod f) -> length r1 = snd (cq_cod g) -> length s0 = snd (cq_cod f) ->
    cq_mat (cq_tensor f g) (idx6 c0 c1 q0 q1 p0 p1) (idx6 d0 d1 r0 r1 s0 s1)
    = cq_mat f (c0 ++ q0 ++ p0) (d0 ++ r0 ++ s0) * cq_mat g (c1 ++ q1 ++ p1) (d1 ++ r1 ++ s1).
  Proof.
    intros. cbn [cq_tensor cq_mat].
    destruct (parts_idx6 (cq_dom f) (cq_dom g) c0 c1 q0 q1 p0 p1) as [-> ->]; try assumption.
    destruct (parts_idx6 (cq_cod f) (cq_cod g) d0 d1 r0 r1 s0 s1) as [-> ->]; try assumption.
    reflexivity.
  Qed.

  (* ---------------------------------------------------------------- doubling *)
  Definition double (m n : nat) A : mat SR := kron m n (mconj A) A.

  Lemma double_compat : forall m n A A', meq m n A A' ->
    meq (m + m) (n + n) (double m n A) (double m n A').
  Proof.
    intros m n A A' H. unfold double. apply kron_compat; [|exact H].
    intros i o Hi Ho. unfold mconj. rewrite (H i o Hi Ho). reflexivity.
  Qed.

  Lemma mconj_mmul : forall k A B i o,
    mconj (mmul k A B) i o = mmul k (mconj A) (mconj B) i o.
  Proof.
    intros. unfold mconj, mmul. rewrite bsum_conj. apply bsum_ext. intros x _. apply conj_mul.
  Qed.

  Lemma double_mmul : forall m k n A B,
    meq (m + m) (n + n) (mmul (k + k) (double m k A) (double k n B)) (double m n (mmul k A B)).
  Proof.
    intros m k n A B. unfold double.
    eapply meq_trans; [apply kron_mixed|].
    apply kron_compat; [|apply meq_refl].
    intros i o _ _. symmetry. apply mconj_mmul.
  Qed.

  Lemma double_id : forall n, meq (n + n) (n + n) (double n n mid) (mid : mat SR).
  Proof.
    intro n. unfold double. eapply meq_trans; [|apply kron_id].
    apply kron_compat; [|apply meq_refl].
    intros i o _ _. unfold mconj, mid. apply conj_delta.
  Qed.

  (* a CQMap on quantum wires only that is the double of A *)
  Definition is_double f (m n : nat) A : Prop :=
    cq_dom f = (0, m)%nat /\ cq_cod f = (0, n)%nat /\ meq (m + m) (n + n) (cq_mat f) (double m n A).

  Lemma cq_tensor_double : forall f g m1 n1 m2 n2 A B,
    is_double f m1 n1 A -> is_double g m2 n2 B ->
    is_double (cq_tensor f g) (m1 + m2) (n1 + n2) (kron m1 n1 A B).
  Proof.
    intros f g m1 n1 m2 n2 A B (Df & Cf & Hf) (Dg & Cg & Hg).
    split; [|split].
    - cbn. rewrite Df, Dg. reflexivity.
    - cbn. rewrite Cf, Cg. reflexivity.
    - intros i o Hi Ho.
      destruct (split_idx6 (cq_dom f) (cq_dom g) i) as (c0 & c1 & q0 & q1 & p0 & p1 & -> & L).
      { rewrite Df, Dg. cbn. lia. }
      destruct (split_idx6 (cq_cod f) (cq_cod g) o) as (d0 & d1 & r0 & r1 & s0 & s1 & -> & L').
      { rewrite Cf, Cg. cbn. lia. }
      destruct L as (L1 & L2 & L3 & L4 & L5 & L6). destruct L' as (L1' & L2' & L3' & L4' & L5' & L6').
      rewrite cq_tensor_at by assumption.
      rewrite Df, Dg in *. rewrite Cf, Cg in *. cbn [fst snd] in *.
      destruct c0; [|discriminate]. destruct c1; [|discriminate].
      destruct d0; [|discriminate]. destruct d1; [|discriminate].
      cbn [app].
      rewrite (Hf (q0 ++ p0) (r0 ++ s0)) by (rewrite app_length; lia).
      rewrite (Hg (q1 ++ p1) (r1 ++ s1)) by (rewrite app_length; lia).
      unfold idx6, double, kron, mconj. cbn [app].
      rewrite !(firstn_app_len _ m1 q0), !(skipn_app_len _ m1 q0) by assumption.
      rewrite !(firstn_app_len _ m2 q1), !(skipn_app_len _ m2 q1) by assumption.
      rewrite !(firstn_app_len _ n1 r0), !(skipn_app_len _ n1 r0) by assumption.
      rewrite !(firstn_app_len _ n2 r1), !(skipn_app_len _ n2 r1) by assumption.
      rewrite !(firstn_app_len _ (m1 + m2) (q0 ++ q1)), !(skipn_app_len _ (m1 + m2) (q0 ++ q1))
        by (rewrite app_length; lia).
      rewrite !(firstn_app_len _ (n1 + n2) (r0 ++ r1)), !(skipn_app_len _ (n1 + n2) (r0 ++ r1))
        by (rewrite app_length; lia).
      rewrite !(firstn_app_len _ m1 q0), !(skipn_app_len _ m1 q0) by assumption.
      rewrite !(firstn_app_len _ n1 r0), !(skipn_app_len _ n1 r0) by assumption.
      rewrite !(firstn_app_len _ m1 p0), !(skipn_app_len _ m1 p0) by assumption.
      rewrite !(firstn_app_len _ n1 s0), !(skipn_app_len _ n1 s0) by assumption.
      rewrite conj_mul. ring.
  Qed.

  Lemma cq_id_double : forall n, is_double (cq_id (0, n)%nat) n n (mid : mat SR).
  Proof.
    intro n. split; [reflexivity | split; [reflexivity|]]. cbn. apply meq_sym, double_id.
  Qed.

  Lemma is_double_compat : forall f m n A A', meq m n A A' -> is_double f m n A -> is_double f m n A'.
  Proof.
    intros f m n A A' H (D & C & M). split; [exact D | split; [exact C|]].
    eapply meq_trans; [exact M | apply double_compat, H].
  Qed.

  (* ---------------------------------------------------------------- pure boxes *)
  Lemma madj_double : forall m n A i o,
    madj (double m n A) i o = double n m (madj A) i o.
  Proof.
    intros. unfold madj, double, kron, mconj. rewrite conj_mul, !conj_invol. reflexivity.
  Qed.

  Lemma cq_swap_double : is_double (cq_swap (0, 1)%nat (0, 1)%nat : cqmap SR) 2 2 (mat_of_flat swap_flat).
  Proof.
    split; [reflexivity | split; [reflexivity|]].
    intros i o Hi Ho. cbn in Hi, Ho. dbits;
      (cbn [cq_swap cq_mat fst snd Nat.add];
       unfold double, kron, swapm, mconj, mat_of_flat, delta; cbn -[rconj];
       rewrite ?(conj_0 SR), ?(conj_1 SR); ring).
  Qed.

  (* cqmap.Functor on a pure box: the double of its pure evaluation *)
  Lemma cq_box_pure : forall b : box SR,
    is_double (cq_box (MPure b)) (box_dom b) (box_cod b) (box_eval b).
  Proof.
    intros [g|g| |bs|bs|z|k].
    - (* one-qubit gate, possibly daggered *)
      unfold cq_box. cbn [mbox_is_dagger]. unfold box_eval, gate1_eval.
      destruct (gate1_is_dagger g) eqn:E.
      + destruct g as [n d|r e]; cbn in E; [|discriminate]. subst d.
        split; [reflexivity | split; [reflexivity|]].
        cbn [undagger gate1_dagger raw_ar cq_dagger cq_mat cq_pure pure_raw box_dom box_cod].
        assert (Hraw : gate1_flat (if self_adjoint1 n then G1Named n true else G1Named n (negb true))
                       = gate1_flat (G1Named n true : gate1 SR))
          by (destruct (self_adjoint1 n); reflexivity).
        rewrite Hraw. intros i o _ _. apply madj_double.
      + split; [reflexivity | split; [reflexivity|]]. cbn. apply meq_refl.
    - split; [reflexivity | split; [reflexivity|]]. cbn. apply meq_refl.
    - apply cq_swap_double.
    - split; [reflexivity | split; [reflexivity|]]. cbn. apply meq_refl.
    - split; [reflexivity | split; [reflexivity|]]. cbn. apply meq_refl.
    - split; [reflexivity | split; [reflexivity|]].
      intros i o _ _. cbn. unfold double, kron, mconj. ring.
    - split; [reflexivity | split; [reflexivity|]].
      intros i o _ _. cbn. unfold double, kron, mconj. ring.
  Qed.

  (* ---------------------------------------------------------------- pure circuits as mixed circuits *)
  Definition embed_layers (ls : list (nat * box SR)) : list (nat * mbox SR) :=
    map (fun l => (fst l, MPure (snd l))) ls.
  (* a pure circuit (Gates.v) read as a circuit on qubit wires *)
  Definition embed (c : circuit SR) : mcircuit SR := MC (qubits_ty (c_dom c)) (embed_layers (c_layers c)).

  Lemma F_ob_qubits : forall n, F_ob (qubits_ty n) = (0, n)%nat.
  Proof.
    intro n. unfold F_ob, nb, nq, qubits_ty.
    induction n as [|n IH]; [reflexivity|]. cbn. injection IH as -> ->. reflexivity.
  Qed.

  Lemma qubits_length : forall n, length (qubits_ty n) = n.
  Proof. intro n. apply repeat_length. Qed.

  Lemma qubits_app : forall m n, qubits_ty m ++ qubits_ty n = qubits_ty (m + n).
  Proof. intros. unfold qubits_ty. symmetry. apply repeat_app. Qed.

  Lemma step_ty_pure : forall w (l : nat * box SR), fst l + box_dom (snd l) <= w ->
    step_ty (qubits_ty w) (fst l, MPure (snd l)) = qubits_ty (step_w w l).
  Proof.
    intros w [off b] H. cbn [fst snd] in *. unfold step_ty, step_w. cbn [fst snd mbox_dom mbox_cod].
    rewrite qubits_length. unfold qubits_ty.
    rewrite firstn_repeat_le by lia. rewrite skipn_repeat. rewrite <- !repeat_app.
    f_equal. lia.
  Qed.

  (* id_l @ F(box) @ id_r for a pure box on qubit wires: the double of the whiskered box *)
  Lemma cq_layer_pure : forall w (l : nat * box SR), fst l + box_dom (snd l) <= w ->
    is_double (cq_layer (qubits_ty w) (fst l, MPure (snd l))) w (step_w w l) (layer_mat l).
  Proof.
    intros w [off b] H. cbn [fst snd] in *. unfold cq_layer. cbn [fst snd mbox_dom].
    rewrite qubits_length. unfold qubits_ty at 1 2.
    rewrite firstn_repeat_le by lia. rewrite skipn_repeat.
    fold (qubits_ty off). fold (qubits_ty (w - (off + box_dom b))). rewrite !F_ob_qubits.
    pose proof (cq_tensor_double _ _ _ _ _ _ _ _
                  (cq_tensor_double _ _ _ _ _ _ _ _ (cq_id_double off) (cq_box_pure b))
                  (cq_id_double (w - (off + box_dom b)))) as X.
    unfold step_w, layer_mat, whisker. cbn [fst snd].
    replace (off + box_dom b + (w - (off + box_dom b)))%nat with w in X by lia.
    replace (off + box_cod b + (w - (off + box_dom b)))%nat with (w - box_dom b + box_cod b)%nat in X by lia.
    exact X.
  Qed.

  Definition fz_ok (fz : cqmap SR -> cqmap SR) : Prop :=
    forall f, cq_dom (fz f) = cq_dom f /\ cq_cod (fz f) = cq_cod f
              /\ meq (uw (cq_dom f)) (uw (cq_cod f)) (cq_mat (fz f)) (cq_mat f).

  Lemma fz_ok_id : fz_ok (fun f => f).
  Proof. intro f. split; [reflexivity | split; [reflexivity | apply meq_refl]]. Qed.

  Lemma fz_ok_freeze : fz_ok (@cq_freeze SR).
  Proof. intro f. split; [reflexivity | split; [reflexivity | apply mfreeze_eq]]. Qed.

  Lemma fz_double : forall fz f m n A, fz_ok fz -> is_double f m n A -> is_double (fz f) m n A.
  Proof.
    intros fz f m n A Hfz (D & C & M). destruct (Hfz f) as (D' & C' & M').
    split; [congruence | split; [congruence|]].
    rewrite D, C in M'. cbn in M'. eapply meq_trans; [exact M' | exact M].
  Qed.

  Lemma cq_then_double : forall f g m k n A B, is_double f m k A -> is_double g k n B ->
    exists h, cq_then f g = Ok h /\ is_double h m n (mmul k A B).
  Proof.
    intros f g m k n A B (Df & Cf & Hf) (Dg & Cg & Hg).
    unfold cq_then. rewrite Cf, Dg. cbn [uw fst snd]. rewrite Nat.eqb_refl.
    eexists. split; [reflexivity|].
    split; [exact Df | split; [exact Cg|]].
    change (meq (m + m) (n + n) (mmul (k + k) (cq_mat f) (cq_mat g)) (double m n (mmul k A B))).
    eapply meq_trans; [apply mmul_compat; [exact Hf | exact Hg] | apply double_mmul].
  Qed.

  Lemma cq_eval_layers_pure : forall fz, fz_ok fz ->
    forall ls n w w2 acc A, run_width w ls = Some w2 -> is_double acc n w A ->
    exists f, cq_eval_layers fz (qubits_ty w) acc (embed_layers ls) = Ok f
              /\ is_double f n w2 (mmul w A (lprod w ls)).
  Proof.
    intros fz Hfz. induction ls as [|l ls IH]; intros n w w2 acc A Hw Hacc.
    - cbn in Hw. injection Hw as <-. exists acc. split; [reflexivity|].
      eapply is_double_compat; [|exact Hacc]. apply meq_sym. cbn. apply mmul_id_r.
    - apply run_width_cons in Hw as [Hfit Hw]. cbn [embed_layers map cq_eval_layers].
      destruct (cq_then_double acc (fz (cq_layer (qubits_ty w) (fst l, MPure (snd l)))) n w
                  (step_w w l) A (layer_mat l) Hacc
                  (fz_double _ _ _ _ _ Hfz (cq_layer_pure w l Hfit))) as (h & -> & Hh).
      cbn [bind]. rewrite step_ty_pure by exact Hfit.
      destruct (IH n (step_w w l) w2 (fz h) _ Hw (fz_double _ _ _ _ _ Hfz Hh)) as (f & Ef & Hf).
      exists f. split; [exact Ef|].
      eapply is_double_compat; [|exact Hf]. cbn [lprod].
      intros i o _ _. apply mmul_assoc.
  Qed.

  (* MIXED EVALUATION OF A PURE CIRCUIT IS THE DOUBLE OF ITS PURE EVALUATION *)
  Lemma mixed_of_pure_is_double : forall c : circuit SR, wf_circuit c = true ->
    exists f, cq_eval (embed c) = Ok f
              /\ cq_dom f = (0, c_dom c)%nat /\ cq_cod f = (0, cod_or0 c)%nat
              /\ meq (c_dom c + c_dom c) (cod_or0 c + cod_or0 c)
                     (cq_mat f) (double (c_dom c) (cod_or0 c) (eval c)).
  Proof.
    intros c Hwf. pose proof (eval_is_lprod SR c Hwf) as Hl.
    unfold wf_circuit, cod_or0, c_cod in *.
    destruct (run_width (c_dom c) (c_layers c)) as [w2|] eqn:E; [|discriminate].
    unfold cq_eval, embed. cbn [m_dom m_layers]. rewrite F_ob_qubits.
    destruct (cq_eval_layers_pure _ fz_ok_freeze (c_layers c) (c_dom c) (c_dom c) w2
                (cq_freeze (cq_id (0, c_dom c)%nat)) mid E
                (fz_double _ _ _ _ _ fz_ok_freeze (cq_id_double (c_dom c)))) as (f & Ef & D & C & M).
    exists f. split; [exact Ef | split; [exact D | split; [exact C|]]].
    eapply meq_trans; [exact M|]. apply double_compat.
    eapply meq_trans; [apply mmul_id_l | apply meq_sym, Hl].
  Qed.

  Lemma mixed_of_pure_is_double_spec : forall c : circuit SR, wf_circuit c = true ->
    exists f, cq_eval_spec (embed c) = Ok f
              /\ cq_dom f = (0, c_dom c)%nat /\ cq_cod f = (0, cod_or0 c)%nat
              /\ meq (c_dom c + c_dom c) (cod_or0 c + cod_or0 c)
                     (cq_mat f) (double (c_dom c) (cod_or0 c) (eval c)).
  Proof.
    intros c Hwf. pose proof (eval_is_lprod SR c Hwf) as Hl.
    unfold wf_circuit, cod_or0, c_cod in *.
    destruct (run_width (c_dom c) (c_layers c)) as [w2|] eqn:E; [|discriminate].
    unfold cq_eval_spec, embed. cbn [m_dom m_layers]. rewrite F_ob_qubits.
    destruct (cq_eval_layers_pure _ fz_ok_id (c_layers c) (c_dom c) (c_dom c) w2
                (cq_id (0, c_dom c)%nat) mid E (cq_id_double (c_dom c))) as (f & Ef & D & C & M).
    exists f. split; [exact Ef | split; [exact D | split; [exact C|]]].
    eapply meq_trans; [exact M|]. apply double_compat.
    eapply meq_trans; [apply mmul_id_l | apply meq_sym, Hl].
  Qed.

  (* ---------------------------------------------------------------- measure: closed form, Born rule *)
  Lemma measure1_true_at : forall i o, length i = 2%nat -> length o = 1%nat ->
    cq_mat (cq_measure1 true : cqmap SR) i o = delta (firstn 1 i) o * delta (skipn 1 i) o.
  Proof.
    intros i o Hi Ho. dbits; cbn; unfold delta; cbn; ring.
  Qed.

  (* CQMap.measure(n qubits): [q, q', c] -> [q = c][q' = c] *)
  Lemma measure_closed_form : forall n,
    cq_dom (cq_measure n true : cqmap SR) = (0, n)%nat /\ cq_cod (cq_measure n true : cqmap SR) = (n, 0)%nat
    /\ forall i o, length i = (n + n)%nat -> length o = n ->
         cq_mat (cq_measure n true : cqmap SR) i o = delta (firstn n i) o * delta (skipn n i) o.
  Proof.
    induction n as [|n IH].
    - split; [reflexivity | split; [reflexivity|]]. intros i o Hi Ho. cbn in Hi. dbits. cbn. unfold delta. cbn. ring.
    - destruct n as [|n].
      + split; [reflexivity | split; [reflexivity|]]. intros i o Hi Ho. apply measure1_true_at; assumption.
      + destruct IH as (D & C & M).
        change (cq_measure (S (S n)) true : cqmap SR)
          with (cq_tensor (cq_measure1 true) (cq_measure (S n) true) : cqmap SR).
        split; [cbn [cq_tensor cq_dom]; rewrite D; reflexivity|].
        split; [cbn [cq_tensor cq_cod]; rewrite C; reflexivity|].
        intros i o Hi Ho.
        destruct (split_idx6 (cq_dom (cq_measure1 true : cqmap SR)) (cq_dom (cq_measure (S n) true : cqmap SR)) i)
          as (c0 & c1 & q0 & q1 & p0 & p1 & -> & L1 & L2 & L3 & L4 & L5 & L6).
        { rewrite D. cbn. lia. }
        destruct (split_idx6 (cq_cod (cq_measure1 true : cqmap SR)) (cq_cod (cq_measure (S n) true : cqmap SR)) o)
          as (d0 & d1 & r0 & r1 & s0 & s1 & -> & L1' & L2' & L3' & L4' & L5' & L6').
        { rewrite C. cbn. lia. }
        rewrite cq_tensor_at by assumption.
        rewrite D, C in *. cbn [cq_measure1 cq_dom cq_cod fst snd] in *.
        destruct c0; [|discriminate]. destruct c1; [|discriminate].
        destruct r0; [|discriminate]. destruct r1; [|discriminate].
        destruct s0; [|discriminate]. destruct s1; [|discriminate].
        cbn [app]. rewrite !app_nil_r.
        rewrite (M (q1 ++ p1) d1) by (rewrite ?app_length; lia).
        pose proof (measure1_true_at (q0 ++ p0) d0) as M1. cbn [cq_measure1] in M1.
        rewrite M1 by (rewrite ?app_length; lia).
        unfold idx6. cbn [app]. rewrite !app_nil_r.
        rewrite (firstn_app_len _ 1 q0), (skipn_app_len _ 1 q0) by assumption.
        rewrite (firstn_app_len _ (S n) q1), (skipn_app_len _ (S n) q1) by assumption.
        rewrite (firstn_app_len _ (S (S n)) (q0 ++ q1)), (skipn_app_len _ (S (S n)) (q0 ++ q1))
          by (rewrite app_length; lia).
        rewrite (delta_app SR q0 q1 d0 d1) by lia.
        rewrite (delta_app SR p0 p1 d0 d1) by lia. ring.
  Qed.

  (* BORN RULE: measuring the (doubled) state A gives the squared magnitudes of its amplitudes *)
  Lemma measure_is_born : forall n A o, length o = n ->
    mmul (n + n) (double 0 n A) (cq_mat (cq_measure n true)) [] o = rconj (A [] o) * A [] o.
  Proof.
    intros n A o Ho. destruct (measure_closed_form n) as (_ & _ & M).
    unfold mmul. rewrite bsum_app.
    rewrite (bsum_ext SR n _ (fun a => (rconj (A [] a) * delta a o) * (A [] o))).
    - rewrite bsum_scale_r. rewrite (bsum_delta_r SR n o (fun a => rconj (A [] a))) by exact Ho. reflexivity.
    - intros a Ha.
      rewrite (bsum_ext SR n _ (fun b => (rconj (A [] a) * delta a o) * (A [] b * delta b o))).
      + rewrite bsum_scale_l. rewrite (bsum_delta_r SR n o (fun b => A [] b)) by exact Ho. reflexivity.
      + intros b Hb. rewrite M by (rewrite ?app_length; lia).
        unfold double, kron, mconj. cbn [firstn skipn].
        rewrite (firstn_app_len _ n a), (skipn_app_len _ n a) by exact Ha. ring.
  Qed.

  (* ---------------------------------------------------------------- discard: trace, marginals *)
  (* sum over the classical outputs and over the diagonal of the quantum outputs *)
  Definition tr_out (c q : nat) (rho : bits -> SR) : SR :=
    bsum c (fun x => bsum q (fun y => rho (x ++ y ++ y))).

  (* composing with discard = summing the bits / tracing the qubits *)
  Lemma discard_is_trace : forall (a : cq) (F : mat SR) i,
    mmul (uw a) F (cq_mat (cq_discard a)) i [] = tr_out (fst a) (snd a) (F i).
  Proof.
    intros [c q] F i. unfold mmul, tr_out, uw. cbn [fst snd cq_discard cq_mat].
    rewrite bsum_app. apply bsum_ext. intros x Hx.
    rewrite bsum_app. apply bsum_ext. intros y Hy.
    rewrite (bsum_ext SR q _ (fun z => F i (x ++ y ++ z) * delta z y)).
    - apply (bsum_delta_r SR q y (fun z => F i (x ++ y ++ z))). exact Hy.
    - intros z Hz. rewrite (skipn_app_len _ c x) by exact Hx.
      rewrite (firstn_app_len _ q y), (skipn_app_len _ q y) by exact Hy.
      rewrite (delta_sym SR y z). reflexivity.
  Qed.

  (* discarding a classical register is the marginal distribution *)
  Lemma discard_is_marginal : forall c (F : mat SR) i,
    mmul (uw (c, 0)%nat) F (cq_mat (cq_discard (c, 0)%nat)) i [] = bsum c (fun x => F i x).
  Proof.
    intros c F i. rewrite discard_is_trace. unfold tr_out. cbn [fst snd bsum].
    apply bsum_ext. intros x _. rewrite app_nil_r. reflexivity.
  Qed.

  (* discarding the doubled state A: the sum of the squared magnitudes (the trace of |A><A|) *)
  Lemma discard_pure_is_norm : forall n A,
    mmul (uw (0, n)%nat) (double 0 n A) (cq_mat (cq_discard (0, n)%nat)) [] []
    = bsum n (fun y => rconj (A [] y) * A [] y).
  Proof.
    intros n A. rewrite discard_is_trace. unfold tr_out. cbn [fst snd bsum app].
    apply bsum_ext. intros y Hy. unfold double, kron, mconj. cbn [firstn skipn].
    rewrite (firstn_app_len _ n y), (skipn_app_len _ n y) by exact Hy. reflexivity.
  Qed.

  (* ---------------------------------------------------------------- adjoints *)
  (* Encode = Measure^dagger and MixedState = Discard^dagger, for every variant,
     and with the transposed types *)
  Lemma encode_mixedstate_are_adjoints :
    (forall n c r, cq_box (MEncode n c r : mbox SR) = cq_dagger (cq_box (MMeasure n c r))
                   /\ mbox_dom (MEncode n c r : mbox SR) = mbox_cod (MMeasure n c r : mbox SR)
                   /\ mbox_cod (MEncode n c r : mbox SR) = mbox_dom (MMeasure n c r : mbox SR))
    /\ (forall t, cq_box (MMixedState t : mbox SR) = cq_dagger (cq_box (MDiscard t))
                  /\ mbox_dom (MMixedState t : mbox SR) = mbox_cod (MDiscard t : mbox SR)
                  /\ mbox_cod (MMixedState t : mbox SR) = mbox_dom (MDiscard t : mbox SR)).
  Proof. split; intros; repeat split; reflexivity. Qed.

  (* the entries: Encode(n)[c ; q q'] = [q = c][q' = c] *)
  Lemma encode_closed_form : forall n i o, length i = n -> length o = (n + n)%nat ->
    cq_mat (cq_box (MEncode n true false : mbox SR)) i o = delta (firstn n o) i * delta (skipn n o) i.
  Proof.
    intros n i o Hi Ho. destruct (measure_closed_form n) as (_ & _ & M).
    cbn [cq_box mbox_is_dagger raw_ar ar_measure cq_dagger cq_mat]. unfold madj.
    rewrite M by assumption. rewrite conj_mul, !conj_delta. reflexivity.
  Qed.

  (* MixedState(t)[ ; c q q'] = [q = q'] *)
  Lemma mixedstate_closed_form : forall t i o,
    cq_mat (cq_box (MMixedState t : mbox SR)) i o
    = delta (firstn (nq t) (skipn (nb t) o)) (skipn (nq t) (skipn (nb t) o)).
  Proof.
    intros. cbn [cq_box mbox_is_dagger raw_ar cq_dagger cq_mat cq_discard F_ob fst snd]. unfold madj.
    apply conj_delta.
  Qed.

  (* ---------------------------------------------------------------- types of the images *)
  Lemma F_ob_app : forall a b, F_ob (a ++ b) = cq_add (F_ob a) (F_ob b).
  Proof.
    intros a b. unfold F_ob, cq_add, nb, nq. cbn [fst snd].
    rewrite !filter_app, !app_length. reflexivity.
  Qed.

  Lemma F_ob_bits : forall n, F_ob (bits_ty n) = (n, 0)%nat.
  Proof.
    intro n. unfold F_ob, nb, nq, bits_ty.
    induction n as [|n IH]; [reflexivity|]. cbn. injection IH as -> ->. reflexivity.
  Qed.

  Lemma measure_types : forall n d,
    cq_dom (cq_measure n d : cqmap SR) = (0, n)%nat
    /\ cq_cod (cq_measure n d : cqmap SR) = (n, if d then 0 else n)%nat.
  Proof.
    induction n as [|n IH]; intro d.
    - destruct d; split; reflexivity.
    - destruct n as [|n]; [destruct d; split; reflexivity|].
      destruct (IH d) as (D & C).
      change (cq_measure (S (S n)) d : cqmap SR)
        with (cq_tensor (cq_measure1 d) (cq_measure (S n) d) : cqmap SR).
      cbn [cq_tensor cq_dom cq_cod]. rewrite D, C. destruct d; split; reflexivity.
  Qed.

  (* the image of a box has the image of its declared types: for EVERY box, in
     particular for every variant of Measure / Encode (former F9, F9b) *)
  Lemma cq_box_types : forall b : mbox SR,
    cq_dom (cq_box b) = F_ob (mbox_dom b) /\ cq_cod (cq_box b) = F_ob (mbox_cod b).
  Proof.
    intros [p|m n data dag| | |bs dag|t|t|n d o|n c r|z|x y].
    - destruct (cq_box_pure p) as (D & C & _). cbn [mbox_dom mbox_cod].
      rewrite !F_ob_qubits. split; assumption.
    - cbn [mbox_dom mbox_cod]. rewrite !F_ob_bits. destruct dag; split; reflexivity.
    - split; reflexivity.
    - split; reflexivity.
    - cbn [mbox_dom mbox_cod]. destruct dag; rewrite ?F_ob_bits; split; reflexivity.
    - split; reflexivity.
    - split; reflexivity.
    - destruct (measure_types n d) as (D & C).
      cbn [cq_box mbox_is_dagger raw_ar ar_measure mbox_dom mbox_cod].
      rewrite !F_ob_app, !F_ob_qubits.
      destruct o; unfold ar_measure; cbn [cq_tensor cq_dom cq_cod cq_discard]; rewrite D, C;
        destruct d; rewrite ?F_ob_qubits, ?F_ob_bits; unfold cq_add, F_ob, nb, nq;
        cbn [fst snd filter length Nat.add]; rewrite ?Nat.add_0_r; split; reflexivity.
    - destruct (measure_types n c) as (D & C).
      cbn [cq_box mbox_is_dagger raw_ar ar_measure mbox_dom mbox_cod cq_dagger cq_dom cq_cod].
      rewrite !F_ob_app, !F_ob_qubits.
      destruct r; unfold ar_measure; cbn [cq_tensor cq_dom cq_cod cq_discard]; rewrite D, C;
        destruct c; rewrite ?F_ob_qubits, ?F_ob_bits; unfold cq_add, F_ob, nb, nq;
        cbn [fst snd filter length Nat.add]; rewrite ?Nat.add_0_r; split; reflexivity.
    - split; reflexivity.
    - destruct x, y; split; reflexivity.
  Qed.
End CQLemmas.

Arguments double {_}. Arguments is_double {_}. Arguments embed_layers {_}. Arguments embed {_}.
Arguments fz_ok {_}. Arguments tr_out {_}.


(* ------------------------------------------------------------------ trace preservation *)
Section TracePreservation.
  Variable SR : StarRing.
  Add Ring SRr4 : (SR_ring SR).
  Local Open Scope sr_scope.
  Implicit Types (A B : mat SR) (f g : cqmap SR).

  (* the entries of CQMap.discard(a) *)
  Definition disc (a : cq) (i : bits) : SR :=
    delta (firstn (snd a) (skipn (fst a) i)) (skipn (snd a) (skipn (fst a) i)).

  (* f is trace-preserving:  f >> discard = discard  (entry by entry) *)
  Definition tp f : Prop :=
    forall i, length i = uw (cq_dom f) ->
      tr_out (fst (cq_cod f)) (snd (cq_cod f)) (cq_mat f i) = disc (cq_dom f) i.

  Lemma tp_is_discard_law : forall f, tp f ->
    forall i, length i = uw (cq_dom f) ->
      mmul (uw (cq_cod f)) (cq_mat f) (cq_mat (cq_discard (cq_cod f))) i []
      = cq_mat (cq_discard (cq_dom f)) i [].
  Proof. intros f H i Hi. rewrite discard_is_trace. apply H, Hi. Qed.

  Lemma tr_out_ext : forall c q (r1 r2 : bits -> SR),
    (forall o, length o = (c + (q + q))%nat -> r1 o = r2 o) -> tr_out c q r1 = tr_out c q r2.
  Proof.
    intros c q r1 r2 H. unfold tr_out. apply bsum_ext. intros x Hx. apply bsum_ext. intros y Hy.
    apply H. rewrite !app_length. lia.
  Qed.

  Lemma tp_compat : forall f g, cq_dom g = cq_dom f -> cq_cod g = cq_cod f ->
    meq (uw (cq_dom f)) (uw (cq_cod f)) (cq_mat g) (cq_mat f) -> tp f -> tp g.
  Proof.
    intros f g D C M H i Hi. rewrite D, C in *. rewrite <- (H i Hi).
    apply tr_out_ext. intros o Ho. apply M; [exact Hi | exact Ho].
  Qed.

  Lemma tp_discard : forall a, tp (cq_discard a : cqmap SR).
  Proof.
    intros a i Hi. unfold tr_out. cbn [cq_discard cq_cod cq_dom cq_mat fst snd bsum]. reflexivity.
  Qed.

  Lemma tp_id : forall a, tp (cq_id a : cqmap SR).
  Proof.
    intros [c q] i Hi. cbn [cq_id cq_dom cq_cod cq_mat fst snd uw] in *.
    destruct (split3 _ c q q i Hi) as (x0 & y1 & y2 & -> & L0 & L1 & L2).
    unfold tr_out, disc, mid. cbn [fst snd].
    rewrite (skipn_app_len _ c x0) by exact L0.
    rewrite (firstn_app_len _ q y1), (skipn_app_len _ q y1) by exact L1.
    rewrite (bsum_ext SR c _ (fun x => delta x0 x * delta y1 y2)).
    - rewrite bsum_scale_r.
      rewrite (bsum_ext SR c _ (fun x => delta x0 x * 1)) by (intros; ring).
      rewrite (bsum_delta_l SR c x0 (fun _ => 1)) by exact L0. ring.
    - intros x Hx.
      rewrite (bsum_ext SR q _ (fun y => (delta x0 x * delta y2 y) * delta y y1)).
      + rewrite (bsum_delta_r SR q y1 (fun y => delta x0 x * delta y2 y)) by exact L1.
        rewrite (delta_sym SR y2 y1). reflexivity.
      + intros y Hy. rewrite (delta_app SR x0 (y1 ++ y2) x (y ++ y)) by lia.
        rewrite (delta_app SR y1 y2 y y) by lia. rewrite (delta_sym SR y1 y). ring.
  Qed.

  (* linearity of the trace *)
  Lemma tr_out_mmul : forall c q w A B i,
    tr_out c q (mmul w A B i) = bsum w (fun k => A i k * tr_out c q (B k)).
  Proof.
    intros c q w A B i. unfold tr_out, mmul.
    rewrite (bsum_ext SR c _ (fun x => bsum w (fun k => A i k * bsum q (fun y => B k (x ++ y ++ y))))).
    - rewrite bsum_swap. apply bsum_ext. intros k _. apply bsum_scale_l.
    - intros x _. rewrite bsum_swap. apply bsum_ext. intros k _. apply bsum_scale_l.
  Qed.

  Lemma tp_then : forall f g, cq_cod f = cq_dom g -> tp f -> tp g ->
    exists h, cq_then f g = Ok h /\ cq_dom h = cq_dom f /\ cq_cod h = cq_cod g /\ tp h.
  Proof.
    intros f g E Hf Hg. unfold cq_then. rewrite E, Nat.eqb_refl.
    eexists. split; [reflexivity|]. split; [reflexivity|]. split; [reflexivity|].
    intros i Hi. cbn [cq_dom cq_cod cq_mat] in *.
    rewrite tr_out_mmul.
    rewrite (bsum_ext SR _ _ (fun k => cq_mat f i k * cq_mat (cq_discard (cq_dom g)) k [])).
    - rewrite <- E. rewrite <- (Hf i Hi). rewrite <- discard_is_trace. reflexivity.
    - intros k Hk. rewrite (Hg k Hk). reflexivity.
  Qed.

  Lemma disc_idx6 : forall (a b : cq) c0 c1 q0 q1 p0 p1,
    length c0 = fst a -> length c1 = fst b -> length q0 = snd a -> length q1 = snd b ->
    length p0 = snd a -> length p1 = snd b ->
    disc (cq_add a b) (idx6 c0 c1 q0 q1 p0 p1)
    = disc a (c0 ++ q0 ++ p0) * disc b (c1 ++ q1 ++ p1).
  Proof.
    intros [ca qa] [cb qb] c0 c1 q0 q1 p0 p1 H1 H2 H3 H4 H5 H6. cbn [fst snd] in *.
    unfold disc, cq_add, idx6. cbn [fst snd].
    rewrite (skipn_app_len _ (ca + cb) (c0 ++ c1)) by (rewrite app_length; lia).
    rewrite (firstn_app_len _ (qa + qb) (q0 ++ q1)), (skipn_app_len _ (qa + qb) (q0 ++ q1))
      by (rewrite app_length; lia).
    rewrite (skipn_app_len _ ca c0), (skipn_app_len _ cb c1) by assumption.
    rewrite (firstn_app_len _ qa q0), (skipn_app_len _ qa q0) by assumption.
    rewrite (firstn_app_len _ qb q1), (skipn_app_len _ qb q1) by assumption.
    apply delta_app. lia.
  Qed.

  Lemma tp_tensor : forall f g, tp f -> tp g -> tp (cq_tensor f g).
  Proof.
    intros f g Hf Hg i Hi. cbn [cq_tensor cq_dom cq_cod] in Hi |- *.
    destruct (split_idx6 (cq_dom f) (cq_dom g) i Hi)
      as (c0 & c1 & q0 & q1 & p0 & p1 & -> & L1 & L2 & L3 & L4 & L5 & L6).
    rewrite disc_idx6 by assumption.
    rewrite <- (Hf (c0 ++ q0 ++ p0)) by (unfold uw; rewrite !app_length; lia).
    rewrite <- (Hg (c1 ++ q1 ++ p1)) by (unfold uw; rewrite !app_length; lia).
    unfold tr_out. cbn [cq_add fst snd].
    set (F := fun x0 y0 => cq_mat f (c0 ++ q0 ++ p0) (x0 ++ y0 ++ y0)).
    set (G := fun x1 y1 => cq_mat g (c1 ++ q1 ++ p1) (x1 ++ y1 ++ y1)).
    rewrite bsum_app.
    transitivity (bsum (fst (cq_cod f)) (fun x0 => bsum (snd (cq_cod f)) (fun y0 => F x0 y0)
                    * bsum (fst (cq_cod g)) (fun x1 => bsum (snd (cq_cod g)) (fun y1 => G x1 y1)))).
    - apply bsum_ext. intros x0 Hx0.
      rewrite <- bsum_scale_l. apply bsum_ext. intros x1 Hx1.
      rewrite bsum_app. rewrite <- bsum_prod.
      apply bsum_ext. intros y0 Hy0. apply bsum_ext. intros y1 Hy1.
      change ((x0 ++ x1) ++ (y0 ++ y1) ++ y0 ++ y1) with (idx6 x0 x1 y0 y1 y0 y1).
      rewrite cq_tensor_at by assumption. reflexivity.
    - apply bsum_scale_r.
  Qed.

  (* ------------------------------------------------------------ the boxes *)
  (* the double of an isometry (unitaries, Ket) *)
  Lemma tp_of_double : forall f m n A, is_double f m n A -> isometry m n A -> tp f.
  Proof.
    intros f m n A (D & C & M) Hiso i Hi. rewrite D, C in *. cbn [fst snd uw Nat.add] in *.
    destruct (split2 _ m m i Hi) as (i1 & i2 & -> & L1 & L2).
    unfold tr_out, disc. cbn [bsum app skipn fst snd].
    rewrite (firstn_app_len _ m i1), (skipn_app_len _ m i1) by exact L1.
    rewrite (delta_sym SR i1 i2).
    transitivity (mmul n A (madj A) i2 i1); [|exact (Hiso i2 i1 L2 L1)].
    unfold mmul, madj. apply bsum_ext. intros y Hy.
    rewrite M by (rewrite ?app_length; lia).
    unfold double, kron, mconj.
    rewrite (firstn_app_len _ m i1), (skipn_app_len _ m i1) by exact L1.
    rewrite (firstn_app_len _ n y), (skipn_app_len _ n y) by exact Hy. ring.
  Qed.

  (* a stochastic classical gate: every row of its [in, out] matrix sums to 1 *)
  Definition stochastic (m n : nat) A : Prop := forall i, length i = m -> bsum n (fun o => A i o) = 1.

  Lemma tp_classical : forall m n A, stochastic m n A -> tp (cq_classical m n A).
  Proof.
    intros m n A H i Hi. assert (Hm : length i = m) by (cbn in Hi; lia).
    cbn [cq_classical cq_dom cq_cod cq_mat fst snd].
    unfold tr_out, disc. cbn [bsum fst snd firstn skipn].
    rewrite (bsum_ext SR n _ (fun o => A i o)) by (intros x _; rewrite app_nil_r; reflexivity).
    rewrite H by exact Hm. rewrite skipn_all2 by lia. unfold delta. reflexivity.
  Qed.

  Lemma tp_measure : forall n, tp (cq_measure n true : cqmap SR).
  Proof.
    intros n i Hi. destruct (measure_closed_form SR n) as (D & C & M). rewrite D, C in *.
    cbn [fst snd uw Nat.add] in *. unfold tr_out, disc. cbn [bsum fst snd skipn].
    rewrite (bsum_ext SR n _ (fun x => delta (firstn n i) x * delta (skipn n i) x)).
    - rewrite (bsum_delta_l SR n (firstn n i) (fun x => delta (skipn n i) x)).
      + apply delta_sym.
      + rewrite firstn_length. lia.
    - intros x Hx. rewrite app_nil_r. apply M; [exact Hi | exact Hx].
  Qed.

  Lemma tp_encode : forall n, tp (cq_box (MEncode n true false : mbox SR)).
  Proof.
    intros n i Hi. destruct (cq_box_types SR (MEncode n true false)) as (D & C).
    cbn [mbox_dom mbox_cod app] in D, C. rewrite app_nil_r in C.
    rewrite F_ob_bits in D. rewrite F_ob_qubits in C. rewrite D in Hi.
    assert (Hn : length i = n) by (cbn in Hi; lia).
    rewrite D, C. unfold tr_out, disc. cbn [bsum fst snd firstn app].
    rewrite (bsum_ext SR n _ (fun y => delta i y * delta y i)).
    - rewrite (bsum_delta_l SR n i (fun y => delta y i)) by exact Hn.
      rewrite delta_refl. cbn [skipn]. rewrite skipn_all2 by lia. unfold delta. reflexivity.
    - intros y Hy. rewrite encode_closed_form by (rewrite ?app_length; lia).
      rewrite (firstn_app_len _ n y), (skipn_app_len _ n y) by exact Hy.
      rewrite (delta_sym SR i y). reflexivity.
  Qed.

  (* the entries of the non-destructive measurement on indices given by their parts *)
  Lemma measure1_false_at : forall q p c r s,
    length q = 1%nat -> length p = 1%nat -> length c = 1%nat -> length r = 1%nat -> length s = 1%nat ->
    cq_mat (cq_measure1 false : cqmap SR) (q ++ p) (c ++ r ++ s)
    = delta q c * delta p c * (delta r c * delta s c).
  Proof.
    intros q p c r s Hq Hp Hc Hr Hs. dbits; cbn; unfold delta; cbn; ring.
  Qed.

  (* CQMap.measure(n qubits, destructive=False)[q q' ; c r r'] = [q = c][q' = c][r = c][r' = c] *)
  Lemma measure_nd_closed_form : forall n q p c r s,
    length q = n -> length p = n -> length c = n -> length r = n -> length s = n ->
    cq_mat (cq_measure n false : cqmap SR) (q ++ p) (c ++ r ++ s)
    = delta q c * delta p c * (delta r c * delta s c).
  Proof.
    induction n as [|n IH]; intros q p c r s Hq Hp Hc Hr Hs.
    - dbits. cbn. unfold delta. cbn. ring.
    - destruct n as [|n]; [apply measure1_false_at; assumption|].
      destruct (measure_types SR (S n) false) as (D & C).
      change (cq_measure (S (S n)) false : cqmap SR)
        with (cq_tensor (cq_measure1 false) (cq_measure (S n) false) : cqmap SR).
      destruct (split2 _ 1 (S n) q Hq) as (q0 & q1 & -> & Lq0 & Lq1).
      destruct (split2 _ 1 (S n) p Hp) as (p0 & p1 & -> & Lp0 & Lp1).
      destruct (split2 _ 1 (S n) c Hc) as (c0 & c1 & -> & Lc0 & Lc1).
      destruct (split2 _ 1 (S n) r Hr) as (r0 & r1 & -> & Lr0 & Lr1).
      destruct (split2 _ 1 (S n) s Hs) as (s0 & s1 & -> & Ls0 & Ls1).
      change ((q0 ++ q1) ++ p0 ++ p1) with (idx6 [] [] q0 q1 p0 p1).
      change ((c0 ++ c1) ++ (r0 ++ r1) ++ s0 ++ s1) with (idx6 c0 c1 r0 r1 s0 s1).
      cbn [fst snd] in C.
      rewrite cq_tensor_at by (rewrite ?D, ?C; cbn [cq_measure1 cq_dom cq_cod fst snd length]; first [assumption | reflexivity]).
      cbn [app].
      rewrite (measure1_false_at q0 p0 c0 r0 s0) by assumption.
      rewrite (IH q1 p1 c1 r1 s1) by assumption.
      rewrite (delta_app SR q0 q1 c0 c1), (delta_app SR p0 p1 c0 c1),
              (delta_app SR r0 r1 c0 c1), (delta_app SR s0 s1 c0 c1) by lia.
      ring.
  Qed.

  Lemma tp_measure_nd : forall n, tp (cq_measure n false : cqmap SR).
  Proof.
    intros n i Hi. destruct (measure_types SR n false) as (D & C). rewrite D, C in *.
    cbn [fst snd uw Nat.add] in *.
    destruct (split2 _ n n i Hi) as (q & p & -> & Lq & Lp).
    unfold tr_out, disc. cbn [fst snd skipn].
    rewrite (firstn_app_len _ n q), (skipn_app_len _ n q) by exact Lq.
    rewrite (bsum_ext SR n _ (fun x => delta q x * delta p x)).
    - rewrite (bsum_delta_l SR n q (fun x => delta p x)) by exact Lq. apply delta_sym.
    - intros x Hx.
      rewrite (bsum_ext SR n _ (fun y => (delta q x * delta p x * delta y x) * delta y x)).
      + rewrite (bsum_delta_r SR n x (fun y => delta q x * delta p x * delta y x)) by exact Hx.
        rewrite delta_refl. ring.
      + intros y Hy. rewrite measure_nd_closed_form by assumption. ring.
  Qed.

  (* ------------------------------------------------------------ the class of boxes *)
  Lemma ket_isometry : forall bs, isometry 0 (length bs) (box_eval (BKet bs : box SR)).
  Proof.
    intros bs i o Hi Ho. destruct i; [|discriminate]. destruct o; [|discriminate].
    unfold mmul, madj, mid. cbn [box_eval app].
    rewrite (bsum_ext SR _ _ (fun x => delta x bs * delta x bs))
      by (intros; rewrite conj_delta; reflexivity).
    rewrite (bsum_delta_r SR (length bs) bs (fun x => delta x bs)) by reflexivity.
    rewrite delta_refl. unfold delta. reflexivity.
  Qed.

  Lemma unitary_isometry : forall n (U : mat SR), unitary n U -> isometry n n U.
  Proof. intros n U [H _]. exact H. Qed.

  (* preparations, unitaries, measurements (destructive or not, overriding bits or not),
     discards, constructive encodings, swaps, stochastic classical gates *)
  Definition tp_box (b : mbox SR) : Prop :=
    match b with
    | MPure p => (is_gate p = true /\ phases_ok p) \/ (exists bs, p = BKet bs)
    | MClassical m n data dag => dag = false /\ stochastic m n (mat_of_flat data)
    | MCopy => True
    | MBits _ dag => dag = false
    | MDiscard _ => True
    | MMeasure _ _ _ => True
    | MEncode _ c r => c = true /\ r = false
    | MSwap _ _ => True
    | _ => False
    end.

  Lemma tp_swap : forall x y, tp (cq_swap (F_ob [x]) (F_ob [y]) : cqmap SR).
  Proof.
    intros x y i Hi. destruct x, y; cbn in Hi; dbits;
      (unfold tr_out, disc; cbn [cq_swap cq_dom cq_cod cq_mat F_ob nb nq filter is_b is_q length
                                  fst snd cq_add Nat.add bsum app];
       unfold kron, swapm, delta; cbn; ring).
  Qed.

  Lemma tp_cq_box : forall b, tp_box b -> tp (cq_box b).
  Proof.
    intros [p|m n data dag| | |bs dag|t|t|n d o|n c r|z|x y] H; cbn [tp_box] in H; try contradiction.
    - destruct H as [[Hg Hp]|[bs ->]].
      + destruct (box_unitary SR p Hg Hp) as [Hcd Hu].
        apply (tp_of_double _ _ _ _ (cq_box_pure SR p)). rewrite Hcd. apply unitary_isometry, Hu.
      + apply (tp_of_double _ _ _ _ (cq_box_pure SR (BKet bs))). apply ket_isometry.
    - destruct H as [-> Hs]. apply tp_classical, Hs.
    - apply tp_classical. intros i Hi. dbits; cbn; unfold mat_of_flat; cbn; ring.
    - subst dag. apply tp_classical. intros i Hi. destruct i; [|discriminate]. cbn [app].
      rewrite (bsum_ext SR _ _ (fun o => 1 * delta o bs)) by (intros; ring).
      apply (bsum_delta_r SR (length bs) bs (fun _ => 1)). reflexivity.
    - apply tp_discard.
    - assert (Hm : tp (cq_measure n d : cqmap SR))
        by (destruct d; [apply tp_measure | apply tp_measure_nd]).
      cbn [cq_box mbox_is_dagger raw_ar]. unfold ar_measure. destruct o.
      + apply tp_tensor; [exact Hm | apply tp_discard].
      + exact Hm.
    - destruct H as [-> ->]. apply tp_encode.
    - apply tp_swap.
  Qed.

  (* ------------------------------------------------------------ layers and circuits *)
  Lemma cty_eqb_eq : forall a b : cty, cty_eqb a b = true -> a = b.
  Proof.
    induction a as [|x a IH]; destruct b as [|y b]; cbn; intro H; try discriminate; [reflexivity|].
    apply andb_prop in H as [H1 H2]. f_equal; [destruct x, y; try discriminate; reflexivity | apply IH, H2].
  Qed.

  Lemma fits_split : forall scan (l : nat * mbox SR), fits scan l = true ->
    scan = firstn (fst l) scan ++ mbox_dom (snd l) ++ skipn (fst l + length (mbox_dom (snd l))) scan.
  Proof.
    intros scan [off b] H. unfold fits in H. cbn [fst snd] in *.
    apply andb_prop in H as [_ H]. apply cty_eqb_eq in H.
    set (d := mbox_dom b) in *. rewrite skipn_add.
    transitivity (firstn off scan ++ firstn (length d) (skipn off scan)
                  ++ skipn (length d) (skipn off scan)).
    - rewrite !firstn_skipn. reflexivity.
    - rewrite H. reflexivity.
  Qed.

  Lemma cq_add_assoc : forall a b c : cq, cq_add (cq_add a b) c = cq_add a (cq_add b c).
  Proof. intros [] [] []. unfold cq_add. cbn [fst snd]. f_equal; lia. Qed.

  Lemma cq_layer_types : forall scan (l : nat * mbox SR), fits scan l = true ->
    cq_dom (cq_layer scan l) = F_ob scan /\ cq_cod (cq_layer scan l) = F_ob (step_ty scan l).
  Proof.
    intros scan l H. destruct (cq_box_types SR (snd l)) as (D & C).
    unfold cq_layer, step_ty. cbn [cq_tensor cq_dom cq_cod cq_id]. rewrite D, C. split.
    - rewrite (fits_split scan l H) at 3. rewrite !F_ob_app. apply cq_add_assoc.
    - rewrite !F_ob_app. apply cq_add_assoc.
  Qed.

  Lemma tp_layer : forall scan (l : nat * mbox SR), tp_box (snd l) -> tp (cq_layer scan l).
  Proof.
    intros scan l H. unfold cq_layer.
    apply tp_tensor; [apply tp_tensor; [apply tp_id | apply tp_cq_box, H] | apply tp_id].
  Qed.

  Lemma tp_fz : forall fz f, fz_ok fz -> tp f -> tp (fz f).
  Proof.
    intros fz f Hfz H. destruct (Hfz f) as (D & C & M). apply (tp_compat f); assumption.
  Qed.

  Lemma tp_eval_layers : forall fz, fz_ok fz ->
    forall ls scan t acc, run_ty scan ls = Some t ->
      (forall l, In l ls -> tp_box (snd l)) -> tp acc -> cq_cod acc = F_ob scan ->
      exists f, cq_eval_layers fz scan acc ls = Ok f /\ tp f
                /\ cq_dom f = cq_dom acc /\ cq_cod f = F_ob t.
  Proof.
    intros fz Hfz. induction ls as [|l ls IH]; intros scan t acc Hrun Hall Hacc Hcod.
    - cbn in Hrun. injection Hrun as <-. exists acc. auto.
    - cbn [run_ty] in Hrun. destruct (fits scan l) eqn:Hfit; [|discriminate].
      destruct (cq_layer_types scan l Hfit) as (DL & CL).
      destruct (Hfz (cq_layer scan l)) as (DF & CF & _).
      destruct (tp_then acc (fz (cq_layer scan l))) as (h & Eh & Dh & Ch & Th).
      { rewrite DF, DL. exact Hcod. }
      { exact Hacc. }
      { apply tp_fz; [exact Hfz | apply tp_layer, Hall; left; reflexivity]. }
      cbn [cq_eval_layers]. rewrite Eh. cbn [bind].
      destruct (Hfz h) as (DH & CH & _).
      destruct (IH (step_ty scan l) t (fz h) Hrun) as (f & Ef & Tf & Df & Cf).
      { intros l' Hl'. apply Hall. right. exact Hl'. }
      { apply tp_fz; assumption. }
      { rewrite CH, Ch, CF, CL. reflexivity. }
      exists f. split; [exact Ef|]. split; [exact Tf|]. split; [|exact Cf].
      rewrite Df, DH, Dh. reflexivity.
  Qed.

  (* TRACE PRESERVATION of circuits made of boxes of the class *)
  Definition tp_circuit (c : mcircuit SR) : Prop := forall l, In l (m_layers c) -> tp_box (snd l).

  Lemma trace_preserving : forall c : mcircuit SR, wf_mcircuit c = true -> tp_circuit c ->
    exists f, cq_eval c = Ok f /\ cq_dom f = F_ob (m_dom c) /\ cq_cod f = F_ob (cod_or_nil c) /\ tp f.
  Proof.
    intros c Hwf Hc. unfold wf_mcircuit, cod_or_nil, m_cod in *.
    destruct (run_ty (m_dom c) (m_layers c)) as [t|] eqn:E; [|discriminate].
    destruct (tp_eval_layers _ (fz_ok_freeze SR) (m_layers c) (m_dom c) t
                (cq_freeze (cq_id (F_ob (m_dom c)))) E Hc) as (f & Ef & Tf & Df & Cf).
    { apply tp_fz; [apply fz_ok_freeze | apply tp_id]. }
    { reflexivity. }
    exists f. split; [exact Ef|]. split; [exact Df|]. split; [exact Cf | exact Tf].
  Qed.

  (* with an empty domain and only bits in the codomain, the entries of the
     evaluation (what get_counts() / measure(mixed=True) read) sum to 1 *)
  Lemma tp_state_sums_to_one : forall f n, tp f -> cq_dom f = (0, 0)%nat -> cq_cod f = (n, 0)%nat ->
    bsum n (fun o => cq_mat f [] o) = 1.
  Proof.
    intros f n H D C. pose proof (H []) as X. rewrite D, C in X. cbn [fst snd uw] in X.
    specialize (X eq_refl). unfold tr_out, disc in X. cbn [bsum fst snd firstn skipn] in X.
    rewrite (bsum_ext SR n _ (fun x => cq_mat f [] (x ++ [] ++ []))).
    - exact X.
    - intros x _. cbn [app]. rewrite app_nil_r. reflexivity.
  Qed.

  Lemma get_counts_is_distribution : forall c : mcircuit SR,
    wf_mcircuit c = true -> tp_circuit c -> m_dom c = [] -> nq (cod_or_nil c) = 0%nat ->
    exists f, cq_eval c = Ok f /\ bsum (nb (cod_or_nil c)) (fun o => cq_mat f [] o) = 1.
  Proof.
    intros c Hwf Hc Hd Hq. destruct (trace_preserving c Hwf Hc) as (f & Ef & Df & Cf & Tf).
    exists f. split; [exact Ef|]. apply tp_state_sums_to_one; [exact Tf | |].
    - rewrite Df, Hd. reflexivity.
    - rewrite Cf. unfold F_ob. rewrite Hq. reflexivity.
  Qed.
End TracePreservation.

Arguments disc {_}. Arguments tp {_}. Arguments stochastic {_}. Arguments tp_box {_}. Arguments tp_circuit {_}.

(* CQMap.tensor as coded (two swap layers, Kronecker product, two swap layers:
   cq_tensor_net) against the closed form used for execution (cq_tensor): the full
   statement, NOT asserted and not proved here; the correspondence check compares the
   closed form with the implementation, which evaluates the network *)
Definition cq_tensor_is_kron_on_each_sector_stmt : Prop :=
  forall (SR : StarRing) (f g : cqmap SR),
    meq (uw (cq_add (cq_dom f) (cq_dom g))) (uw (cq_add (cq_cod f) (cq_cod g)))
        (cq_mat (cq_tensor_net f g)) (cq_mat (cq_tensor f g)).

(* ------------------------------------------------------------------ non-vacuity (Cyc32) *)
Require Import DV.Quantum.Cyc32.

(* a concrete pure circuit meeting the hypothesis of mixed_of_pure_is_double:
   Ket(0) >> H >> Ket(1) @ Id >> CX >> S.dagger() on the second wire *)
Definition ex_pure : circuit Cyc32 :=
  Circ 0 [(0, BKet [false]); (0, BG1 (G1Named NH false)); (0, BKet [true]);
          (0, BG2 (G2Ctrl (G1Named NX false))); (1, BG1 (G1Named NS true))].
Example ex_pure_wf : wf_circuit ex_pure = true.
Proof. reflexivity. Qed.

(* a concrete mixed circuit with every kind of box on interleaved bits and qubits *)
Definition ex_mixed : mcircuit Cyc32 :=
  MC [WB; WQ]
     [(1, MPure (BG1 (G1Named NH false))); (1, MMeasure 1 false false); (0, MSwap WB WQ);
      (1, MCopy); (0, MEncode 1 false false); (1, MDiscard [WB]); (0, MMeasure 1 true false);
      (1, MMixedState [WQ; WB]); (1, MMeasure 1 true true); (0, MMatch)].
Example ex_mixed_wf : wf_mcircuit ex_mixed = true.
Proof. reflexivity. Qed.

(* a concrete circuit of the trace-preserving class with every kind of box of the class:
   the hypotheses of trace_preserving / get_counts_is_distribution are satisfiable *)
Definition ex_tp : mcircuit Cyc32 :=
  MC [] [(0, MPure (BKet [false; true])); (0, MPure (BG1 (G1Named NH false)));
         (0, MPure (BG2 (G2Ctrl (G1Named NX false)))); (0, MSwap WQ WQ); (0, MMeasure 1 true false);
         (0, MCopy); (0, MSwap WB WB); (1, MEncode 1 true false);
         (2, MDiscard [WQ]); (1, MMeasure 1 true false); (2, MBits [true] false);
         (1, MDiscard [WB; WB])].
Example ex_tp_hyps : wf_mcircuit ex_tp = true /\ tp_circuit ex_tp /\ m_dom ex_tp = []
                     /\ nq (cod_or_nil ex_tp) = 0.
Proof.
  split; [reflexivity|]. split; [|split; reflexivity].
  intros l Hl. cbn in Hl.
  repeat (destruct Hl as [<-|Hl]; [cbn; auto; try (left; split; [reflexivity | exact I]); try (right; eexists; reflexivity)|]).
  contradiction.
Qed.

