(* Import (zx.Diagram.from_pyzx, both repairs on) followed by export (to_pyzx) rebuilds
   the graph: a combinatorial simulation, no ring involved.

     bl d                 the boxes of a Core diagram read back as ZX boxes with offsets
                          (core_sem K d = zx_sem K _ (bl d))
     bl_then, bl_tensor   how >> and @ act on them; swap diagrams are lists of offsets
                          whose effect on any list of wire labels is Core's [route]
     run_swaps, run_hads  to_pyzx's loop on a swap network / a row of Hadamards
     spider_step_sim      one spider of from_pyzx, replayed by to_pyzx
     out_step_sim         one output of from_pyzx, replayed by to_pyzx

   Used by PyZX/PyZXImport.v. *)
From Coq Require Import List ZArith QArith Bool Arith Lia Permutation.
Import ListNotations.
Require Import DV.Common.Base DV.Common.ListLemmas DV.Core.Diagram DV.Core.WF
  DV.Core.DiagramLemmas DV.Core.Perm DV.Core.Route DV.Core.PermLemmas
  DV.PyZX.PyZX DV.PyZX.PyZXLemmas DV.PyZX.ZXSem DV.PyZX.PyZXSound.
Local Open Scope nat_scope.

(* ================================================================== box lists *)
Definition bl (d : diagram) : list (zxbox * nat) :=
  combine (map zx_of_core (dboxes d)) (map Z.to_nat (doffs d)).

Lemma core_sem_bl K d : core_sem K d = zx_sem K (length (ddom d)) (bl d).
Proof. reflexivity. Qed.

Definition blok (d : diagram) : Prop :=
  length (dboxes d) = length (doffs d) /\ Forall (fun z => (0 <= z)%Z) (doffs d).

Definition shift (k : nat) (bs : list (zxbox * nat)) : list (zxbox * nat) :=
  map (fun bo => (fst bo, k + snd bo)) bs.

Lemma shift_app k a b : shift k (a ++ b) = shift k a ++ shift k b.
Proof. apply map_app. Qed.

Lemma combine_app' {A B} (l1 l2 : list A) (m1 m2 : list B) : length l1 = length m1 ->
  combine (l1 ++ l2) (m1 ++ m2) = combine l1 m1 ++ combine l2 m2.
Proof.
  revert m1. induction l1 as [|x l1 IH]; intros [|y m1] H; cbn in *; try discriminate; [reflexivity|].
  f_equal. apply IH. lia.
Qed.

Lemma bl_then a b c : dthen a b = Ok c -> blok a -> blok b ->
  blok c /\ bl c = bl a ++ bl b /\ dcod c = dcod b /\ ddom c = ddom a.
Proof.
  intros H (La & Pa) (Lb & Pb). destruct (dthen_inv _ _ _ H) as (_ & ->).
  unfold blok, bl. cbn [dboxes doffs dcod ddom]. split; [split|split; [|split; reflexivity]].
  - rewrite !app_length. lia.
  - apply Forall_app. split; assumption.
  - rewrite !map_app. apply combine_app'. now rewrite !map_length.
Qed.

Lemma dtensor_fields a b c : dtensor a b = Ok c ->
  ddom c = ddom a ++ ddom b /\ dcod c = dcod a ++ dcod b /\
  dboxes c = dboxes a ++ dboxes b /\
  doffs c = doffs a ++ map (fun n => (n + len (dcod a))%Z) (doffs b).
Proof.
  unfold dtensor. intros H. bind_inv H. bind_inv H. inversion H; subst c. cbn. auto.
Qed.

Lemma bl_tensor a b c : dtensor a b = Ok c -> blok a -> blok b ->
  blok c /\ bl c = bl a ++ shift (length (dcod a)) (bl b) /\ dcod c = dcod a ++ dcod b.
Proof.
  intros H (La & Pa) (Lb & Pb). destruct (dtensor_fields _ _ _ H) as (_ & Ec & Eb & Eo).
  unfold blok, bl. rewrite Eb, Eo. split; [split|split; [|exact Ec]].
  - rewrite !app_length, map_length. lia.
  - apply Forall_app. split; [exact Pa|]. apply Forall_forall. intros z Hz.
    apply in_map_iff in Hz. destruct Hz as (n & <- & Hn). rewrite Forall_forall in Pb.
    pose proof (Pb n Hn). unfold len. lia.
  - rewrite !map_app. rewrite combine_app' by now rewrite !map_length. f_equal.
    unfold shift. clear La Pa Eb Eo H. revert Lb Pb. generalize (dboxes b) (doffs b).
    intros bs offs. revert offs. induction bs as [|x bs IH]; intros [|o offs] L Pz; cbn in *; try discriminate;
      [reflexivity|].
    inversion Pz; subst. f_equal.
    + f_equal. unfold len. lia.
    + apply IH; [lia|assumption].
Qed.

Lemma blok_zid n : blok (zid n). Proof. split; [reflexivity|constructor]. Qed.
Lemma bl_zid n : bl (zid n) = []. Proof. reflexivity. Qed.
Lemma dcod_zid n : dcod (zid n) = pro n. Proof. reflexivity. Qed.
Lemma blok_dbox b : blok (dbox b). Proof. split; [reflexivity|repeat constructor; lia]. Qed.
Lemma bl_dbox b : bl (dbox b) = [(zx_of_core b, 0)]. Proof. reflexivity. Qed.
Lemma bl_had : bl had_d = [(BHad, 0)]. Proof. reflexivity. Qed.

(* swap diagrams *)
Definition swaps (offs : list Z) : list (zxbox * nat) := map (fun o => (BSwap, Z.to_nat o)) offs.

Lemma bl_only_swaps d : only_swaps d -> length (dboxes d) = length (doffs d) -> bl d = swaps (doffs d).
Proof.
  unfold only_swaps, bl, swaps. generalize (dboxes d) (doffs d). intros bs.
  induction bs as [|b bs IH]; intros [|o offs] HS L; cbn in *; try discriminate; [reflexivity|].
  inversion HS as [|? ? (Hk & _) HS']; subst. f_equal.
  - unfold zx_of_core. rewrite Hk. reflexivity.
  - apply IH; [assumption|lia].
Qed.

Lemma wf_lengths d : wf d -> length (dboxes d) = length (doffs d).
Proof. intros (_ & _ & _ & -> & ->). now rewrite !map_length. Qed.

(* ================================================================== moving one wire *)
(* the list after the element at position source has been moved to position target <= source *)
Definition mv {A} (l : list A) (source target : nat) : list A :=
  firstn target l ++ firstn 1 (skipn source l) ++ firstn (source - target) (skipn target l)
  ++ skipn (S source) l.

Lemma mv_map {A B} (h : A -> B) l s t : mv (map h l) s t = map h (mv l s t).
Proof. unfold mv. now rewrite !map_app, !firstn_map, !skipn_map, !firstn_map. Qed.

Lemma mv_split {A} (P M Q : list A) x s t : length P = t -> length M = s - t -> t <= s ->
  mv (P ++ M ++ x :: Q) s t = P ++ x :: M ++ Q.
Proof.
  intros HP HM Hts. unfold mv.
  rewrite (firstn_app_l P _ t HP), (skipn_app_l P _ t HP), (firstn_app_l M _ (s - t) HM).
  replace s with (t + (s - t)) at 1 by lia. rewrite (skipn_app3 P M (x :: Q) t (s - t) HP HM).
  replace (S s) with (length (P ++ M ++ [x])) by (rewrite !app_length; cbn; lia).
  replace (P ++ M ++ x :: Q) with ((P ++ M ++ [x]) ++ Q) by (now rewrite <- !app_assoc).
  rewrite skipn_app_l by reflexivity. reflexivity.
Qed.

Lemma skipn_app_plus {A} (P R : list A) s : skipn (length P + s) (P ++ R) = skipn s R.
Proof. induction P as [|a P IH]; [reflexivity|]. cbn. exact IH. Qed.

Lemma mv_prefix {A} (P R : list A) s : mv (P ++ R) (length P + s) (length P) = P ++ mv R s 0.
Proof.
  unfold mv. rewrite (firstn_app_l P R _ eq_refl), (skipn_app_l P R _ eq_refl).
  replace (length P + s - length P) with s by lia. rewrite Nat.sub_0_r.
  rewrite skipn_app_plus. replace (S (length P + s)) with (length P + S s) by lia.
  rewrite skipn_app_plus. reflexivity.
Qed.

Lemma mv_same {A} (l : list A) t x : nth_error l t = Some x -> mv l t t = l.
Proof.
  intros H. unfold mv. rewrite Nat.sub_diag.
  transitivity (firstn t l ++ skipn t l); [|apply firstn_skipn].
  rewrite (skipn_nth_error _ _ _ H). reflexivity.
Qed.

Lemma nth_error_split3 {A} (l : list A) s t x : t <= s -> nth_error l s = Some x ->
  exists P M Q, l = P ++ M ++ x :: Q /\ length P = t /\ length M = s - t.
Proof.
  intros Hts Hx. destruct (nth_error_split l s Hx) as (l1 & l2 & -> & Hl1).
  exists (firstn t l1), (skipn t l1), l2. rewrite app_assoc, firstn_skipn. split; [reflexivity|].
  rewrite firstn_length, skipn_length. lia.
Qed.

Lemma route_map {A B} (h : A -> B) offs : forall l, route offs (map h l) = map h (route offs l).
Proof.
  assert (S : forall o (l : list A), swap_at o (map h l) = map h (swap_at o l)).
  { induction o as [|o IH]; intros l.
    - destruct l as [|a [|b l]]; reflexivity.
    - destruct l as [|a l]; cbn; [reflexivity|]. f_equal. apply IH. }
  induction offs as [|o offs IH]; intros l; [reflexivity|]. cbn. unfold route in IH. rewrite S. apply IH.
Qed.

Lemma offsets_in_range_mono n m offs : n <= m -> offsets_in_range n offs -> offsets_in_range m offs.
Proof. intros H. unfold offsets_in_range. apply Forall_impl. intros o. lia. Qed.

Lemma offsets_in_range_shift k n offs : offsets_in_range n offs ->
  offsets_in_range (k + n) (map (fun o => (o + Z.of_nat k)%Z) offs).
Proof.
  unfold offsets_in_range. intros H. apply Forall_forall. intros z Hz. apply in_map_iff in Hz.
  destruct Hz as (o & <- & Ho). rewrite Forall_forall in H. pose proof (H o Ho). lia.
Qed.

(* `move` (repaired): the swaps it returns carry every list of labels as mv *)
Lemma move_spec nd scan source target scan1 sw :
  move nd scan source target = Ok (scan1, sw) -> target <= source ->
  nth_error scan source = Some nd ->
  exists offs, blok sw /\ bl sw = swaps offs /\ offsets_in_range (length scan) offs /\
    scan1 = mv scan source target /\
    forall (A : Type) (l : list A), length l = length scan -> route offs l = mv l source target.
Proof.
  intros H Hts Hnd. unfold move in H.
  assert (Hlt : source < length scan) by (apply nth_error_Some; congruence).
  destruct (nth_error_split3 scan source target nd Hts Hnd) as (P & M & Q & Escan & HP & HM).
  destruct (Nat.ltb_spec target source) as [Hlt'|Hge].
  - bind_inv H. rename a into s0. bind_inv H. rename a into a1. bind_inv H. rename a into s2.
    inversion H; subst scan1 sw; clear H.
    destruct (dswap_spec _ _ _ E) as (W & D0 & C0 & OS & OR & RT).
    assert (B0 : blok s0).
    { split; [apply wf_lengths; exact W|]. unfold offsets_in_range in OR. eapply Forall_impl; [|exact OR].
      intros z Hz. cbv beta in Hz. destruct Hz as [Hz _]. exact Hz. }
    destruct (bl_tensor _ _ _ E0 (blok_zid target) B0) as (B1 & L1 & C1).
    destruct (bl_tensor _ _ _ E1 B1 (blok_zid _)) as (B2 & L2 & _).
    rewrite bl_zid in L1, L2. cbn [app shift map] in L1, L2. rewrite app_nil_r in L2.
    rewrite dcod_zid, pro_length in L1. rewrite (bl_only_swaps s0 OS (wf_lengths _ W)) in L1.
    exists (map (fun o => (o + Z.of_nat target)%Z) (doffs s0)).
    rewrite app_length, !pro_length in OR.
    split; [exact B2|]. split; [|split; [|split]].
    + rewrite L2, L1. unfold swaps, shift. rewrite !map_map. apply map_ext_in. intros o Ho. cbn [fst snd].
      f_equal. destruct B0 as (_ & B0). rewrite Forall_forall in B0. pose proof (B0 o Ho). lia.
    + eapply offsets_in_range_mono; [|apply offsets_in_range_shift; exact OR]. lia.
    + unfold mv. rewrite (skipn_nth_error _ _ _ Hnd). reflexivity.
    + intros A l Hl.
      assert (Hl' : source < length l) by lia.
      destruct (nth_error l source) as [x|] eqn:Ex; [|apply nth_error_None in Ex; lia].
      destruct (nth_error_split3 l source target x Hts Ex) as (P' & M' & Q' & -> & HP' & HM').
      rewrite (mv_split P' M' Q' x source target HP' HM' Hts).
      replace (Z.of_nat target) with (len P') by (unfold len; lia).
      rewrite route_shift by (destruct B0 as (_ & B0); exact B0). f_equal.
      replace (M' ++ x :: Q') with ((M' ++ [x]) ++ Q') by (now rewrite <- app_assoc).
      rewrite route_suffix by (rewrite app_length; cbn; replace (length M' + 1) with (source - target + 1) by lia; exact OR).
      rewrite (RT A M' [x]) by (rewrite ?pro_length; cbn; lia). now rewrite <- app_assoc.
  - assert (source = target) by lia. subst source. rewrite Nat.ltb_irrefl in H.
    inversion H; subst scan1 sw; clear H. exists []. split; [apply blok_zid|]. split; [reflexivity|].
    split; [constructor|]. split.
    + symmetry. apply (mv_same _ _ _ Hnd).
    + intros A l Hl. cbn.
      destruct (nth_error l target) as [x|] eqn:Ex; [|apply nth_error_None in Ex; lia].
      symmetry. apply (mv_same _ _ _ Ex).
Qed.

(* ================================================================== to_pyzx on these boxes *)
Lemma run_boxes_app b1 : forall b2 row st,
  run_boxes row st (b1 ++ b2) = (do st1 <- run_boxes row st b1; run_boxes (row + length b1) st1 b2).
Proof.
  induction b1 as [|[b off] b1 IH]; intros b2 row st; cbn [app run_boxes length].
  - cbn [bind]. now rewrite Nat.add_0_r.
  - destruct (step_box row st b off) as [st'|e]; [|reflexivity]. cbn [bind].
    rewrite IH. now replace (S row + length b1) with (row + S (length b1)) by lia.
Qed.

Lemma swap_at_eq {A} off : forall (l : list A) a b,
  nth_error l off = Some a -> nth_error l (S off) = Some b ->
  firstn off l ++ [b; a] ++ skipn (off + 2) l = swap_at off l.
Proof.
  induction off as [|off IH]; intros l a b Ha Hb.
  - destruct l as [|x [|y l]]; cbn in *; try discriminate. inversion Ha; inversion Hb; subst. reflexivity.
  - destruct l as [|x l]; cbn in Ha; [discriminate|]. cbn [firstn app swap_at Nat.add skipn].
    f_equal. apply IH; assumption.
Qed.

Lemma run_swaps offs : forall row st, offsets_in_range (length (t_scan st)) offs ->
  run_boxes row st (swaps offs) = Ok (T (t_vs st) (t_es st) (route offs (t_scan st)) (t_scal st)).
Proof.
  induction offs as [|o offs IH]; intros row st H; cbn [swaps map run_boxes].
  - destruct st; reflexivity.
  - inversion H as [|? ? (H0 & H2) H']; subst. cbn [step_box].
    destruct (nth_error (t_scan st) (Z.to_nat o)) as [a|] eqn:Ea;
      [|apply nth_error_None in Ea; lia].
    destruct (nth_error (t_scan st) (S (Z.to_nat o))) as [b|] eqn:Eb;
      [|apply nth_error_None in Eb; lia].
    cbn [bind]. rewrite (swap_at_eq _ _ _ _ Ea Eb).
    fold (swaps offs). rewrite IH; cbn [t_vs t_es t_scan t_scal].
    + reflexivity.
    + now rewrite swap_at_length.
Qed.

(* a row of Hadamards on the wires off, off+1, ... selected by the flags hl *)
Fixpoint hadl (off : nat) (hl : list bool) : list (zxbox * nat) :=
  match hl with
  | [] => []
  | h :: hl' => (if h then [(BHad, off)] else []) ++ hadl (S off) hl'
  end.

Lemma shift_hadl k hl : forall a, shift k (hadl a hl) = hadl (k + a) hl.
Proof.
  induction hl as [|h hl IH]; intros a; [reflexivity|]. cbn [hadl]. rewrite shift_app, IH.
  replace (S (k + a)) with (k + S a) by lia. destruct h; reflexivity.
Qed.

Fixpoint setflags (win : list (nat * bool)) (hl : list bool) : list (nat * bool) :=
  match win, hl with
  | (n, h) :: win', b :: hl' => (n, xorb h b) :: setflags win' hl'
  | _, _ => []
  end.

Lemma run_hads hl : forall row vs es pre win post scal, length win = length hl ->
  run_boxes row (T vs es (pre ++ win ++ post) scal) (hadl (length pre) hl)
  = Ok (T vs es (pre ++ setflags win hl ++ post) scal).
Proof.
  induction hl as [|h hl IH]; intros row vs es pre win post scal Hl.
  - destruct win; [reflexivity|discriminate].
  - destruct win as [|[n h0] win]; [discriminate|]. cbn [hadl setflags]. rewrite run_boxes_app.
    assert (E : forall r, run_boxes r (T vs es (pre ++ ((n, h0) :: win) ++ post) scal)
                            (if h then [(BHad, length pre)] else [])
                = Ok (T vs es ((pre ++ [(n, xorb h0 h)]) ++ win ++ post) scal)).
    { intros r. destruct h; cbn [run_boxes step_box t_scan t_vs t_es t_scal].
      - rewrite nth_error_app2 by lia. rewrite Nat.sub_diag. cbn [nth_error app bind].
        rewrite (firstn_app_l pre _ _ eq_refl).
        replace (S (length pre)) with (length pre + 1) by lia.
        change (pre ++ (n, h0) :: win ++ post) with (pre ++ [(n, h0)] ++ win ++ post).
        rewrite (skipn_app3 pre [(n, h0)] (win ++ post) (length pre) 1 eq_refl eq_refl).
        rewrite xorb_true_r, <- app_assoc. reflexivity.
      - rewrite xorb_false_r, <- app_assoc. reflexivity. }
    rewrite E. cbn [bind].
    replace (S (length pre)) with (length (pre ++ [(n, xorb h0 h)])) by (rewrite app_length; cbn; lia).
    rewrite IH by (cbn in Hl; lia). rewrite <- app_assoc. reflexivity.
Qed.

Lemma setflags_plain (rho : nat -> nat) (P : nat -> bool) l :
  setflags (map (fun v => (rho v, false)) l) (map P l) = map (fun v => (rho v, P v)) l.
Proof. induction l as [|v l IH]; [reflexivity|]. cbn [map setflags]. rewrite IH, xorb_false_l. reflexivity. Qed.

(* the spider box on a window *)
Lemma run_spider row vs es pre win post scal k nout p :
  run_boxes row (T vs es (pre ++ win ++ post) scal) [(BSpider k (length win) nout p, length pre)]
  = Ok (T (vs ++ [V (length vs) (match k with SZ => 1 | _ => 2 end)%Z (export_phase p)
                    (Z.of_nat (length pre)) (Z.of_nat row + 1)])
          (es ++ map (fun l : nat * bool => (fst l, length vs, etype_of (snd l))) win)
          (pre ++ repeat (length vs, false) nout ++ post) scal).
Proof.
  cbn [run_boxes step_box t_scan t_vs t_es t_scal].
  rewrite (skipn_app_l pre _ _ eq_refl), (firstn_app_l win post _ eq_refl), Nat.ltb_irrefl.
  rewrite (firstn_app_l pre _ _ eq_refl), (skipn_app3 pre win post _ _ eq_refl eq_refl).
  reflexivity.
Qed.

Lemma run_hads' hl row vs es pre win post scal off : length pre = off -> length win = length hl ->
  run_boxes row (T vs es (pre ++ win ++ post) scal) (hadl off hl)
  = Ok (T vs es (pre ++ setflags win hl ++ post) scal).
Proof. intros <-. apply run_hads. Qed.

Lemma run_spider' row vs es pre win post scal k nout p off nin : length pre = off -> length win = nin ->
  run_boxes row (T vs es (pre ++ win ++ post) scal) [(BSpider k nin nout p, off)]
  = Ok (T (vs ++ [V (length vs) (match k with SZ => 1 | _ => 2 end)%Z (export_phase p)
                    (Z.of_nat off) (Z.of_nat row + 1)])
          (es ++ map (fun l : nat * bool => (fst l, length vs, etype_of (snd l))) win)
          (pre ++ repeat (length vs, false) nout ++ post) scal).
Proof. intros <- <-. apply run_spider. Qed.

(* what zx_of_core reads back from the box of a spider *)
Lemma zx_of_core_spider k n m p : k <> SY ->
  zx_of_core (core_box (BSpider k n m p)) = BSpider k n m p.
Proof.
  intros Hk. unfold zx_of_core, core_box. cbn [bk bname bdata bdom bcod].
  rewrite !pro_length.
  assert (E3 : ((skind_code k + 8 * Z.pos (Qden p)) =? 3)%Z = false).
  { apply Z.eqb_neq. destruct k; cbn; lia. }
  rewrite E3.
  assert (Em : ((skind_code k + 8 * Z.pos (Qden p)) mod 8 = skind_code k)%Z).
  { rewrite (Z.mul_comm 8), Z_mod_plus_full. apply Z.mod_small. destruct k; cbn; lia. }
  assert (Ed : ((skind_code k + 8 * Z.pos (Qden p)) / 8 = Z.pos (Qden p))%Z).
  { rewrite (Z.mul_comm 8), Z_div_plus_full by lia.
    rewrite Z.div_small by (destruct k; cbn; lia). lia. }
  rewrite Em, Ed. cbn [Z.to_pos]. destruct p as [pn pd]. cbn [Qnum Qden].
  destruct k; reflexivity.
Qed.

(* ================================================================== list.index, the sort *)
Lemma index_of_spec v l : forall k, index_of v l = Some k ->
  nth_error l k = Some v /\ ~ In v (firstn k l).
Proof.
  induction l as [|y l IH]; intros k H; cbn [index_of] in H; [discriminate|].
  destruct (Nat.eqb_spec y v) as [->|E].
  - inversion H; subst. cbn. auto.
  - destruct (index_of v l) as [j|]; [|discriminate]. inversion H; subst. cbn [nth_error firstn].
    destruct (IH j eq_refl) as (H1 & H2). split; [exact H1|]. intros [F|F]; [congruence|contradiction].
Qed.

Lemma index_of_ge v l k t : index_of v l = Some k -> ~ In v (firstn t l) -> t <= k.
Proof.
  intros H Hn. destruct (index_of_spec v l k H) as (H1 & _).
  destruct (Nat.le_gt_cases t k) as [|Hlt]; [assumption|]. exfalso. apply Hn.
  rewrite <- (firstn_skipn t l) in H1. rewrite nth_error_app1 in H1 by (rewrite firstn_length;
    assert (k < length l) by (apply nth_error_Some; rewrite <- (firstn_skipn t l); congruence); lia).
  eapply nth_error_In; eauto.
Qed.

Lemma index_of_In v l : In v l -> exists k, index_of v l = Some k.
Proof.
  induction l as [|y l IH]; intros H; [contradiction|]. cbn [index_of].
  destruct (Nat.eqb_spec y v) as [->|E]; [eauto|]. destruct H as [H|H]; [congruence|].
  destruct (IH H) as (k & ->). cbn. eauto.
Qed.

Lemma index_of_Some_In v l k : index_of v l = Some k -> In v l.
Proof. intros H. destruct (index_of_spec v l k H) as (H1 & _). eapply nth_error_In; eauto. Qed.

Definition keyed_ok (scan : list nat) (kv : nat * nat) : Prop := index_of (snd kv) scan = Some (fst kv).

Definition minhead (l : list (nat * nat)) : Prop :=
  match l with [] => True | kv :: t => Forall (fun kv' => fst kv <= fst kv') t end.

Lemma insert_by_perm k v l : Permutation (insert_by k v l) ((k, v) :: l).
Proof.
  induction l as [|[k' v'] l IH]; cbn [insert_by]; [reflexivity|].
  destruct (Nat.ltb k k'); [reflexivity|]. rewrite IH. apply perm_swap.
Qed.

Lemma insert_by_minhead k v l : minhead l -> minhead (insert_by k v l).
Proof.
  destruct l as [|[k' v'] l]; intros H; cbn [insert_by]; [constructor|].
  destruct (Nat.ltb_spec k k') as [Hlt|Hge]; cbn [minhead fst] in *.
  - constructor; [cbn; lia|]. eapply Forall_impl; [|exact H]. intros kv Hkv. cbn in *. lia.
  - eapply Permutation_Forall; [symmetry; apply insert_by_perm|]. constructor; [cbn; lia|exact H].
Qed.

Lemma fold_insert_spec keyed : forall acc, minhead acc ->
  let r := fold_left (fun acc kv => insert_by (fst kv) (snd kv) acc) keyed acc in
  minhead r /\ Permutation r (acc ++ keyed).
Proof.
  induction keyed as [|[k v] keyed IH]; intros acc Hm; cbn [fold_left fst snd].
  - split; [exact Hm|now rewrite app_nil_r].
  - destruct (IH (insert_by k v acc) (insert_by_minhead k v acc Hm)) as (H1 & H2).
    split; [exact H1|]. rewrite H2, insert_by_perm. cbn [app]. apply Permutation_middle.
Qed.

Lemma mapM_keyed scan l : forall keyed,
  mapM (fun v => match index_of v scan with Some k => Ok (k, v) | None => Err ValueError end) l = Ok keyed ->
  map snd keyed = l /\ Forall (keyed_ok scan) keyed.
Proof.
  induction l as [|v l IH]; intros keyed H; cbn [mapM] in H.
  - inversion H; subst. split; [reflexivity|constructor].
  - destruct (index_of v scan) as [k|] eqn:E; [|discriminate]. cbn [bind] in H.
    destruct (mapM _ l) as [r|]; [|discriminate]. cbn [bind] in H. inversion H; subst.
    destruct (IH r eq_refl) as (H1 & H2). split; [cbn; now rewrite H1|]. constructor; [exact E|exact H2].
Qed.

Lemma sort_by_index_spec scan l r : sort_by_index scan l = Ok r ->
  Permutation r l /\ (forall v, In v r -> In v scan) /\
  match r with
  | [] => True
  | v0 :: rest => forall v, In v rest -> exists k0 k,
      index_of v0 scan = Some k0 /\ index_of v scan = Some k /\ k0 <= k
  end.
Proof.
  unfold sort_by_index. intros H. bind_inv H. rename a into keyed. inversion H; subst r; clear H.
  destruct (mapM_keyed _ _ _ E) as (Hs & Hk).
  destruct (fold_insert_spec keyed [] Logic.I) as (Hm & Hp). cbn [app] in Hp.
  set (srt := fold_left _ keyed []) in *.
  assert (Hk' : Forall (keyed_ok scan) srt) by (eapply Permutation_Forall; [symmetry; exact Hp|exact Hk]).
  split; [rewrite <- Hs; apply Permutation_map; exact Hp|]. split.
  - intros v Hv. apply in_map_iff in Hv. destruct Hv as (kv & <- & Hkv). rewrite Forall_forall in Hk'.
    eapply index_of_Some_In. apply (Hk' kv Hkv).
  - destruct srt as [|[k0 v0] t]; [exact Logic.I|]. cbn [map snd].
    intros v Hv. apply in_map_iff in Hv. destruct Hv as ([k v'] & Ev & Hkv). cbn in Ev. subst v'.
    inversion Hk' as [|? ? Q0 Qt]; subst. rewrite Forall_forall in Qt. cbn [minhead fst] in Hm.
    rewrite Forall_forall in Hm. exists k0, k. split; [exact Q0|]. split; [exact (Qt _ Hkv)|].
    exact (Hm _ Hkv).
Qed.

(* ================================================================== make_wires_adjacent *)
Lemma firstn_S_nth {A} (l : list A) t x : nth_error l t = Some x -> firstn (S t) l = firstn t l ++ [x].
Proof.
  revert l. induction t as [|t IH]; intros [|y l] H; cbn in H; try discriminate.
  - now inversion H.
  - cbn [firstn app]. f_equal. now apply IH.
Qed.

Lemma mv_firstn_S {A} (l : list A) s t x : t <= s -> nth_error l s = Some x ->
  firstn (S t) (mv l s t) = firstn t l ++ [x] /\ length (mv l s t) = length l.
Proof.
  intros Hts Hx. destruct (nth_error_split3 l s t x Hts Hx) as (P & M & Q & -> & HP & HM).
  rewrite (mv_split P M Q x s t HP HM Hts). split.
  - rewrite (firstn_app_l P _ t HP). replace (S t) with (length (P ++ [x])) by (rewrite app_length; cbn; lia).
    replace (P ++ x :: M ++ Q) with ((P ++ [x]) ++ M ++ Q) by (now rewrite <- app_assoc).
    now rewrite firstn_app_l.
  - rewrite !app_length. cbn. rewrite !app_length. cbn. lia.
Qed.

Lemma mwa_loop_sim w offset rest : forall i scan d scan' d' P0 got,
  mwa_loop true w offset i rest scan d = Ok (scan', d') -> blok d ->
  firstn (offset + i + 1) scan = P0 ++ got ->
  (forall v, In v rest -> ~ In v (firstn (offset + i + 1) scan)) -> NoDup rest ->
  exists offs, blok d' /\ bl d' = bl d ++ swaps offs /\ offsets_in_range (length scan) offs /\
    scan' = route offs scan /\ length scan' = length scan /\
    firstn (offset + i + 1 + length rest) scan' = P0 ++ got ++ rest.
Proof.
  induction rest as [|v rest IH]; intros i scan d scan' d' P0 got H Bd Hf Hn Hnd; cbn [mwa_loop] in H.
  - inversion H; subst scan' d'. exists []. cbn [swaps map length]. rewrite !app_nil_r, Nat.add_0_r.
    split; [exact Bd|]. split; [reflexivity|]. split; [constructor|]. split; [reflexivity|].
    split; [reflexivity|exact Hf].
  - destruct (index_of v scan) as [source|] eqn:Es; [|discriminate].
    bind_inv H. destruct a as [scan1 sw]. bind_inv H. rename a into d1. cbn [fst snd] in *.
    set (target := offset + i + 1) in *.
    assert (Hts : target <= source) by (eapply index_of_ge; [exact Es|apply Hn; now left]).
    destruct (index_of_spec _ _ _ Es) as (Hnth & _).
    destruct (move_spec _ _ _ _ _ _ E Hts Hnth) as (offs1 & Bsw & Lsw & OR1 & E1 & R1).
    destruct (bl_then _ _ _ E0 Bd Bsw) as (Bd1 & Ld1 & _ & _).
    subst scan1. destruct (mv_firstn_S scan source target v Hts Hnth) as (F1 & Len1).
    inversion Hnd as [|? ? Hv Hnd']; subst.
    destruct (IH (S i) (mv scan source target) d1 scan' d' P0 (got ++ [v]) H Bd1) as (offs2 & Bd' & Ld' & OR2 & E2 & Len2 & F2).
    + replace (offset + S i + 1) with (S target) by (unfold target; lia).
      rewrite F1, Hf, <- app_assoc. reflexivity.
    + intros v' Hv'. replace (offset + S i + 1) with (S target) by (unfold target; lia). rewrite F1.
      intros Hin. apply in_app_or in Hin. destruct Hin as [Hin|[->|[]]].
      * apply (Hn v' (or_intror Hv')). exact Hin.
      * contradiction.
    + exact Hnd'.
    + exists (offs1 ++ offs2). split; [exact Bd'|]. split; [|split; [|split; [|split]]].
      * rewrite Ld', Ld1, Lsw, <- app_assoc. unfold swaps. now rewrite map_app.
      * apply Forall_app. split; [exact OR1|]. rewrite Len1 in OR2. exact OR2.
      * rewrite route_app, (R1 nat scan eq_refl). exact E2.
      * lia.
      * cbn [length]. replace (target + S (length rest)) with (offset + S i + 1 + length rest) by (unfold target; lia).
        rewrite F2, <- app_assoc. reflexivity.
Qed.

Lemma Ok_inj {A} (a b : A) : Ok a = Ok b -> a = b.
Proof. congruence. Qed.

Lemma firstn_In_mono {A} (x : A) l t k : t <= k -> In x (firstn t l) -> In x (firstn k l).
Proof.
  intros H Hin. replace t with (Nat.min t k) in Hin by lia. rewrite <- firstn_firstn in Hin.
  eapply firstn_In'; eauto.
Qed.

Lemma mwa_sim w scan d inputs scan1 d1 offset :
  make_wires_adjacent true w scan d inputs = Ok (scan1, d1, offset) -> blok d ->
  NoDup inputs ->
  match inputs with
  | [] => True
  | v0 :: rest => forall v, In v rest -> exists k0 k,
      index_of v0 scan = Some k0 /\ index_of v scan = Some k /\ k0 <= k
  end ->
  exists offs, blok d1 /\ bl d1 = bl d ++ swaps offs /\ offsets_in_range (length scan) offs /\
    scan1 = route offs scan /\ length scan1 = length scan /\ offset <= length scan /\
    firstn (offset + length inputs) scan1 = firstn offset scan ++ inputs.
Proof.
  unfold make_wires_adjacent. intros H Bd Hnd Hmin. destruct inputs as [|v0 rest].
  - inversion H; subst scan1 d1 offset. exists []. cbn [swaps map length]. rewrite !app_nil_r, Nat.add_0_r.
    split; [exact Bd|]. split; [reflexivity|]. split; [constructor|]. split; [reflexivity|].
    split; [reflexivity|]. split; [lia|reflexivity].
  - destruct (index_of v0 scan) as [off|] eqn:E0; [|discriminate]. bind_inv H. destruct a as [sc dd].
    inversion H; subst scan1 d1 offset; clear H. cbn [fst snd].
    destruct (index_of_spec _ _ _ E0) as (Hnth & Hnot).
    assert (Hlt : off < length scan) by (apply nth_error_Some; congruence).
    inversion Hnd as [|? ? Hv0 Hnd']; subst.
    destruct (mwa_loop_sim w off rest 0 scan d sc dd (firstn off scan) [v0] E Bd) as
      (offs & Bd' & Ld' & OR & Es & Len & F).
    + replace (off + 0 + 1) with (S off) by lia. apply firstn_S_nth. exact Hnth.
    + intros v Hv. replace (off + 0 + 1) with (S off) by lia. rewrite (firstn_S_nth _ _ _ Hnth).
      destruct (Hmin v Hv) as (k0 & k & Ek0 & Ek & Hle). rewrite ?E0 in Ek0. inversion Ek0; subst k0.
      destruct (index_of_spec _ _ _ Ek) as (_ & Hk). intros Hin. apply in_app_or in Hin.
      destruct Hin as [Hin|[->|[]]].
      * apply Hk. eapply firstn_In_mono; eauto.
      * contradiction.
    + exact Hnd'.
    + exists offs. split; [exact Bd'|]. split; [exact Ld'|]. split; [exact OR|]. split; [exact Es|].
      split; [exact Len|]. split; [lia|]. cbn [length].
      replace (off + S (length rest)) with (off + 0 + 1 + length rest) by lia. exact F.
Qed.

Lemma swap_at_perm {A} o : forall (l : list A), Permutation (swap_at o l) l.
Proof.
  induction o as [|o IH]; intros l.
  - destruct l as [|a [|b l]]; cbn; try reflexivity. apply perm_swap.
  - destruct l as [|a l]; cbn; [reflexivity|]. constructor. apply IH.
Qed.

Lemma route_perm {A} offs : forall (l : list A), Permutation (route offs l) l.
Proof.
  induction offs as [|o offs IH]; intros l; [reflexivity|]. cbn. unfold route in IH.
  rewrite IH. apply swap_at_perm.
Qed.

(* rows of Hadamards built by Id(0).tensor(...) *)
Lemma tensor_all_bl_gen (Pf : nat -> bool) l : forall acc hs a, blok acc -> dcod acc = pro a ->
  fold_left (fun acc x => do a <- acc; dtensor a x)
    (map (fun i => if Pf i then had_d else zid 1) l) (Ok acc) = Ok hs ->
  blok hs /\ bl hs = bl acc ++ hadl a (map Pf l).
Proof.
  induction l as [|i l IH]; intros acc hs a Ba Ca H; cbn [map fold_left] in H.
  - inversion H; subst. cbn [map hadl]. now rewrite app_nil_r.
  - cbn [bind] in H. destruct (dtensor acc (if Pf i then had_d else zid 1)) as [t|e] eqn:E.
    + assert (Bx : blok (if Pf i then had_d else zid 1)) by (destruct (Pf i); [apply blok_dbox|apply blok_zid]).
      destruct (bl_tensor _ _ _ E Ba Bx) as (Bt & Lt & Ct).
      destruct (IH t hs (a + 1) Bt) as (Bh & Lh); [|exact H|].
      * rewrite Ct, Ca. destruct (Pf i); cbn [dcod had_d dbox core_box bcod zid did]; now rewrite pro_app.
      * split; [exact Bh|]. rewrite Lh, Lt, Ca, pro_length, <- app_assoc. f_equal.
        cbn [map hadl]. replace (a + 1) with (S a) by lia. f_equal.
        destruct (Pf i); [rewrite bl_had; cbn; now rewrite Nat.add_0_r|reflexivity].
    + rewrite tensor_all_err in H. discriminate.
Qed.

Lemma tensor_all_bl (Pf : nat -> bool) l hs :
  tensor_all (map (fun i => if Pf i then had_d else zid 1) l) = Ok hs ->
  blok hs /\ bl hs = hadl 0 (map Pf l).
Proof. intros H. apply (tensor_all_bl_gen Pf l (zid 0) hs 0 (blok_zid 0) eq_refl H). Qed.

(* every box of these lists fits (ZXSem.zx_typed) *)
Lemma zx_typed_app b1 : forall w m b2 c, zx_typed w b1 m -> zx_typed m b2 c -> zx_typed w (b1 ++ b2) c.
Proof.
  induction b1 as [|[b off] b1 IH]; intros w m b2 c H1 H2; cbn [app zx_typed] in *.
  - subst. exact H2.
  - destruct H1 as (A1 & A2 & A3). split; [exact A1|]. split; [exact A2|]. eapply IH; eauto.
Qed.

Lemma swaps_typed offs w : offsets_in_range w offs -> zx_typed w (swaps offs) w.
Proof.
  induction 1 as [|o offs (H0 & H2) _ IH]; [reflexivity|]. cbn [swaps map zx_typed zdom zcod].
  split; [lia|]. split; [exact Logic.I|]. replace (w - 2 + 2) with w by lia. exact IH.
Qed.

Lemma hadl_typed hl : forall off w, off + length hl <= w -> zx_typed w (hadl off hl) w.
Proof.
  induction hl as [|h hl IH]; intros off w H; [reflexivity|]. cbn [hadl length] in *.
  apply (zx_typed_app _ w w); [|apply IH; lia].
  destruct h; [|reflexivity]. cbn [zx_typed zdom zcod]. split; [lia|]. split; [exact Logic.I|]. lia.
Qed.

(* ================================================================== one spider *)
Section Sim.
Variable rho : nat -> nat.
Variable g : graph.
Notation f := (fun v : nat => (rho v, false)).

Definition ety (v w : nat) : Z := etype_of (edge_type g v w =? 2)%Z.
Definition sphase (w : nat) : Q := export_phase (Qred (vphase_of g w * (1 # 2))).

Lemma spider_step_sim scan d w scan2 d2 :
  spider_step true g (scan, d) w = Ok (scan2, d2) -> blok d -> NoDup (node_inputs g w) ->
  exists srt nb,
    Permutation srt (node_inputs g w) /\ (forall v, In v srt -> In v scan) /\
    blok d2 /\ bl d2 = bl d ++ nb /\ zx_typed (length scan) nb (length scan2) /\
    Permutation (scan2 ++ srt) (scan ++ repeat w (length (node_outputs g w))) /\
    length scan2 + length srt = length scan + length (node_outputs g w) /\
    (forall x, In x scan2 -> In x scan \/ x = w) /\
    forall row vs es scal, length vs = rho w ->
      exists q r, run_boxes row (T vs es (map f scan) scal) nb =
        Ok (T (vs ++ [V (length vs) (vtype g w) (sphase w) q r])
              (es ++ map (fun v => (rho v, length vs, ety v w)) srt)
              (map f scan2) scal).
Proof.
  intros H Bd Hnd. unfold spider_step in H.
  bind_inv H. rename a into inputs. destruct (sort_by_index_spec _ _ _ E) as (Hperm & Hin & Hmin).
  bind_inv H. destruct a as [[scan1 d1] offset].
  assert (Hnd' : NoDup inputs) by (eapply Permutation_NoDup; [symmetry; exact Hperm|exact Hnd]).
  destruct (mwa_sim _ _ _ _ _ _ _ E0 Bd Hnd' Hmin) as (offs & Bd1 & Ld1 & OR & Es1 & Len1 & Hoff & F1).
  bind_inv H. rename a into hs. bind_inv H. rename a into bx.
  bind_inv H. rename a into hb. bind_inv H. rename a into t1. bind_inv H. rename a into t2.
  bind_inv H. rename a into d3. inversion H; subst scan2 d2; clear H.
  set (nin := length inputs) in *. set (nout := length (node_outputs g w)) in *.
  set (P0 := firstn offset scan) in *. set (Q := skipn (offset + nin) scan1) in *.
  assert (HP0 : length P0 = offset) by (unfold P0; rewrite firstn_length; lia).
  assert (Escan1 : scan1 = P0 ++ inputs ++ Q).
  { rewrite <- (firstn_skipn (offset + nin) scan1). fold Q. rewrite F1, <- app_assoc. reflexivity. }
  assert (Ewin : firstn nin (skipn offset scan1) = inputs).
  { rewrite Escan1, (skipn_app_l P0 _ _ HP0). apply firstn_app_l. reflexivity. }
  rewrite Ewin in E1.
  destruct (tensor_all_bl (fun i => (edge_type g i w =? 2)%Z) inputs hs E1) as (Bhs & Lhs).
  (* the spider box *)
  unfold node2box in E2. destruct (negb _) eqn:Et in E2; [discriminate|]. apply Ok_inj in E2. subst bx.
  apply negb_false_iff, orb_true_iff in Et.
  set (k := if (vtype g w =? 1)%Z then SZ else SX) in *.
  set (p := Qred (vphase_of g w * (1 # 2))) in *.
  assert (Hk : (match k with SZ => 1 | _ => 2 end)%Z = vtype g w).
  { unfold k. destruct Et as [Et|Et]; apply Z.eqb_eq in Et; rewrite Et; reflexivity. }
  destruct (bl_then _ _ _ E3 Bhs (blok_dbox _)) as (Bhb & Lhb & _ & _).
  destruct (bl_tensor _ _ _ E4 (blok_zid offset) Bhb) as (Bt1 & Lt1 & _).
  destruct (bl_tensor _ _ _ E5 Bt1 (blok_zid _)) as (Bt2 & Lt2 & _).
  destruct (bl_then _ _ _ E6 Bd1 Bt2) as (Bd3 & Ld3 & _ & _).
  rewrite bl_zid in Lt1, Lt2. cbn [app shift map] in Lt2. rewrite app_nil_r in Lt2. cbn [app] in Lt1.
  rewrite dcod_zid, pro_length, Lhb, Lhs, bl_dbox, shift_app, shift_hadl, Nat.add_0_r in Lt1.
  rewrite zx_of_core_spider in Lt1 by (unfold k; destruct (vtype g w =? 1)%Z; discriminate).
  cbn [shift map fst snd] in Lt1. rewrite Nat.add_0_r in Lt1.
  assert (EP : firstn offset scan1 = P0) by (rewrite Escan1; apply firstn_app_l; exact HP0).
  rewrite EP. fold Q.
  exists inputs, (swaps offs ++ hadl offset (map (fun i => (edge_type g i w =? 2)%Z) inputs)
                  ++ [(BSpider k nin nout p, offset)]).
  split; [exact Hperm|]. split; [exact Hin|]. split; [exact Bd3|]. split; [|split; [|split; [|split; [|split]]]].
  - rewrite Ld3, Lt2, Lt1, Ld1, <- app_assoc. reflexivity.
  - assert (Hl1 : length scan1 = length P0 + (nin + length Q)) by (rewrite Escan1, !app_length; reflexivity).
    apply (zx_typed_app _ _ (length scan)); [apply swaps_typed; exact OR|].
    apply (zx_typed_app _ _ (length scan)); [apply hadl_typed; rewrite map_length; fold nin; lia|].
    cbn [zx_typed zdom zcod]. split; [lia|]. split.
    + unfold k. destruct (vtype g w =? 1)%Z; exact Logic.I.
    + rewrite !app_length, repeat_length. lia.
  - fold nout. transitivity (scan1 ++ repeat w nout).
    + rewrite Escan1, <- !app_assoc. apply Permutation_app_head.
      rewrite (Permutation_app_comm (repeat w nout) (Q ++ inputs)), <- app_assoc.
      rewrite (Permutation_app_comm Q (inputs ++ repeat w nout)), <- app_assoc.
      apply Permutation_app_head, Permutation_app_comm.
    + apply Permutation_app_tail. rewrite Es1. apply route_perm.
  - assert (length scan1 = length P0 + (nin + length Q)) by (rewrite Escan1, !app_length; reflexivity).
    rewrite !app_length, repeat_length. fold nin. lia.
  - intros x Hx.
    apply in_app_or in Hx. destruct Hx as [Hx|Hx].
    + left. unfold P0 in Hx. eapply firstn_In'; eauto.
    + apply in_app_or in Hx. destruct Hx as [Hx|Hx]; [right; eapply repeat_spec; eauto|].
      left. assert (Hx1 : In x scan1) by (unfold Q in Hx; eapply skipn_In'; eauto).
      rewrite Es1 in Hx1. eapply Permutation_in; [|exact Hx1]. apply route_perm.
  - intros row vs es scal Hvs.
    rewrite run_boxes_app, run_swaps by (cbn [t_scan]; now rewrite map_length).
    cbn [bind t_vs t_es t_scan t_scal]. rewrite route_map, <- Es1, Escan1, !map_app.
    rewrite run_boxes_app.
    rewrite (run_hads' _ _ _ _ (map f P0) (map f inputs) (map f Q) _ offset)
      by (now rewrite !map_length).
    cbn [bind]. rewrite setflags_plain.
    rewrite (run_spider' _ _ _ (map f P0) _ (map f Q) _ _ _ _ offset nin) by (now rewrite map_length).
    rewrite Hk, map_map. cbn [fst snd].
    rewrite Hvs.
    replace (map f (repeat w nout)) with (repeat (rho w, false) nout)
      by (clear; induction nout; cbn; congruence).
    eexists. eexists. reflexivity.
Qed.

(* ================================================================== all spiders *)
Definition es_of (recs : list (nat * list nat)) : list edge :=
  flat_map (fun r => map (fun v => (rho v, rho (fst r), ety v (fst r))) (snd r)) recs.

Definition vdata_ok (w : nat) (v' : vertex) : Prop := vty v' = vtype g w /\ vphase v' = sphase w.

Lemma spider_loop_sim nodes : forall scan d scan' d',
  spider_loop true g (scan, d) nodes = Ok (scan', d') -> blok d ->
  (forall w, In w nodes -> NoDup (node_inputs g w)) ->
  exists recs nb,
    map fst recs = nodes /\
    Forall (fun r => Permutation (snd r) (node_inputs g (fst r))) recs /\
    blok d' /\ bl d' = bl d ++ nb /\ zx_typed (length scan) nb (length scan') /\
    length scan' + sum_in g nodes = length scan + sum_out g nodes /\
    (forall x, In x scan' -> In x scan \/ In x nodes) /\
    forall row vs es scal, map rho nodes = seq (length vs) (length nodes) ->
      exists vl, run_boxes row (T vs es (map f scan) scal) nb
                 = Ok (T (vs ++ vl) (es ++ es_of recs) (map f scan') scal) /\
        map vid vl = seq (length vs) (length nodes) /\ Forall2 vdata_ok nodes vl.
Proof.
  induction nodes as [|w nodes IH]; intros scan d scan' d' H Bd Hnd; cbn [spider_loop] in H.
  - inversion H; subst scan' d'. exists [], []. cbn [map sum_in sum_out es_of flat_map length seq].
    rewrite app_nil_r. split; [reflexivity|]. split; [constructor|]. split; [exact Bd|]. split; [reflexivity|].
    split; [reflexivity|]. split; [reflexivity|]. split; [auto|]. intros row vs es scal _. exists []. rewrite !app_nil_r.
    split; [reflexivity|]. split; [reflexivity|constructor].
  - bind_inv H. destruct a as [scan1 d1].
    destruct (spider_step_sim _ _ _ _ _ E Bd (Hnd w (or_introl eq_refl)))
      as (srt & nb1 & Hperm & Hsrt & Bd1 & Ld1 & Fn1 & _ & Len1 & In1 & Run1).
    destruct (IH _ _ _ _ H Bd1 (fun x Hx => Hnd x (or_intror Hx)))
      as (recs & nb2 & Hfst & Hrecs & Bd' & Ld' & Fn2 & Len2 & In2 & Run2).
    exists ((w, srt) :: recs), (nb1 ++ nb2).
    split; [cbn; now rewrite Hfst|]. split; [constructor; [exact Hperm|exact Hrecs]|].
    split; [exact Bd'|]. split; [rewrite Ld', Ld1, <- app_assoc; reflexivity|].
    split; [eapply zx_typed_app; eassumption|].
    split; [cbn [sum_in sum_out]; rewrite (Permutation_length Hperm) in Len1; lia|].
    split.
    + intros x Hx. destruct (In2 x Hx) as [Hx1|Hx1]; [|right; now right].
      destruct (In1 x Hx1) as [Hx2| ->]; [now left|right; now left].
    + intros row vs es scal Hrho. cbn [map length seq] in Hrho. inversion Hrho as [[Hw Hrest]].
      destruct (Run1 row vs es scal (eq_sym Hw)) as (q & r & R1).
      rewrite run_boxes_app, R1. cbn [bind].
      set (v := V (length vs) (vtype g w) (sphase w) q r).
      destruct (Run2 (row + length nb1) (vs ++ [v]) (es ++ map (fun x => (rho x, length vs, ety x w)) srt) scal)
        as (vl & R2 & Hids & Hdat).
      { rewrite app_length. cbn [length]. rewrite Nat.add_1_r, <- Hw. exact Hrest. }
      exists (v :: vl). rewrite R2. split; [|split].
      * f_equal. rewrite <- !app_assoc. cbn [app es_of flat_map fst snd]. rewrite Hw. reflexivity.
      * cbn [map length seq]. rewrite Hw, Hids, app_length. cbn [length vid v].
        now rewrite Nat.add_1_r.
      * constructor; [split; reflexivity|exact Hdat].
Qed.

(* ================================================================== the outputs *)
Definition fo (p : nat * nat) : nat * bool := (rho (snd p), (edge_type g (snd p) (fst p) =? 2)%Z).

Lemma out_loop_sim outs : forall target scan d d' (A : list (nat * nat)) rest,
  out_loop true g target outs scan d = Ok d' -> blok d ->
  scan = map snd A ++ rest -> length A = target ->
  exists nb (B : list (nat * nat)) rest',
    map fst B = outs /\ Forall (fun p => neighbors g (fst p) = [snd p]) B /\
    blok d' /\ bl d' = bl d ++ nb /\ zx_typed (length scan) nb (length scan) /\
    Permutation (map snd B ++ rest') rest /\
    forall row vs es scal,
      run_boxes row (T vs es (map fo A ++ map f rest) scal) nb
      = Ok (T vs es (map fo (A ++ B) ++ map f rest') scal).
Proof.
  induction outs as [|o outs IH]; intros target scan d d' A rest H Bd Escan HA; cbn [out_loop] in H.
  - inversion H; subst d'. exists [], [], rest. cbn [map app]. rewrite !app_nil_r.
    split; [reflexivity|]. split; [constructor|]. split; [exact Bd|]. split; [reflexivity|].
    split; [reflexivity|]. split; [reflexivity|]. intros. reflexivity.
  - destruct (neighbors g o) as [|node [|? ?]] eqn:En; try discriminate.
    cbn [index_from] in H. unfold index_from in H.
    assert (Esk : skipn target scan = rest).
    { rewrite Escan. apply skipn_app_l. now rewrite map_length. }
    rewrite Esk in H. destruct (index_of node rest) as [s|] eqn:Es; [|discriminate].
    cbn [option_map] in H.
    bind_inv H. destruct a as [scan1 sw]. cbn [fst snd] in *.
    bind_inv H. rename a into d1. bind_inv H. rename a into t1. bind_inv H. rename a into t2.
    bind_inv H. rename a into d2.
    destruct (index_of_spec _ _ _ Es) as (Hnth & _).
    assert (Hnth' : nth_error scan (target + s) = Some node).
    { rewrite Escan, nth_error_app2 by (rewrite map_length; lia).
      rewrite map_length. replace (target + s - length A) with s by lia. exact Hnth. }
    destruct (move_spec _ _ _ _ _ _ E (Nat.le_add_r _ _) Hnth') as (offs & Bsw & Lsw & OR & Emv1 & R1).
    destruct (nth_error_split3 rest s 0 node (Nat.le_0_l _) Hnth) as (P & M & Q & Erest & HP & HM).
    destruct P; [|discriminate]. cbn [app] in Erest.
    assert (Emv : forall (X : Type) (h : nat -> X) (hA : list X), length hA = target ->
              mv (hA ++ map h rest) (target + s) target = hA ++ h node :: map h (M ++ Q)).
    { intros X h hA HhA. rewrite <- HhA, mv_prefix, mv_map. f_equal. rewrite Erest.
      change (M ++ node :: Q) with ([] ++ M ++ node :: Q).
      rewrite (mv_split [] M Q node s 0 eq_refl) by lia. reflexivity. }
    assert (Escan1 : scan1 = map snd (A ++ [(o, node)]) ++ (M ++ Q)).
    { rewrite Emv1, Escan. rewrite <- (map_id rest) at 1.
      rewrite (Emv nat (fun x => x) (map snd A)) by (now rewrite map_length).
      rewrite map_id, map_app, <- app_assoc. reflexivity. }
    destruct (bl_then _ _ _ E0 Bd Bsw) as (Bd1 & Ld1 & _ & _).
    set (flag := (edge_type g node o =? 2)%Z) in *.
    assert (Bh : blok (if flag then had_d else zid 1)) by (destruct flag; [apply blok_dbox|apply blok_zid]).
    destruct (bl_tensor _ _ _ E1 (blok_zid target) Bh) as (Bt1 & Lt1 & _).
    destruct (bl_tensor _ _ _ E2 Bt1 (blok_zid _)) as (Bt2 & Lt2 & _).
    destruct (bl_then _ _ _ E3 Bd1 Bt2) as (Bd2 & Ld2 & _ & _).
    rewrite bl_zid in Lt1, Lt2. cbn [app shift map] in Lt2. rewrite app_nil_r in Lt2. cbn [app] in Lt1.
    rewrite dcod_zid, pro_length in Lt1.
    assert (Lh : shift target (bl (if flag then had_d else zid 1)) = hadl target [flag]).
    { destruct flag; cbn; [now rewrite Nat.add_0_r|reflexivity]. }
    rewrite Lh in Lt1.
    destruct (IH (S target) scan1 d2 d' (A ++ [(o, node)]) (M ++ Q) H Bd2 Escan1)
      as (nb & B & rest' & HfB & HnB & Bd' & Ld' & FnB & HpB & RunB).
    { rewrite app_length. cbn. lia. }
    exists (swaps offs ++ hadl target [flag] ++ nb), ((o, node) :: B), rest'.
    split; [cbn; now rewrite HfB|]. split; [constructor; [exact En|exact HnB]|]. split; [exact Bd'|].
    split; [rewrite Ld', Ld2, Lt2, Lt1, Ld1, Lsw, <- !app_assoc; reflexivity|].
    split.
    { assert (Hl : length scan1 = length scan) by (rewrite Emv1; apply (mv_firstn_S scan _ _ _ (Nat.le_add_r _ _) Hnth')).
      apply (zx_typed_app _ _ (length scan)); [apply swaps_typed; exact OR|].
      apply (zx_typed_app _ _ (length scan)).
      - apply hadl_typed. cbn [length]. assert (target + s < length scan) by (apply nth_error_Some; congruence). lia.
      - rewrite <- Hl at 1. rewrite <- Hl. exact FnB. }
    split.
    + cbn [map snd app]. rewrite Erest. apply Permutation_cons_app. exact HpB.
    + intros row vs es scal.
      rewrite run_boxes_app, run_swaps; cbn [t_scan t_vs t_es t_scal bind].
      2:{ rewrite app_length, !map_length. rewrite Escan, app_length, map_length in OR. exact OR. }
      rewrite R1 by (rewrite Escan, !app_length, !map_length; reflexivity).
      rewrite (Emv _ f (map fo A)) by (now rewrite map_length).
      rewrite run_boxes_app.
      rewrite (run_hads' [flag] _ vs es (map fo A) [f node] (map f (M ++ Q)) scal target)
        by (rewrite ?map_length; auto).
      cbn [bind setflags]. rewrite xorb_false_l.
      replace (map fo A ++ [(rho node, flag)] ++ map f (M ++ Q))
        with (map fo (A ++ [(o, node)]) ++ map f (M ++ Q))
        by (rewrite map_app, <- app_assoc; reflexivity).
      rewrite RunB. rewrite <- app_assoc. reflexivity.
Qed.

End Sim.
