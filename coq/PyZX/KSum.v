(* Sums over bit strings in a ring given by ZXSem.ringops + (part of) ZXSem.ring_laws
   (setoid equality [req K]); used by PyZX/PyZXSound.v (property C17).

   [bsum n f] is the structurally recursive sum of f over all bit strings of
   length n; [rsum_bits] shows it is the sum that ZXSem writes
   [rsum (map f (bits n))].  Everything is proved from the laws in [ring_laws]
   only (a commutative semiring with a -1); the [ring] tactic is available
   through [K_srt] / [K_ext] (see [Add Ring] below). *)
From Coq Require Import List Bool Arith Lia Setoid Morphisms Ring Permutation.
Import ListNotations.
Require Import DV.Common.Base DV.PyZX.PyZX DV.PyZX.ZXSem.

(* the part of ZXSem.ring_laws that the sums need: a commutative semiring with
   a -1 and a 1/sqrt 2 (no law about rexp / rcplx) *)
Record sring_laws (K : ringops) : Prop := {
  sl_equiv : Equivalence (req K);
  sl_add_m : forall a a' b b', req K a a' -> req K b b' -> req K (radd K a b) (radd K a' b');
  sl_mul_m : forall a a' b b', req K a a' -> req K b b' -> req K (rmul K a b) (rmul K a' b');
  sl_add_0 : forall a, req K (radd K (r0 K) a) a;
  sl_add_c : forall a b, req K (radd K a b) (radd K b a);
  sl_add_a : forall a b c, req K (radd K a (radd K b c)) (radd K (radd K a b) c);
  sl_mul_1 : forall a, req K (rmul K (r1 K) a) a;
  sl_mul_0 : forall a, req K (rmul K (r0 K) a) (r0 K);
  sl_mul_c : forall a b, req K (rmul K a b) (rmul K b a);
  sl_mul_a : forall a b c, req K (rmul K a (rmul K b c)) (rmul K (rmul K a b) c);
  sl_distr : forall a b c, req K (rmul K (radd K a b) c) (radd K (rmul K a c) (rmul K b c));
  sl_neg1 : req K (radd K (r1 K) (rneg1 K)) (r0 K);
  sl_isq2 : req K (rmul K (radd K (r1 K) (r1 K)) (rmul K (risq2 K) (risq2 K))) (r1 K) }.

Existing Class ring_laws.
Existing Class sring_laws.

Global Instance ring_laws_sring K (H : ring_laws K) : sring_laws K.
Proof.
  destruct H. constructor; assumption.
Qed.

Declare Scope K_scope.
Delimit Scope K_scope with K.

Section KSum.
Context {K : ringops} {HL : sring_laws K}.

Notation "x == y" := (req K x y) (at level 70, no associativity) : K_scope.
Notation "x + y" := (radd K x y) : K_scope.
Notation "x * y" := (rmul K x y) : K_scope.
Notation "0" := (r0 K) : K_scope.
Notation "1" := (r1 K) : K_scope.
Local Open Scope K_scope.

Global Instance req_equiv : Equivalence (req K) := sl_equiv K HL.

Global Instance radd_proper : Proper (req K ==> req K ==> req K) (radd K).
Proof. intros a a' Ha b b' Hb. apply (sl_add_m K HL); assumption. Qed.

Global Instance rmul_proper : Proper (req K ==> req K ==> req K) (rmul K).
Proof. intros a a' Ha b b' Hb. apply (sl_mul_m K HL); assumption. Qed.

Lemma K_srt : semi_ring_theory (r0 K) (r1 K) (radd K) (rmul K) (req K).
Proof.
  constructor.
  - apply (sl_add_0 K HL).
  - apply (sl_add_c K HL).
  - apply (sl_add_a K HL).
  - apply (sl_mul_1 K HL).
  - apply (sl_mul_0 K HL).
  - apply (sl_mul_c K HL).
  - apply (sl_mul_a K HL).
  - apply (sl_distr K HL).
Qed.

Lemma K_ext : sring_eq_ext (radd K) (rmul K) (req K).
Proof. constructor; [exact radd_proper | exact rmul_proper]. Qed.

Add Ring Kring : K_srt (setoid req_equiv K_ext).

(* ------------------------------------------------------------------ -1 *)
Lemma neg1_sq : rneg1 K * rneg1 K == 1.
Proof.
  assert (H : 1 + rneg1 K == 0) by apply (sl_neg1 K HL).
  transitivity (rneg1 K * (1 + rneg1 K) + 1 + (1 + rneg1 K) * 0).
  - rewrite H at 2. ring_simplify.
    transitivity (rneg1 K * rneg1 K + (1 + rneg1 K)); [rewrite H; ring | ring].
  - rewrite H. ring.
Qed.

(* ------------------------------------------------------------------ delta *)
Lemma delta_true : delta K true = 1. Proof. reflexivity. Qed.
Lemma delta_false : delta K false = 0. Proof. reflexivity. Qed.

Lemma delta_andb a b : delta K (a && b) == delta K a * delta K b.
Proof. destruct a, b; cbn; ring. Qed.

(* ------------------------------------------------------------------ bit strings *)
Lemma bits_eqb_refl l : bits_eqb l l = true.
Proof. induction l as [|x l IH]; [reflexivity|]. cbn. rewrite IH. destruct x; reflexivity. Qed.

Lemma bits_eqb_eq a : forall b, bits_eqb a b = true -> a = b.
Proof.
  induction a as [|x a IH]; intros [|y b] H; cbn in H; try discriminate; [reflexivity|].
  apply andb_prop in H. destruct H as [H1 H2]. apply eqb_prop in H1. subst y.
  f_equal. apply IH. exact H2.
Qed.

Lemma bits_eqb_sym a : forall b, bits_eqb a b = bits_eqb b a.
Proof.
  induction a as [|x a IH]; intros [|y b]; cbn; try reflexivity.
  rewrite IH. destruct x, y; reflexivity.
Qed.

Lemma bits_eqb_app a1 : forall b1 a2 b2, length a1 = length b1 ->
  bits_eqb (a1 ++ a2) (b1 ++ b2) = bits_eqb a1 b1 && bits_eqb a2 b2.
Proof.
  induction a1 as [|x a1 IH]; intros [|y b1] a2 b2 Hlen; cbn in Hlen; try discriminate.
  - reflexivity.
  - cbn. rewrite IH by lia. rewrite andb_assoc. reflexivity.
Qed.

(* ------------------------------------------------------------------ bsum *)
Fixpoint bsum (n : nat) (f : list bool -> car K) : car K :=
  match n with
  | O => f []
  | S n' => bsum n' (fun t => f (false :: t)) + bsum n' (fun t => f (true :: t))
  end.

Lemma bsum_ext n : forall f g,
  (forall l, length l = n -> f l == g l) -> bsum n f == bsum n g.
Proof.
  induction n as [|n IH]; intros f g H; cbn.
  - apply H. reflexivity.
  - rewrite (IH (fun t => f (false :: t)) (fun t => g (false :: t))),
            (IH (fun t => f (true :: t)) (fun t => g (true :: t))).
    + reflexivity.
    + intros l Hl. apply H. cbn. lia.
    + intros l Hl. apply H. cbn. lia.
Qed.

Global Instance bsum_proper n : Proper (pointwise_relation _ (req K) ==> req K) (bsum n).
Proof. intros f g H. apply bsum_ext. intros l _. apply H. Qed.

Lemma rsum_cons x l : rsum K (x :: l) = x + rsum K l. Proof. reflexivity. Qed.
Lemma rsum_nil : rsum K [] = 0. Proof. reflexivity. Qed.
Lemma rprod_cons x l : rprod K (x :: l) = x * rprod K l. Proof. reflexivity. Qed.
Lemma rprod_nil : rprod K [] = 1. Proof. reflexivity. Qed.

Lemma rsum_flat_bits (f : list bool -> car K) (bl : list (list bool)) :
  rsum K (map f (flat_map (fun l => [false :: l; true :: l]) bl))
  == rsum K (map (fun l => f (false :: l)) bl) + rsum K (map (fun l => f (true :: l)) bl).
Proof.
  induction bl as [|l bl IH]; cbn [map flat_map app].
  - rewrite !rsum_nil. ring.
  - rewrite !rsum_cons, IH. ring.
Qed.

(* the sum as ZXSem writes it *)
Lemma rsum_bits n : forall f, rsum K (map f (bits n)) == bsum n f.
Proof.
  induction n as [|n IH]; intros f; cbn [bits bsum].
  - cbn [map]. rewrite rsum_cons, rsum_nil. ring.
  - rewrite rsum_flat_bits, !IH. reflexivity.
Qed.

Lemma bsum_add n : forall f g, bsum n (fun l => f l + g l) == bsum n f + bsum n g.
Proof.
  induction n as [|n IH]; intros f g; cbn; [reflexivity|].
  rewrite !IH. ring.
Qed.

Lemma bsum_zero n : bsum n (fun _ => 0) == 0.
Proof. induction n as [|n IH]; cbn; [reflexivity|]. rewrite IH. ring. Qed.

Lemma bsum_scale_l n : forall c f, bsum n (fun l => c * f l) == c * bsum n f.
Proof.
  induction n as [|n IH]; intros c f; cbn; [reflexivity|].
  rewrite !IH. ring.
Qed.

Lemma bsum_scale_r n : forall c f, bsum n (fun l => f l * c) == bsum n f * c.
Proof.
  induction n as [|n IH]; intros c f; cbn; [reflexivity|].
  rewrite !IH. ring.
Qed.

Lemma bsum_app n : forall m f,
  bsum (n + m) f == bsum n (fun a => bsum m (fun b => f (a ++ b))).
Proof.
  induction n as [|n IH]; intros m f; cbn [bsum Nat.add].
  - reflexivity.
  - rewrite !IH. reflexivity.
Qed.

Lemma bsum_swap n : forall m (f : list bool -> list bool -> car K),
  bsum n (fun a => bsum m (fun b => f a b)) == bsum m (fun b => bsum n (fun a => f a b)).
Proof.
  induction n as [|n IH]; intros m f; cbn [bsum].
  - reflexivity.
  - rewrite !IH. rewrite <- bsum_add. reflexivity.
Qed.

Lemma bsum_delta_r n : forall f k, length k = n ->
  bsum n (fun l => f l * delta K (bits_eqb l k)) == f k.
Proof.
  induction n as [|n IH]; intros f k Hk.
  - destruct k; [|discriminate]. cbn. ring.
  - destruct k as [|x k]; [discriminate|]. cbn in Hk. cbn [bsum].
    destruct x.
    + rewrite (bsum_ext n _ (fun _ => 0)).
      * rewrite bsum_zero. rewrite (IH (fun t => f (true :: t)) k) by lia. ring.
      * intros l _. cbn. ring.
    + rewrite (bsum_ext n (fun t => f (true :: t) * _) (fun _ => 0)).
      * rewrite bsum_zero. rewrite (IH (fun t => f (false :: t)) k) by lia. ring.
      * intros l _. cbn. ring.
Qed.

Lemma bsum_delta_l n : forall f k, length k = n ->
  bsum n (fun l => delta K (bits_eqb k l) * f l) == f k.
Proof.
  intros f k Hk. rewrite <- (bsum_delta_r n f k Hk). apply bsum_ext. intros l _.
  rewrite (bits_eqb_sym k l). ring.
Qed.

(* a sum of products of independent factors *)
Lemma bsum_prod n m (f g : list bool -> car K) :
  bsum n (fun a => bsum m (fun b => f a * g b)) == bsum n f * bsum m g.
Proof.
  rewrite <- bsum_scale_r. apply bsum_ext. intros a _. apply bsum_scale_l.
Qed.

(* one bit *)
Lemma bsum_1 f : bsum 1 f == f [false] + f [true].
Proof. reflexivity. Qed.

(* interleaved pairs: a string of length 2k read as (x1,y1),(x2,y2),... *)
Fixpoint evens (l : list bool) : list bool :=
  match l with x :: _ :: l' => x :: evens l' | _ => [] end.
Fixpoint odds (l : list bool) : list bool :=
  match l with _ :: y :: l' => y :: odds l' | _ => [] end.

Lemma bsum_pairs k : forall (f : list bool -> list bool -> car K),
  bsum (2 * k) (fun l => f (evens l) (odds l)) == bsum k (fun xs => bsum k (fun ys => f xs ys)).
Proof.
  induction k as [|k IH]; intros f.
  - reflexivity.
  - replace (2 * S k)%nat with (S (S (2 * k))) by lia. cbn [bsum evens odds].
    rewrite (IH (fun xs ys => f (false :: xs) (false :: ys))),
            (IH (fun xs ys => f (false :: xs) (true :: ys))),
            (IH (fun xs ys => f (true :: xs) (false :: ys))),
            (IH (fun xs ys => f (true :: xs) (true :: ys))).
    rewrite <- !bsum_add. reflexivity.
Qed.

Lemma evens_length k : forall l, length l = (2 * k)%nat -> length (evens l) = k.
Proof.
  induction k as [|k IH]; intros l Hl.
  - destruct l; [reflexivity|discriminate].
  - destruct l as [|x [|y l]]; cbn [length] in Hl; try lia.
    cbn [evens length]. f_equal. apply IH. lia.
Qed.

Lemma odds_length k : forall l, length l = (2 * k)%nat -> length (odds l) = k.
Proof.
  induction k as [|k IH]; intros l Hl.
  - destruct l; [reflexivity|discriminate].
  - destruct l as [|x [|y l]]; cbn [length] in Hl; try lia.
    cbn [odds length]. f_equal. apply IH. lia.
Qed.

(* ------------------------------------------------------------------ products *)
Lemma rprod_app l1 l2 : rprod K (l1 ++ l2) == rprod K l1 * rprod K l2.
Proof.
  induction l1 as [|x l1 IH]; cbn [app]; [rewrite rprod_nil; ring|].
  rewrite !rprod_cons, IH. ring.
Qed.

Lemma rprod_map_ext {A} (f g : A -> car K) l :
  (forall x, In x l -> f x == g x) -> rprod K (map f l) == rprod K (map g l).
Proof.
  induction l as [|x l IH]; intros H; cbn [map]; [reflexivity|].
  rewrite !rprod_cons, (H x (or_introl eq_refl)), IH; [reflexivity|].
  intros y Hy. apply H. now right.
Qed.

Lemma rpow_proper x y n : x == y -> rpow K x n == rpow K y n.
Proof.
  intros H. induction n as [|n IH]; cbn [rpow]; [reflexivity|].
  apply rmul_proper; assumption.
Qed.

End KSum.
