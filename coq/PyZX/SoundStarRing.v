(* Bridge to the abstract commutative *-ring of Quantum/Ring.v (the ring over which
   the other quantum properties are stated): every StarRing, with Leibniz equality,
   -1 := ropp 1 and its 1/sqrt 2, is a model of KSum.sring_laws, whatever rexp / rcplx
   are; with a phase map and a complex embedding that satisfy the three remaining
   laws it is a model of export_laws, so export soundness holds over it. *)
From Coq Require Import List ZArith QArith Bool Ring.
Require Import DV.Quantum.Ring.
Require Import DV.Common.Base DV.PyZX.PyZX DV.PyZX.ZXSem DV.PyZX.KSum DV.PyZX.PyZXSound.

Section Bridge.
Variable SR : StarRing.
Add Ring SRr : (SR_ring SR).
Variable e : Q -> SR.
Variable c : Q -> Q -> SR.

Definition ringops_of : ringops :=
  RO SR eq (DV.Quantum.Ring.r0) (DV.Quantum.Ring.r1) (DV.Quantum.Ring.radd) (DV.Quantum.Ring.rmul)
     (DV.Quantum.Ring.ropp DV.Quantum.Ring.r1) (DV.Quantum.Ring.risq2) e c.

Lemma starring_sring : sring_laws ringops_of.
Proof.
  constructor; cbn [ringops_of req ZXSem.radd ZXSem.rmul ZXSem.r0 ZXSem.r1 ZXSem.rneg1 ZXSem.risq2 car].
  - exact eq_equivalence.
  - intros a a' b b' -> ->. reflexivity.
  - intros a a' b b' -> ->. reflexivity.
  - intros a. ring.
  - intros a b. ring.
  - intros a b d. ring.
  - intros a. ring.
  - intros a. ring.
  - intros a b. ring.
  - intros a b d. ring.
  - intros a b d. ring.
  - ring.
  - apply isq2_sq.
Qed.

Hypothesis He : forall p, e (export_phase p * (1 # 2))%Q = e p.
Hypothesis Hc1 : c 1%Q 0%Q = DV.Quantum.Ring.r1.
Hypothesis Hcm : forall a b,
  c (fst (cmul a b)) (snd (cmul a b)) = DV.Quantum.Ring.rmul (c (fst a) (snd a)) (c (fst b) (snd b)).

Lemma starring_export_laws : export_laws ringops_of.
Proof. constructor; [exact starring_sring|exact He|exact Hc1|exact Hcm]. Qed.

(* export soundness over the StarRing, Leibniz equality of the entries *)
Theorem to_pyzx_sound_starring : forall dom cod bs g,
  zx_typed dom bs cod -> to_pyzx dom cod bs = Ok g ->
  forall i o, length i = dom -> length o = cod ->
    graph_sem ringops_of g i o = zx_sem ringops_of dom bs i o.
Proof. exact (to_pyzx_sound_export ringops_of starring_export_laws). Qed.
End Bridge.
