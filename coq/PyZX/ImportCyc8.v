(* Import soundness: the decidable form of the well-formedness hypothesis, non-vacuity,
   the executable ring Cyc8 as a model of import_laws, and why the hypotheses that
   ZXSem.from_pyzx_sound_stmt / from_pyzx_total_stmt lack are needed. *)
From Coq Require Import List ZArith QArith Qround Bool Arith Lia Sorted.
Import ListNotations.
Require Import DV.Common.Base DV.Core.Diagram DV.PyZX.PyZX DV.PyZX.PyZXLemmas DV.PyZX.ZXSem
  DV.PyZX.ZXSemLemmas DV.PyZX.KSum DV.PyZX.PyZXSound DV.PyZX.Cyc8Laws DV.PyZX.ImportEdges
  DV.PyZX.PyZXImport DV.PyZX.ImportTotal.

(* ------------------------------------------------------------------ graph_wf, decidable *)
Fixpoint nodupb (l : list nat) : bool :=
  match l with [] => true | x :: l' => negb (mem x l') && nodupb l' end.

Lemma nodupb_NoDup l : nodupb l = true -> NoDup l.
Proof.
  induction l as [|x l IH]; intros H; [constructor|]. cbn [nodupb] in H. apply andb_prop in H.
  destruct H as (H1 & H2). constructor; [|now apply IH]. apply negb_true_iff in H1. now apply mem_false.
Qed.

Definition graph_wfb (g : graph) : bool :=
  let vids := map vid (gverts g) in
  nodupb vids && nodupb (gins g) && nodupb (gouts g)
  && forallb (fun v => mem v vids) (gins g ++ gouts g)
  && forallb (fun e : edge => mem (fst (fst e)) vids && mem (snd (fst e)) vids) (gedges g).

Lemma graph_wfb_spec g : graph_wfb g = true -> graph_wf g.
Proof.
  unfold graph_wfb, graph_wf. intros H.
  repeat (apply andb_prop in H; let X := fresh "A" in destruct H as [H X]).
  split; [now apply nodupb_NoDup|]. split; [now apply nodupb_NoDup|]. split; [now apply nodupb_NoDup|].
  split.
  - intros v Hv. rewrite forallb_forall in A0. apply mem_In. now apply A0.
  - intros a b t Hin. rewrite forallb_forall in A. specialize (A _ Hin). cbn [fst snd] in A.
    apply andb_prop in A. destruct A as (Ea & Eb). split; now apply mem_In.
Qed.

(* the vertex list is sorted by id (pyzx's vertices()) *)
Fixpoint sortedb (l : list nat) : bool :=
  match l with
  | x :: (y :: _) as t => Nat.ltb x y && sortedb t
  | _ => true
  end.

Lemma sortedb_spec l : sortedb l = true -> StronglySorted lt l.
Proof.
  intros H. apply Sorted_StronglySorted; [intros a b c; apply Nat.lt_trans|].
  induction l as [|x l IH]; [constructor|]. destruct l as [|y l]; [repeat constructor|].
  cbn [sortedb] in H. apply andb_prop in H. destruct H as (H1 & H2). constructor.
  - apply IH. exact H2.
  - constructor. now apply Nat.ltb_lt in H1.
Qed.

(* every graph that to_pyzx exports from a listed diagram is well formed, sorted, in scope and imported *)
Definition import_hyps_ok (c : nat * nat * list (zxbox * nat)) : bool :=
  let '(dom, cod, bs) := c in
  match to_pyzx dom cod bs with
  | Ok g => graph_wfb g && sortedb (map vid (gverts g)) && graph_in_scope g &&
            match from_pyzx true true g with Ok _ => true | Err _ => false end
  | Err _ => false
  end.

Example import_hyps_nonvacuous :
  forallb import_hyps_ok (ex_f15a :: ex_f15b :: ex_f15b_plain :: (2%nat, 2%nat, ex_bialgebra) :: nil) = true.
Proof. vm_compute. reflexivity. Qed.

(* ------------------------------------------------------------------ Cyc8 *)
Theorem cyc8_import_laws : import_laws Cyc8.
Proof.
  split; [exact cyc8_export_laws|]. intros a b Hab. cbn [req rexp Cyc8].
  rewrite !c8_exp_floor. rewrite (Qfloor_comp (a * (8 # 1)) (b * (8 # 1))) by (now rewrite Hab).
  apply c8_eqb_refl.
Qed.

Theorem from_pyzx_sound_cyc8 : forall g d,
  graph_wf g -> graph_in_scope g = true -> from_pyzx true true g = Ok d ->
  forall i o, length i = length (gins g) -> length o = length (gouts g) ->
    c8_eqb (c8_mul (rcplx Cyc8 (fst (gscal g)) (snd (gscal g))) (core_sem Cyc8 d i o))
           (graph_sem Cyc8 g i o) = true.
Proof. exact (from_pyzx_sound Cyc8 cyc8_import_laws). Qed.

(* ------------------------------------------------------------------ the hypotheses are needed *)
(* in scope but not well formed (the boundaries are not vertices): from_pyzx returns the
   identity wire, the graph's tensor is the constant 2 *)
Definition g_nowf : graph := G [] [(0%nat, 1%nat, 1%Z)] [0%nat] [1%nat] (1%Q, 0%Q).

Theorem from_pyzx_sound_needs_wf :
  graph_in_scope g_nowf = true /\
  exists d, from_pyzx true true g_nowf = Ok d /\
    ~ req Cyc8 (rmul Cyc8 (rcplx Cyc8 (fst (gscal g_nowf)) (snd (gscal g_nowf)))
                  (core_sem Cyc8 d [false] [true]))
               (graph_sem Cyc8 g_nowf [false] [true]).
Proof.
  split; [vm_compute; reflexivity|]. eexists. split; [vm_compute; reflexivity|].
  vm_compute. discriminate.
Qed.

(* ZXSem.from_pyzx_total_stmt as stated is false: a graph in scope whose vertex list is
   not in increasing order is refused (v < node decides the direction of an edge) *)
Definition g_unsorted : graph :=
  G [V 5%nat 1 0 0 0; V 3%nat 1 0 0 0] [(3%nat, 5%nat, 1%Z)] [] [] (1%Q, 0%Q).

Theorem from_pyzx_total_stmt_refuted : forall fa fb, ~ from_pyzx_total_stmt fa fb.
Proof.
  intros fa fb H. destruct (H g_unsorted) as (_ & d & Hd); [vm_compute; reflexivity|].
  destruct fa, fb; vm_compute in Hd; discriminate.
Qed.

(* decidable hypotheses: never refused *)
Theorem from_pyzx_total_dec : forall g,
  graph_wfb g = true -> sortedb (map vid (gverts g)) = true -> graph_in_scope g = true ->
  graph_balanced g = true /\ exists d, from_pyzx true true g = Ok d.
Proof.
  intros g H1 H2 H3. apply from_pyzx_total; [apply graph_wfb_spec; exact H1|exact H3|apply sortedb_spec; exact H2].
Qed.
