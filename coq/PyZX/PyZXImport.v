(* Import soundness of zx.Diagram.from_pyzx (both repairs on = the code as it is now):

     rcplx (gscal g) * core_sem (from_pyzx g) = graph_sem g        every entry

   for every well-formed graph in the scope of the model, i.e. ZXSem.from_pyzx_sound_stmt
   true true under the (decidable) well-formedness hypotheses it lacks; plus the
   handshake identity of ZXSem.from_pyzx_total_stmt.

   Route: [import_export] (combinatorics, ImportSim.v + ImportEdges.v): to_pyzx accepts
   the imported diagram and rebuilds the graph up to the order / orientation of the
   edges and the order / names of the vertices; [gsum_iso] (GraphIso.v): graph_sem does
   not see that difference; [to_pyzx_sound_export] (PyZXSound.v): the rebuilt graph
   denotes the diagram. *)
From Coq Require Import List ZArith QArith Bool Arith Lia Setoid Morphisms Permutation.
Import ListNotations.
Require Import DV.Common.Base DV.Core.Diagram DV.PyZX.PyZX DV.PyZX.PyZXLemmas DV.PyZX.ZXSem
  DV.PyZX.KSum DV.PyZX.PyZXSound DV.PyZX.GraphIso DV.PyZX.ImportSim DV.PyZX.ImportEdges.
Local Open Scope nat_scope.

Lemma add_outputs_ok rowz n : forall i st outs, i + n <= length (t_scan st) ->
  exists st' outs', add_outputs rowz i n st outs = Ok (st', outs').
Proof.
  induction n as [|n IH]; intros i st outs H; cbn [add_outputs]; [eauto|].
  destruct (nth_error (t_scan st) i) as [[s h]|] eqn:E; [|apply nth_error_None in E; lia].
  apply IH. cbn [t_scan]. lia.
Qed.

Definition rhoE (rho : nat -> nat) (e : edge) : edge := (rho (fst (fst e)), rho (snd (fst e)), snd e).

Lemma mk_edges_fo rho g B :
  mk_edges (map (fo rho g) B) (map (fun p => rho (fst p)) B)
  = map (fun p : nat * nat => (rho (snd p), rho (fst p), ImportEdges.ety g (snd p) (fst p))) B.
Proof. induction B as [|[o nd] B IH]; [reflexivity|]. cbn [map mk_edges fo fst snd]. now rewrite IH. Qed.

Lemma es_of_heads rho g recs :
  es_of rho g recs
  = map (rhoE rho) (flat_map (fun r => map (fun v => (v, fst r, ImportEdges.ety g v (fst r))) (snd r)) recs).
Proof.
  unfold es_of. induction recs as [|r recs IH]; [reflexivity|]. cbn [flat_map].
  rewrite map_app, IH, map_map. reflexivity.
Qed.

(* ================================================================== the structural theorem *)
Theorem import_export g d : graph_wf g -> graph_in_scope g = true -> from_pyzx true true g = Ok d ->
  let n := length (gins g) in let rho := rho_of (Lall g) in
  exists g', to_pyzx n (length (gouts g)) (bl d) = Ok g' /\
    zx_typed n (bl d) (length (gouts g)) /\ gscal g' = (1%Q, 0%Q) /\
    gins g' = map rho (gins g) /\ gouts g' = map rho (gouts g) /\
    (exists vs0 vl ovs, gverts g' = vs0 ++ vl ++ ovs /\ map vid vs0 = map rho (gins g) /\
       map vid vl = map rho (spider_nodes g) /\ Forall2 (vdata_ok g) (spider_nodes g) vl /\
       map vid ovs = map rho (gouts g)) /\
    (exists recs B, map fst recs = spider_nodes g /\
       Forall (fun r => Permutation (snd r) (node_inputs g (fst r))) recs /\
       map fst B = gouts g /\ Forall (fun p => neighbors g (fst p) = [snd p]) B /\
       gedges g' = map (rhoE rho) (heads g recs B)).
Proof.
  intros Hwf Hsc H n rho. unfold from_pyzx in H.
  destruct (missing_boundary g); [discriminate|]. destruct (duplicate_boundary g); [discriminate|].
  bind_inv H. destruct a as [scanF dF]. cbn [fst snd] in H. fold n in E.
  pose proof (Lall_NoDup g Hwf Hsc) as Hnd.
  destruct (map_rho_parts _ _ _ Hnd) as (Ri & Rs & Ro). fold (Lall g) in Ri, Rs, Ro. fold rho in Ri, Rs, Ro.
  fold n in Ri, Rs, Ro.
  destruct (spider_loop_sim rho g (spider_nodes g) (gins g) (zid n) scanF dF E (blok_zid n))
    as (recs & nb1 & Hr1 & Hr2 & BdF & LdF & Ty1 & Len1 & In1 & Run1).
  { intros w _. apply (node_inputs_NoDup g Hsc). }
  destruct (out_loop_sim rho g (gouts g) 0 scanF dF d [] scanF H BdF eq_refl eq_refl)
    as (nb2 & B & rest' & HB1 & HB2 & Bd & Ld & Ty2 & HpB & Run2).
  (* the frontier is exactly the outputs *)
  assert (HlenF : length scanF = length (gouts g)).
  { pose proof (graph_balanced_holds g Hwf Hsc) as Hbal. unfold graph_balanced in Hbal.
    apply Nat.eqb_eq in Hbal. rewrite total_in_sum, total_out_sum in Hbal. fold n in Len1. unfold n in *. lia. }
  assert (HlenB : length B = length (gouts g)) by (rewrite <- HB1; now rewrite map_length).
  assert (rest' = []).
  { apply Permutation_length in HpB. rewrite app_length, map_length in HpB.
    destruct rest'; [reflexivity|cbn in HpB; lia]. }
  subst rest'.
  (* the run of to_pyzx *)
  rewrite bl_zid in LdF. cbn [app] in LdF.
  assert (Ebl : bl d = nb1 ++ nb2) by (rewrite Ld, LdF; reflexivity).
  destruct (init_state_inv n) as (Hinv0 & _ & L0).
  assert (Escan0 : t_scan (init_state n) = map (fun v => (rho v, false)) (gins g)).
  { unfold init_state. cbn [t_scan]. rewrite <- Ri, map_map. reflexivity. }
  destruct (Run1 0 (t_vs (init_state n)) [] (1%Q, 0%Q)) as (vl & R1 & Hvl & Dvl).
  { rewrite L0. exact Rs. }
  specialize (Run2 (0 + length nb1) (t_vs (init_state n) ++ vl) ([] ++ es_of rho g recs) (1%Q, 0%Q)).
  cbn [map app] in Run2. rewrite app_nil_r in Run2.
  assert (Erun : run_boxes 0 (init_state n) (bl d)
                 = Ok (T (t_vs (init_state n) ++ vl) (es_of rho g recs) (map (fo rho g) B) (1%Q, 0%Q))).
  { rewrite Ebl, run_boxes_app.
    replace (init_state n) with (T (t_vs (init_state n)) [] (map (fun v => (rho v, false)) (gins g)) (1%Q, 0%Q))
      by (rewrite <- Escan0; reflexivity).
    rewrite R1. cbn [bind]. exact Run2. }
  set (stF := T (t_vs (init_state n) ++ vl) (es_of rho g recs) (map (fo rho g) B) (1%Q, 0%Q)) in *.
  destruct (add_outputs_ok (Z.of_nat (length (bl d)) + 1) (length (gouts g)) 0 stF [])
    as (st' & outs' & Eout).
  { cbn [t_scan stF]. rewrite map_length. lia. }
  destruct (add_outputs_closed _ _ _ _ _ _ _ Eout) as (ovs & Hv & Hid & He & Houts & Hscal).
  cbn [t_vs t_es t_scan t_scal stF skipn] in Hv, Hid, He, Houts, Hscal.
  assert (HlvF : length (t_vs (init_state n) ++ vl) = n + length (spider_nodes g)).
  { rewrite app_length, L0. f_equal. rewrite <- (map_length vid vl), Hvl, seq_length. reflexivity. }
  rewrite HlvF in Hid, He, Houts.
  exists (G (t_vs st') (t_es st') (seq 0 n) outs' (t_scal st')).
  split; [|split; [|split; [|split; [|split; [|split]]]]].
  - unfold to_pyzx. rewrite Erun. cbn [bind]. rewrite Eout. reflexivity.
  - rewrite Ebl. apply (zx_typed_app _ _ (length scanF)).
    + exact Ty1.
    + rewrite <- HlenF. exact Ty2.
  - cbn [gscal]. exact Hscal.
  - cbn [gins]. now rewrite Ri.
  - cbn [gouts]. rewrite Houts, Ro. reflexivity.
  - exists (t_vs (init_state n)), vl, ovs. cbn [gverts]. rewrite Hv, <- app_assoc.
    split; [reflexivity|]. split; [|split; [|split]].
    + destruct Hinv0 as (HI & _). unfold ids_ok in HI. rewrite HI, L0, Ri. reflexivity.
    + rewrite Hvl, L0, Rs. reflexivity.
    + exact Dvl.
    + rewrite Hid, Ro. reflexivity.
  - exists recs, B. split; [exact Hr1|]. split; [exact Hr2|]. split; [exact HB1|]. split; [exact HB2|].
    cbn [gedges]. rewrite He. unfold heads. rewrite map_app, <- es_of_heads. f_equal.
    rewrite firstn_all2 by (rewrite map_length; lia).
    rewrite <- Ro, <- HB1, map_map. rewrite mk_edges_fo, map_map. reflexivity.
Qed.

(* ================================================================== the semantic theorem *)
(* the laws: those of the export, and rexp respects Qeq (node2box normalises the phase) *)
Record import_laws (K : ringops) : Prop := {
  il_export : export_laws K;
  il_exp_eq : forall a b, Qeq a b -> req K (rexp K a) (rexp K b) }.

Lemma ring_laws_import K : ring_laws K -> cplx_proper K -> import_laws K.
Proof. intros HR HC. split; [apply ring_laws_export; assumption|apply (rl_exp_eq K HR)]. Qed.

Definition getv (g : graph) (id : nat) : vertex :=
  match find_vertex g id with Some v => v | None => V id 0 0 0 0 end.

Lemma find_self (l : list vertex) v : NoDup (map vid l) -> In v l ->
  find (fun x => Nat.eqb (vid x) (vid v)) l = Some v.
Proof.
  induction l as [|x l IH]; intros Hnd Hin; [contradiction|]. cbn [find map] in *.
  inversion Hnd as [|? ? Hx Hnd']; subst. destruct Hin as [->|Hin].
  - now rewrite Nat.eqb_refl.
  - destruct (Nat.eqb_spec (vid x) (vid v)) as [E|E]; [|now apply IH].
    exfalso. apply Hx. rewrite E. now apply in_map.
Qed.

Lemma getv_verts g : NoDup (map vid (gverts g)) -> map (getv g) (map vid (gverts g)) = gverts g.
Proof.
  intros H. rewrite map_map. rewrite <- (map_id (gverts g)) at 2. apply map_ext_in. intros v Hv.
  unfold getv, find_vertex. now rewrite (find_self _ _ H Hv).
Qed.

Lemma getv_vid g w : In w (map vid (gverts g)) -> vid (getv g w) = w.
Proof.
  intros H. unfold getv, find_vertex. destruct (find _ (gverts g)) as [v|] eqn:E; [|reflexivity].
  apply find_some in E. destruct E as (_ & E). now apply Nat.eqb_eq in E.
Qed.

Lemma pos_of_In v l : In v l -> pos_of v l <> None.
Proof.
  induction l as [|y l IH]; intros H; [contradiction|]. cbn [pos_of].
  destruct (Nat.eqb_spec y v); [discriminate|]. destruct H as [H|H]; [contradiction|].
  destruct (pos_of v l); [discriminate|]. now apply IH in H.
Qed.

Section Import.
Context {K : ringops}.
Hypothesis HI : import_laws K.
Local Instance HLs : sring_laws K := el_sring K (il_export K HI).

Notation "x == y" := (req K x y) (at level 70, no associativity) : K_scope.
Notation "x * y" := (rmul K x y) : K_scope.
Local Open Scope K_scope.
Add Ring Kring4 : (@K_srt K HLs) (setoid (@req_equiv K HLs) (@K_ext K HLs)).

Lemma vrel_boundary g rho ws : forall vl, map vid vl = map rho ws ->
  (forall w, In w ws -> In w (map vid (gverts g)) /\ (In w (gins g) \/ In w (gouts g))) ->
  Forall2 (@vrel K rho (gins g) (gouts g)) (map (getv g) ws) vl.
Proof.
  induction ws as [|w ws IH]; intros [|v' vl] E H; cbn [map] in *; try discriminate; constructor.
  - destruct (H w (or_introl eq_refl)) as (Hw & Hb). inversion E. split.
    + now rewrite getv_vid.
    + rewrite getv_vid by exact Hw. intros P1 P2. exfalso.
      destruct Hb as [Hb|Hb]; [exact (pos_of_In _ _ Hb P1)|exact (pos_of_In _ _ Hb P2)].
  - apply IH; [now inversion E|]. intros x Hx. apply H. now right.
Qed.

Lemma vrel_spiders g rho ws : forall vl, map vid vl = map rho ws -> Forall2 (vdata_ok g) ws vl ->
  (forall w, In w ws -> In w (map vid (gverts g))) ->
  Forall2 (@vrel K rho (gins g) (gouts g)) (map (getv g) ws) vl.
Proof.
  induction ws as [|w ws IH]; intros [|v' vl] E HD H; cbn [map] in *; try discriminate; constructor.
  - inversion HD as [|? ? ? ? (Dty & Dph) _]; subst. inversion E. split.
    + now rewrite getv_vid by (apply H; now left).
    + intros _ _. split.
      * rewrite Dty. unfold vtype, getv. destruct (find_vertex g w); reflexivity.
      * rewrite Dph. unfold sphase.
        rewrite (el_exp K (il_export K HI)). apply (il_exp_eq K HI). rewrite Qred_correct.
        unfold vphase_of, getv. destruct (find_vertex g w); reflexivity.
  - inversion HD; subst. apply IH; [now inversion E|assumption|]. intros x Hx. apply H. now right.
Qed.

Theorem from_pyzx_sound_gen g d : graph_wf g -> graph_in_scope g = true ->
  from_pyzx true true g = Ok d ->
  forall i o, length i = length (gins g) -> length o = length (gouts g) ->
    rcplx K (fst (gscal g)) (snd (gscal g)) * core_sem K d i o == graph_sem K g i o.
Proof.
  intros Hwf Hsc H i o Hi Ho.
  destruct (import_export g d Hwf Hsc H) as
    (g' & Hto & Hty & Hscal & Hi' & Ho' & (vs0 & vl & ovs & Hv & Iv0 & Ivl & Dvl & Iov) &
     (recs & B & Hr1 & Hr2 & HB1 & HB2 & He)).
  set (rho := rho_of (Lall g)) in *.
  destruct (from_pyzx_arity _ _ _ _ H) as (Hdom & _).
  rewrite core_sem_bl, Hdom, pro_length.
  rewrite <- (to_pyzx_sound_export K (il_export K HI) _ _ _ _ Hty Hto i o Hi Ho).
  rewrite !graph_sem_gsum, Hscal. cbn [fst snd]. rewrite (el_cplx_1 K (il_export K HI)).
  transitivity (rcplx K (fst (gscal g)) (snd (gscal g)) * gsum g' i o); [ring|].
  apply rmul_proper; [reflexivity|]. symmetry.
  pose proof (Lall_NoDup g Hwf Hsc) as Hnd.
  assert (Hvids : forall w, In w (Lall g) -> In w (map vid (gverts g))) by (intros w; apply (Lall_vids g Hwf)).
  destruct Hwf as (Nv & Ni & No & Hincl & Hend).
  apply (gsum_iso rho (Lall g)).
  - apply rho_inj. exact Hnd.
  - intros x Hx. apply (Lall_vids g (conj Nv (conj Ni (conj No (conj Hincl Hend))))). exact Hx.
  - intros x Hx. unfold Lall. apply in_or_app. now left.
  - intros x Hx. unfold Lall. apply in_or_app. right. apply in_or_app. now right.
  - exact Hi'.
  - exact Ho'.
  - exists (map (getv g) (Lall g)). split.
    + rewrite <- (getv_verts g Nv) at 1. apply Permutation_map.
      apply (Lall_perm g (conj Nv (conj Ni (conj No (conj Hincl Hend)))) Hsc).
    + rewrite Hv. unfold Lall. rewrite !map_app. apply Forall2_app; [|apply Forall2_app].
      * apply vrel_boundary; [exact Iv0|]. intros w Hw. split; [|now left].
        apply Hincl, in_or_app. now left.
      * apply vrel_spiders; [exact Ivl|exact Dvl|]. intros w Hw. apply Hvids. unfold Lall.
        apply in_or_app. right. apply in_or_app. now left.
      * apply vrel_boundary; [exact Iov|]. intros w Hw. split; [|now right].
        apply Hincl, in_or_app. now right.
  - pose proof (oriented_perm g (conj Nv (conj Ni (conj No (conj Hincl Hend)))) Hsc recs B Hr1 Hr2 HB1 HB2) as HP.
    symmetry in HP. apply Permutation_map_inv in HP. destruct HP as (E1 & EE & PE).
    exists E1. split; [exact PE|]. rewrite He, EE.
    assert (HE1 : forall e, In e E1 -> In e (gedges g)) by (intros e He1; eapply Permutation_in; [symmetry; exact PE|exact He1]).
    clear EE PE He. induction E1 as [|[[a b] t] E1 IH]; cbn [map]; constructor.
    + destruct (Hend a b t (HE1 _ (or_introl eq_refl))) as (Ha & Hb).
      assert (HaL : In a (Lall g)) by (apply (Lall_vids g (conj Nv (conj Ni (conj No (conj Hincl Hend))))); exact Ha).
      assert (HbL : In b (Lall g)) by (apply (Lall_vids g (conj Nv (conj Ni (conj No (conj Hincl Hend))))); exact Hb).
      unfold orient, rhoE. destruct (th g a b); cbn [erel fst snd]; auto 10.
    + apply IH. intros e He1. apply HE1. now right.
Qed.

End Import.

(* ================================================================== closed statements *)
(* IMPORT SOUNDNESS (the code as it is: both repairs of F15 in place).  For every ring
   with the laws and every well-formed graph in scope that from_pyzx accepts: the
   imported diagram, times the scalar the graph carries, denotes the graph's tensor. *)
Theorem from_pyzx_sound : forall K, import_laws K -> forall g d,
  graph_wf g -> graph_in_scope g = true -> from_pyzx true true g = Ok d ->
  forall i o, length i = length (gins g) -> length o = length (gouts g) ->
    req K (rmul K (rcplx K (fst (gscal g)) (snd (gscal g))) (core_sem K d i o)) (graph_sem K g i o).
Proof. intros K HI g d. apply (@from_pyzx_sound_gen K HI g d). Qed.

Theorem from_pyzx_sound_ring_laws : forall K, ring_laws K -> cplx_proper K -> forall g d,
  graph_wf g -> graph_in_scope g = true -> from_pyzx true true g = Ok d ->
  forall i o, length i = length (gins g) -> length o = length (gouts g) ->
    req K (rmul K (rcplx K (fst (gscal g)) (snd (gscal g))) (core_sem K d i o)) (graph_sem K g i o).
Proof. intros K HR HC. apply from_pyzx_sound, ring_laws_import; assumption. Qed.

(* the handshake identity, part of ZXSem.from_pyzx_total_stmt *)
Theorem graph_balanced_in_scope : forall g,
  graph_wf g -> graph_in_scope g = true -> graph_balanced g = true.
Proof. exact graph_balanced_holds. Qed.

(* hence the imported diagram has the arity of the graph *)
Theorem from_pyzx_arity_in_scope : forall fa fb g d,
  graph_wf g -> graph_in_scope g = true -> from_pyzx fa fb g = Ok d ->
  ddom d = pro (length (gins g)) /\ dcod d = pro (length (gouts g)).
Proof.
  intros fa fb g d Hwf Hsc H. destruct (from_pyzx_arity _ _ _ _ H) as (H1 & H2).
  split; [exact H1|]. apply H2. now apply graph_balanced_holds.
Qed.

(* round trip: importing the exported graph of a diagram gives a diagram with the same matrix *)
Theorem round_trip_sound : forall K, import_laws K -> forall dom cod bs g d,
  zx_typed dom bs cod -> to_pyzx dom cod bs = Ok g ->
  graph_wf g -> graph_in_scope g = true -> from_pyzx true true g = Ok d ->
  forall i o, length i = dom -> length o = cod ->
    req K (rmul K (rcplx K (fst (gscal g)) (snd (gscal g))) (core_sem K d i o)) (zx_sem K dom bs i o).
Proof.
  intros K HI dom cod bs g d Hty Hto Hwf Hsc Hfrom i o Hi Ho.
  pose proof (el_sring K (il_export K HI)) as HL.
  destruct (to_pyzx_shape _ _ _ _ Hto) as (_ & _ & Gi & Go & _).
  rewrite (from_pyzx_sound K HI g d Hwf Hsc Hfrom i o)
    by (rewrite ?Gi, ?Go, seq_length; assumption).
  apply (to_pyzx_sound_export K (il_export K HI) dom cod bs g Hty Hto i o Hi Ho).
Qed.
