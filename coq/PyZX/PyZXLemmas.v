(* Proofs about the to_pyzx / from_pyzx model (property C17). *)
From Coq Require Import List ZArith QArith Bool Lia.
Import ListNotations.
Require Import DV.Common.Base DV.Common.ListLemmas DV.Core.Diagram DV.Core.WF
  DV.Core.DiagramLemmas DV.Core.Perm DV.Core.Route DV.Core.PermLemmas DV.PyZX.PyZX.
Open Scope Z_scope.

Ltac bind_inv H :=
  match type of H with
  | bind ?x _ = Ok _ =>
      let E := fresh "E" in destruct x eqn:E; [cbn [bind] in H | discriminate H]
  end.

(* ================================================================== PRO types *)
Lemma pro_app a b : pro a ++ pro b = pro (a + b).
Proof. unfold pro. now rewrite repeat_app. Qed.

Lemma pro_length n : length (pro n) = n.
Proof. apply repeat_length. Qed.

Lemma pro_inj a b : pro a = pro b -> a = b.
Proof. intros H. apply (f_equal (@length ob)) in H. now rewrite !pro_length in H. Qed.

(* a well-typed ZX diagram from n wires to k wires *)
Definition okd (d : diagram) (n k : nat) : Prop := wf d /\ ddom d = pro n /\ dcod d = pro k.

Lemma zid_okd n : okd (zid n) n n.
Proof. unfold okd, zid. split; [apply did_wf|]. split; reflexivity. Qed.

Lemma had_okd : okd had_d 1 1.
Proof. unfold okd, had_d. split; [apply dbox_wf|]. split; reflexivity. Qed.

Lemma dthen_okd a b d n k k' m :
  okd a n k -> okd b k' m -> dthen a b = Ok d -> okd d n m /\ k = k'.
Proof.
  intros (Wa & Da & Ca) (Wb & Db & Cb) H.
  destruct (dthen_wf _ _ _ Wa Wb H) as (Wd & Dd & Cd).
  destruct (dthen_inv _ _ _ H) as (Hm & _).
  destruct Wa as (_ & A2 & _), Wb as (B1 & _).
  split; [split; [exact Wd|split; congruence]|].
  apply pro_inj. congruence.
Qed.

Lemma dtensor_okd a b d n k n' k' :
  okd a n k -> okd b n' k' -> dtensor a b = Ok d -> okd d (n + n') (k + k').
Proof.
  intros (Wa & Da & Ca) (Wb & Db & Cb) H.
  destruct (dtensor_wf _ _ _ Wa Wb H) as (Wd & Dd & Cd).
  split; [exact Wd|]. rewrite Dd, Cd, Da, Ca, Db, Cb, !pro_app. split; reflexivity.
Qed.

Lemma dswap_okd a b d : dswap (pro a) (pro b) = Ok d -> okd d (a + b) (a + b).
Proof.
  intros H. destruct (dswap_spec _ _ _ H) as (W & Dd & Cd & _).
  split; [exact W|]. rewrite Dd, Cd, !pro_app. split; [reflexivity|]. f_equal. lia.
Qed.

(* ================================================================== move *)
Lemma move_okd nd scan s t scan' sw :
  move nd scan s t = Ok (scan', sw) -> exists n, okd sw n n.
Proof.
  unfold move. intros H.
  destruct (Nat.ltb t s).
  - bind_inv H. bind_inv H. bind_inv H. inversion H; subst.
    eexists. eapply dtensor_okd; [|apply zid_okd|exact E1].
    eapply dtensor_okd; [apply zid_okd| |exact E0]. eapply dswap_okd; exact E.
  - destruct (Nat.ltb s t).
    + bind_inv H. bind_inv H. bind_inv H. inversion H; subst.
      eexists. eapply dtensor_okd; [|apply zid_okd|exact E1].
      eapply dtensor_okd; [apply zid_okd| |exact E0]. eapply dswap_okd; exact E.
    + inversion H; subst. eexists. apply zid_okd.
Qed.

Lemma mwa_loop_okd fa node offset rest : forall i scan d scan' d' n k,
  okd d n k -> mwa_loop fa node offset i rest scan d = Ok (scan', d') -> okd d' n k.
Proof.
  induction rest as [|v rest IH]; intros i scan d scan' d' n k Hd H; cbn [mwa_loop] in H.
  - inversion H; subst; exact Hd.
  - destruct (index_of v scan) as [source|]; [|discriminate].
    bind_inv H. destruct a as [sc sw]. bind_inv H. cbn [fst snd] in *.
    destruct (move_okd _ _ _ _ _ _ E) as (m & Hsw).
    destruct (dthen_okd _ _ _ _ _ _ _ Hd Hsw E0) as (Hd' & ->).
    eapply IH; [exact Hd'|exact H].
Qed.

Lemma make_wires_adjacent_okd fa node scan d inputs scan' d' off n k :
  okd d n k -> make_wires_adjacent fa node scan d inputs = Ok (scan', d', off) -> okd d' n k.
Proof.
  unfold make_wires_adjacent. intros Hd H. destruct inputs as [|v0 rest].
  - inversion H; subst; exact Hd.
  - destruct (index_of v0 scan); [|discriminate]. bind_inv H. destruct a as [sc dd].
    inversion H; subst. cbn [fst snd] in *. eapply mwa_loop_okd; eauto.
Qed.

(* ================================================================== Hadamard rows *)
Lemma tensor_all_err ds e :
  fold_left (fun acc x => do a <- acc; dtensor a x) ds (Err e) = Err e.
Proof. induction ds; cbn; auto. Qed.

Lemma tensor_all_gen ds : forall acc a hs,
  Forall (fun x => okd x 1 1) ds -> okd acc a a ->
  fold_left (fun acc x => do a <- acc; dtensor a x) ds (Ok acc) = Ok hs ->
  okd hs (a + length ds) (a + length ds).
Proof.
  induction ds as [|x ds IH]; intros acc a hs HF Ha H; cbn in H.
  - inversion H; subst. cbn. now rewrite Nat.add_0_r.
  - inversion HF; subst. destruct (dtensor acc x) as [t|e] eqn:E.
    + cbn [length]. replace (a + S (length ds))%nat with ((a + 1) + length ds)%nat by lia.
      eapply IH; [assumption| |exact H]. eapply dtensor_okd; eauto.
    + rewrite tensor_all_err in H. discriminate.
Qed.

Lemma tensor_all_okd ds hs :
  Forall (fun x => okd x 1 1) ds -> tensor_all ds = Ok hs -> okd hs (length ds) (length ds).
Proof. intros HF H. apply (tensor_all_gen ds (zid 0) 0%nat hs HF (zid_okd 0) H). Qed.

Lemma node2box_okd g node nin nout bx :
  node2box g node nin nout = Ok bx -> okd (dbox bx) nin nout.
Proof.
  unfold node2box. destruct (negb _); [discriminate|]. intros H; inversion H; subst.
  split; [apply dbox_wf|]. split; reflexivity.
Qed.

(* ================================================================== sorting keeps the length *)
Lemma mapM_length {A B} (f : A -> res B) l : forall r, mapM f l = Ok r -> length r = length l.
Proof.
  induction l as [|x l IH]; intros r H; cbn in H.
  - inversion H; reflexivity.
  - destruct (f x); [|discriminate]. cbn [bind] in H. destruct (mapM f l); [|discriminate].
    cbn [bind] in H. inversion H; subst. cbn. f_equal. now apply IH.
Qed.

Lemma insert_by_length k v l : length (insert_by k v l) = S (length l).
Proof.
  induction l as [|[k' v'] l IH]; cbn [insert_by]; [reflexivity|].
  destruct (Nat.ltb k k'); cbn [length]; [reflexivity|]. now rewrite IH.
Qed.

Lemma fold_insert_length (keyed : list (nat * nat)) : forall acc,
  length (fold_left (fun acc kv => insert_by (fst kv) (snd kv) acc) keyed acc)
  = (length acc + length keyed)%nat.
Proof.
  induction keyed as [|kv keyed IH]; intros acc; cbn; [lia|].
  rewrite IH, insert_by_length. lia.
Qed.

Lemma sort_by_index_length scan l r : sort_by_index scan l = Ok r -> length r = length l.
Proof.
  unfold sort_by_index. intros H. bind_inv H. inversion H; subst.
  rewrite map_length, fold_insert_length. cbn. now apply mapM_length in E.
Qed.

(* ================================================================== one spider *)
Lemma spider_step_okd fa g scan d node scan' d' n k :
  okd d n k -> spider_step fa g (scan, d) node = Ok (scan', d') ->
  exists k', okd d' n k' /\
    (k' + length (node_inputs g node) = k + length (node_outputs g node))%nat.
Proof.
  intros Hd H. unfold spider_step in H.
  bind_inv H. rename a into inputs. pose proof (sort_by_index_length _ _ _ E) as Hlen.
  bind_inv H. destruct a as [[scan1 d1] offset].
  pose proof (make_wires_adjacent_okd _ _ _ _ _ _ _ _ _ _ Hd E0) as Hd1.
  bind_inv H. rename a into hs. bind_inv H. rename a into bx.
  bind_inv H. rename a into hb. bind_inv H. rename a into t1. bind_inv H. rename a into t2.
  bind_inv H. rename a into d2. inversion H; subst scan' d'. clear H.
  assert (Hhs : okd hs (length (firstn (length inputs) (skipn offset scan1)))
                       (length (firstn (length inputs) (skipn offset scan1)))).
  { erewrite <- map_length. eapply tensor_all_okd; [|exact E1].
    apply Forall_forall. intros x Hx. apply in_map_iff in Hx. destruct Hx as (i & <- & _).
    destruct (_ =? 2); [apply had_okd|apply zid_okd]. }
  pose proof (node2box_okd _ _ _ _ _ E2) as Hbx.
  destruct (dthen_okd _ _ _ _ _ _ _ Hhs Hbx E3) as (Hhb & HL).
  rewrite HL in Hhb.
  pose proof (dtensor_okd _ _ _ _ _ _ _ (zid_okd offset) Hhb E4) as Ht1.
  pose proof (dtensor_okd _ _ _ _ _ _ _ Ht1 (zid_okd _) E5) as Ht2.
  destruct (dthen_okd _ _ _ _ _ _ _ Hd1 Ht2 E6) as (Hd2 & Hk).
  eexists. split; [exact Hd2|].
  destruct Hd1 as (_ & _ & C1). rewrite C1, pro_length in Hk. rewrite C1, pro_length.
  rewrite <- Hlen. lia.
Qed.

Fixpoint sum_in (g : graph) (nodes : list nat) : nat :=
  match nodes with [] => O | v :: r => (length (node_inputs g v) + sum_in g r)%nat end.
Fixpoint sum_out (g : graph) (nodes : list nat) : nat :=
  match nodes with [] => O | v :: r => (length (node_outputs g v) + sum_out g r)%nat end.

Lemma total_in_sum g : total_in g = sum_in g (spider_nodes g).
Proof. unfold total_in. induction (spider_nodes g); cbn; congruence. Qed.
Lemma total_out_sum g : total_out g = sum_out g (spider_nodes g).
Proof. unfold total_out. induction (spider_nodes g); cbn; congruence. Qed.

Lemma spider_loop_okd fa g nodes : forall scan d scan' d' n k,
  okd d n k -> spider_loop fa g (scan, d) nodes = Ok (scan', d') ->
  exists k', okd d' n k' /\ (k' + sum_in g nodes = k + sum_out g nodes)%nat.
Proof.
  induction nodes as [|v nodes IH]; intros scan d scan' d' n k Hd H; cbn [spider_loop] in H.
  - inversion H; subst. exists k. split; [exact Hd|reflexivity].
  - bind_inv H. destruct a as [sc1 d1].
    destruct (spider_step_okd _ _ _ _ _ _ _ _ _ Hd E) as (k1 & Hd1 & Hk1).
    destruct (IH _ _ _ _ _ _ Hd1 H) as (k2 & Hd2 & Hk2).
    exists k2. split; [exact Hd2|]. cbn [sum_in sum_out]. lia.
Qed.

(* ================================================================== the output loop *)
Lemma out_loop_okd fb g outs : forall target scan d d' n k,
  okd d n k -> out_loop fb g target outs scan d = Ok d' -> okd d' n k.
Proof.
  induction outs as [|o outs IH]; intros target scan d d' n k Hd H; cbn [out_loop] in H.
  - inversion H; subst; exact Hd.
  - destruct (neighbors g o) as [|node [|? ?]]; try discriminate.
    destruct (if fb then index_from target node scan else index_of node scan) as [source|];
      [|discriminate].
    bind_inv H. destruct a as [sc sw]. cbn [fst snd] in *.
    bind_inv H. rename a into d1. bind_inv H. rename a into t1. bind_inv H. rename a into t2.
    bind_inv H. rename a into d2.
    destruct (move_okd _ _ _ _ _ _ E) as (m & Hsw).
    destruct (dthen_okd _ _ _ _ _ _ _ Hd Hsw E0) as (Hd1 & ->).
    assert (Hh : okd (if edge_type g node o =? 2 then had_d else zid 1) 1 1)
      by (destruct (_ =? 2); [apply had_okd|apply zid_okd]).
    pose proof (dtensor_okd _ _ _ _ _ _ _ (zid_okd target) Hh E1) as Ht1.
    pose proof (dtensor_okd _ _ _ _ _ _ _ Ht1 (zid_okd _) E2) as Ht2.
    destruct (dthen_okd _ _ _ _ _ _ _ Hd1 Ht2 E3) as (Hd2 & Hm).
    rewrite <- Hm in Hd2. eapply IH; [exact Hd2|exact H].
Qed.

(* ================================================================== from_pyzx: typing *)
Theorem from_pyzx_typed fa fb g d :
  from_pyzx fa fb g = Ok d ->
  exists k, okd d (length (gins g)) k /\
    (k + total_in g = length (gins g) + total_out g)%nat.
Proof.
  unfold from_pyzx. intros H.
  destruct (missing_boundary g); [discriminate|]. destruct (duplicate_boundary g); [discriminate|].
  bind_inv H. destruct a as [scan d0]. cbn [fst snd] in H.
  destruct (spider_loop_okd _ _ _ _ _ _ _ _ _ (zid_okd (length (gins g))) E) as (k & Hd0 & Hk).
  exists k. split; [eapply out_loop_okd; eauto|].
  now rewrite total_in_sum, total_out_sum.
Qed.

(* the imported diagram is a well-typed Core diagram *)
Theorem from_pyzx_wf fa fb g d : from_pyzx fa fb g = Ok d -> wf d.
Proof. intros H. destruct (from_pyzx_typed _ _ _ _ H) as (k & (W & _) & _). exact W. Qed.

(* it has as many inputs as the graph, and -- on graphs satisfying the handshake
   identity graph_balanced, which every closed graph does -- as many outputs *)
Theorem from_pyzx_arity fa fb g d :
  from_pyzx fa fb g = Ok d ->
  ddom d = pro (length (gins g)) /\
  (graph_balanced g = true -> dcod d = pro (length (gouts g))).
Proof.
  intros H. destruct (from_pyzx_typed _ _ _ _ H) as (k & (W & Dd & Cd) & Hk).
  split; [exact Dd|]. intros Hb. unfold graph_balanced in Hb. apply Nat.eqb_eq in Hb.
  rewrite Cd. f_equal. lia.
Qed.

(* every box of the imported diagram is a spider, a Hadamard or a swap on PRO wires:
   all types are powers of the single wire, so the number of wires is the whole typing *)
Theorem from_pyzx_cod_count fa fb g d :
  from_pyzx fa fb g = Ok d ->
  exists k, dcod d = pro k /\ (k + total_in g = length (gins g) + total_out g)%nat.
Proof.
  intros H. destruct (from_pyzx_typed _ _ _ _ H) as (k & (_ & _ & Cd) & Hk). eauto.
Qed.

(* refusal of bad boundaries *)
Theorem from_pyzx_refuses_bad_boundaries fa fb g :
  missing_boundary g = true \/ duplicate_boundary g = true ->
  from_pyzx fa fb g = Err ValueError.
Proof.
  unfold from_pyzx. intros [H|H]; rewrite H; [reflexivity|].
  destruct (missing_boundary g); reflexivity.
Qed.

(* the two predicates say what the property says *)
Lemma mem_In x l : mem x l = true <-> In x l.
Proof.
  unfold mem. rewrite existsb_exists. split.
  - intros (y & Hy & E). apply Nat.eqb_eq in E. now subst.
  - intros H. exists x. split; [exact H|apply Nat.eqb_refl].
Qed.

Lemma missing_boundary_spec g :
  missing_boundary g = true <->
  exists v, In v (gverts g) /\ vty v = 0 /\ ~ In (vid v) (gins g ++ gouts g).
Proof.
  unfold missing_boundary. rewrite existsb_exists. split.
  - intros (v & Hv & H). apply andb_true_iff in H. destruct H as (H1 & H2).
    exists v. split; [exact Hv|]. split; [now apply Z.eqb_eq|].
    intros Hin. apply mem_In in Hin. rewrite Hin in H2. discriminate.
  - intros (v & Hv & H1 & H2). exists v. split; [exact Hv|]. apply andb_true_iff. split.
    + now apply Z.eqb_eq.
    + destruct (mem (vid v) (gins g ++ gouts g)) eqn:E; [|reflexivity].
      apply mem_In in E. contradiction.
Qed.

Lemma duplicate_boundary_spec g :
  duplicate_boundary g = true <-> exists v, In v (gins g) /\ In v (gouts g).
Proof.
  unfold duplicate_boundary. rewrite existsb_exists. split.
  - intros (v & H1 & H2). exists v. split; [exact H1|now apply mem_In].
  - intros (v & H1 & H2). exists v. split; [exact H1|now apply mem_In].
Qed.

(* ================================================================== to_pyzx: shape *)
(* (type, phase) of the vertices that the spiders of a box list create, in order *)
Definition spider_data (bs : list (zxbox * nat)) : list (Z * Q) :=
  flat_map (fun bo : zxbox * nat =>
              match fst bo with
              | BSpider k _ _ p => [((match k with SZ => 1 | _ => 2 end), export_phase p)]
              | _ => []
              end) bs.
(* number of wires the spiders consume *)
Definition spider_legs (bs : list (zxbox * nat)) : nat :=
  fold_right (fun bo acc => match fst bo with BSpider _ n _ _ => (n + acc)%nat | _ => acc end) O bs.

Definition vdata (v : vertex) : Z * Q := (vty v, vphase v).

Definition ids_ok (vs : list vertex) : Prop := map vid vs = seq 0 (length vs).

(* every edge goes from an older vertex to a younger one and is SIMPLE or HADAMARD *)
Definition edges_ok (n : nat) (es : list edge) : Prop :=
  Forall (fun e : edge => (fst (fst e) < snd (fst e) < n)%nat /\ (snd e = 1 \/ snd e = 2)) es.

Definition scan_ok (n : nat) (scan : list (nat * bool)) : Prop :=
  Forall (fun x : nat * bool => (fst x < n)%nat) scan.

Definition tinv (st : tst) : Prop :=
  ids_ok (t_vs st) /\ edges_ok (length (t_vs st)) (t_es st) /\ scan_ok (length (t_vs st)) (t_scan st).

Lemma ids_ok_snoc vs v : ids_ok vs -> vid v = length vs -> ids_ok (vs ++ [v]).
Proof.
  unfold ids_ok. intros H Hv. rewrite map_app, app_length, H. cbn [map length].
  rewrite Nat.add_1_r, seq_S, Hv. reflexivity.
Qed.

Lemma edges_ok_mono n m es : (n <= m)%nat -> edges_ok n es -> edges_ok m es.
Proof.
  intros Hnm. unfold edges_ok. apply Forall_impl. intros e (H1 & H2). split; [lia|exact H2].
Qed.

Lemma scan_ok_mono n m sc : (n <= m)%nat -> scan_ok n sc -> scan_ok m sc.
Proof. intros Hnm. unfold scan_ok. apply Forall_impl. intros x Hx. lia. Qed.

Lemma firstn_In' {A} (x : A) n l : In x (firstn n l) -> In x l.
Proof. intros H. rewrite <- (firstn_skipn n l). apply in_or_app. now left. Qed.
Lemma skipn_In' {A} (x : A) n l : In x (skipn n l) -> In x l.
Proof. intros H. rewrite <- (firstn_skipn n l). apply in_or_app. now right. Qed.

Lemma Forall_firstn' {A} (P : A -> Prop) n l : Forall P l -> Forall P (firstn n l).
Proof. intros H. apply Forall_forall. intros x Hx. rewrite Forall_forall in H. apply H. eapply firstn_In'; eauto. Qed.
Lemma Forall_skipn' {A} (P : A -> Prop) n l : Forall P l -> Forall P (skipn n l).
Proof. intros H. apply Forall_forall. intros x Hx. rewrite Forall_forall in H. apply H. eapply skipn_In'; eauto. Qed.
Lemma Forall_nth_error' {A} (P : A -> Prop) l n x : Forall P l -> nth_error l n = Some x -> P x.
Proof. intros H Hn. rewrite Forall_forall in H. apply H. eapply nth_error_In; eauto. Qed.

Lemma etype_cases h : etype_of h = 1 \/ etype_of h = 2.
Proof. destruct h; cbn; auto. Qed.

Lemma scan_ok_set n scan off x : scan_ok n scan -> (fst x < n)%nat ->
  scan_ok n (firstn off scan ++ [x] ++ skipn (S off) scan).
Proof.
  intros HS Hx. unfold scan_ok. apply Forall_app. split; [apply Forall_firstn'; exact HS|].
  apply Forall_app. split; [|apply Forall_skipn'; exact HS]. constructor; [exact Hx|constructor].
Qed.
Lemma scan_ok_swap n scan off a b : scan_ok n scan -> (fst a < n)%nat -> (fst b < n)%nat ->
  scan_ok n (firstn off scan ++ [b; a] ++ skipn (off + 2) scan).
Proof.
  intros HS Ha Hb. unfold scan_ok. apply Forall_app. split; [apply Forall_firstn'; exact HS|].
  apply Forall_app. split; [|apply Forall_skipn'; exact HS].
  constructor; [exact Hb|]. constructor; [exact Ha|constructor].
Qed.

Lemma step_box_shape row st b off st' :
  step_box row st b off = Ok st' -> tinv st ->
  tinv st' /\
  map vdata (t_vs st') = map vdata (t_vs st) ++ spider_data [(b, off)] /\
  length (t_es st') = (length (t_es st) + spider_legs [(b, off)])%nat.
Proof.
  intros H (HI & HE & HS). destruct b as [k nin nout p| | |re im|n m]; cbn [step_box] in H.
  - destruct (Nat.ltb _ nin) eqn:EL; [discriminate|]. apply Nat.ltb_ge in EL.
    inversion H; subst st'; clear H. unfold tinv. cbn [t_vs t_es t_scan].
    rewrite app_length; cbn [length]. rewrite Nat.add_1_r.
    assert (Hlegs : length (firstn nin (skipn off (t_scan st))) = nin).
    { pose proof (firstn_le_length nin (skipn off (t_scan st))). lia. }
    split; [split; [|split]|split].
    + apply ids_ok_snoc; [exact HI|reflexivity].
    + unfold edges_ok. apply Forall_app. split.
      * eapply edges_ok_mono; [|exact HE]. lia.
      * apply Forall_forall. intros e He. apply in_map_iff in He. destruct He as ([s h] & <- & Hin).
        cbn [fst snd]. split; [|apply etype_cases].
        assert (s < length (t_vs st))%nat; [|lia].
        apply firstn_In' in Hin. apply skipn_In' in Hin. unfold scan_ok in HS.
        rewrite Forall_forall in HS. apply (HS _ Hin).
    + unfold scan_ok. apply Forall_app. split; [|apply Forall_app; split].
      * apply Forall_firstn'. eapply scan_ok_mono; [|exact HS]. lia.
      * apply Forall_forall. intros x Hx. apply repeat_spec in Hx. subst x. cbn. lia.
      * apply Forall_skipn'. eapply scan_ok_mono; [|exact HS]. lia.
    + rewrite map_app. reflexivity.
    + rewrite app_length, map_length, Hlegs. cbn. lia.
  - destruct (nth_error (t_scan st) off) as [[n h]|] eqn:Ea; [|discriminate].
    inversion H; subst st'; clear H. unfold tinv. cbn [t_vs t_es t_scan].
    split; [split; [exact HI|split; [exact HE|]]|split].
    + exact (scan_ok_set _ _ off (n, negb h) HS (Forall_nth_error' _ _ _ _ HS Ea)).
    + cbn. now rewrite app_nil_r.
    + cbn. lia.
  - destruct (nth_error (t_scan st) off) as [a|] eqn:Ea; [|discriminate].
    destruct (nth_error (t_scan st) (S off)) as [b'|] eqn:Eb; [|discriminate].
    inversion H; subst st'; clear H. unfold tinv. cbn [t_vs t_es t_scan].
    split; [split; [exact HI|split; [exact HE|]]|split].
    + exact (scan_ok_swap _ _ off a b' HS (Forall_nth_error' _ _ _ _ HS Ea) (Forall_nth_error' _ _ _ _ HS Eb)).
    + cbn. now rewrite app_nil_r.
    + cbn. lia.
  - inversion H; subst st'; clear H. unfold tinv. cbn [t_vs t_es t_scan].
    split; [split; [exact HI|split; [exact HE|exact HS]]|split].
    + cbn. now rewrite app_nil_r.
    + cbn. lia.
  - discriminate.
Qed.

Lemma spider_data_cons x bs : spider_data (x :: bs) = spider_data [x] ++ spider_data bs.
Proof. unfold spider_data. cbn [flat_map]. now rewrite app_nil_r. Qed.
Lemma spider_legs_cons x bs : spider_legs (x :: bs) = (spider_legs [x] + spider_legs bs)%nat.
Proof. unfold spider_legs. cbn [fold_right]. destruct (fst x); lia. Qed.

Lemma run_boxes_shape bs : forall row st st',
  run_boxes row st bs = Ok st' -> tinv st ->
  tinv st' /\
  map vdata (t_vs st') = map vdata (t_vs st) ++ spider_data bs /\
  length (t_es st') = (length (t_es st) + spider_legs bs)%nat.
Proof.
  induction bs as [|[b off] bs IH]; intros row st st' H Hinv; cbn [run_boxes] in H.
  - inversion H; subst. split; [exact Hinv|]. cbn. rewrite app_nil_r. split; [reflexivity|lia].
  - bind_inv H. destruct (step_box_shape _ _ _ _ _ E Hinv) as (Hinv1 & V1 & L1).
    destruct (IH _ _ _ H Hinv1) as (Hinv2 & V2 & L2).
    split; [exact Hinv2|]. rewrite spider_data_cons, spider_legs_cons. split.
    + rewrite V2, V1, app_assoc. reflexivity.
    + lia.
Qed.

Lemma add_outputs_shape rowz n : forall i st outs st' outs',
  add_outputs rowz i n st outs = Ok (st', outs') -> tinv st ->
  tinv st' /\
  map vdata (t_vs st') = map vdata (t_vs st) ++ repeat (0, 0%Q) n /\
  length (t_es st') = (length (t_es st) + n)%nat /\
  outs' = outs ++ seq (length (t_vs st)) n /\ t_scal st' = t_scal st.
Proof.
  induction n as [|n IH]; intros i st outs st' outs' H (HI & HE & HS); cbn [add_outputs] in H.
  - inversion H; subst. split; [split; [exact HI|split; [exact HE|exact HS]]|].
    cbn. rewrite !app_nil_r. repeat split; lia.
  - destruct (nth_error (t_scan st) i) as [[s h]|] eqn:Es; [|discriminate].
    apply IH in H.
    + destruct H as (Hinv & V & L & O & Sc). cbn [t_vs t_es t_scan t_scal] in *.
      split; [exact Hinv|]. split; [|split; [|split]].
      * rewrite V, map_app, <- app_assoc. reflexivity.
      * rewrite L, app_length. cbn. lia.
      * rewrite O, app_length, <- app_assoc. cbn [length app seq]. rewrite Nat.add_1_r. reflexivity.
      * exact Sc.
    + unfold tinv. cbn [t_vs t_es t_scan]. rewrite app_length. cbn [length]. rewrite Nat.add_1_r.
      split; [apply ids_ok_snoc; [exact HI|reflexivity]|]. split.
      * unfold edges_ok. apply Forall_app. split; [eapply edges_ok_mono; [|exact HE]; lia|].
        constructor; [|constructor]. cbn [fst snd]. split; [|apply etype_cases].
        pose proof (Forall_nth_error' _ _ _ _ HS Es) as Hs. cbn in Hs. lia.
      * eapply scan_ok_mono; [|exact HS]. lia.
Qed.

Lemma map_const_repeat {A B} (c : B) (f : A -> B) l : (forall x, f x = c) -> map f l = repeat c (length l).
Proof. intros Hf. induction l; cbn; [reflexivity|]. now rewrite Hf, IHl. Qed.

Lemma init_state_inv dom : tinv (init_state dom) /\
  map vdata (t_vs (init_state dom)) = repeat (0, 0%Q) dom /\ length (t_vs (init_state dom)) = dom.
Proof.
  unfold init_state, tinv. cbn [t_vs t_es t_scan]. rewrite map_length, seq_length.
  split; [split; [|split]|split].
  - unfold ids_ok. rewrite map_map, map_length, seq_length. cbn [vid]. apply map_id.
  - constructor.
  - unfold scan_ok. apply Forall_forall. intros x Hx. apply in_map_iff in Hx.
    destruct Hx as (i & <- & Hi). apply in_seq in Hi. cbn. lia.
  - rewrite map_map. rewrite (map_const_repeat (0, 0%Q)); [now rewrite seq_length|reflexivity].
  - reflexivity.
Qed.

(* one vertex per input wire, per spider (in box order, with its colour and its
   phase doubled mod 2) and per output wire, numbered 0, 1, 2, ...; inputs are
   the first vertices in order, outputs the last ones in order; one edge per leg
   consumed by a spider and per output wire, each from an older to a younger
   vertex, SIMPLE or HADAMARD *)
Theorem to_pyzx_shape dom cod bs g :
  to_pyzx dom cod bs = Ok g ->
  map vid (gverts g) = seq 0 (length (gverts g)) /\
  map vdata (gverts g) = repeat (0, 0%Q) dom ++ spider_data bs ++ repeat (0, 0%Q) cod /\
  gins g = seq 0 dom /\
  gouts g = seq (dom + length (spider_data bs)) cod /\
  length (gedges g) = (spider_legs bs + cod)%nat /\
  edges_ok (length (gverts g)) (gedges g).
Proof.
  unfold to_pyzx. intros H. bind_inv H. rename a into st. bind_inv H. destruct a as [st' outs].
  inversion H; subst g; clear H. cbn [gverts gedges gins gouts fst snd].
  destruct (init_state_inv dom) as (Hinv0 & V0 & L0).
  destruct (run_boxes_shape _ _ _ _ E Hinv0) as (Hinv1 & V1 & L1).
  destruct (add_outputs_shape _ _ _ _ _ _ _ E0 Hinv1) as ((HI & HE & _) & V2 & L2 & O2 & _).
  assert (Hlen : length (t_vs st) = (dom + length (spider_data bs))%nat).
  { rewrite <- (map_length vdata), V1, app_length, V0, repeat_length. reflexivity. }
  split; [exact HI|]. split; [rewrite V2, V1, V0, <- app_assoc; reflexivity|].
  split; [reflexivity|]. split; [rewrite O2, Hlen; reflexivity|].
  split; [rewrite L2, L1; cbn; lia|exact HE].
Qed.

(* ================================================================== non-vacuity *)
(* the docstring example: Z(1,2,.25) @ Z(1,2,.75) >> Id(1) @ SWAP @ Id(1) >> X(2,1,.5) @ X(2,1,.5) *)
Definition ex_bialgebra : list (zxbox * nat) :=
  [(BSpider SZ 1 2 (1 # 4), 0%nat); (BSpider SZ 1 2 (3 # 4), 2%nat); (BSwap, 1%nat);
   (BSpider SX 2 1 (1 # 2), 0%nat); (BSpider SX 2 1 (1 # 2), 1%nat)].

Example to_pyzx_bialgebra_ok :
  exists g, to_pyzx 2 2 ex_bialgebra = Ok g /\ graph_simple g = true /\ graph_balanced g = true /\
            missing_boundary g = false /\ duplicate_boundary g = false /\
            length (gverts g) = 8%nat /\ gins g = [0; 1]%nat /\ gouts g = [6; 7]%nat.
Proof. eexists. split; [vm_compute; reflexivity|]. vm_compute. repeat split. Qed.

Example from_pyzx_bialgebra_ok :
  exists g d, to_pyzx 2 2 ex_bialgebra = Ok g /\ from_pyzx false false g = Ok d /\
              length (dboxes d) = 5%nat /\ ddom d = pro 2 /\ dcod d = pro 2.
Proof. eexists. eexists. split; [vm_compute; reflexivity|]. split; [vm_compute; reflexivity|]. repeat split. Qed.

(* a graph with an undeclared boundary vertex, and one with a shared one *)
Example refusal_nonvacuous :
  missing_boundary (G [V 0 0 0 0 0; V 1 1 0 0 1; V 2 0 0 0 2] [(0%nat, 1%nat, 1); (1%nat, 2%nat, 1)] [0%nat] [] (1%Q, 0%Q)) = true /\
  duplicate_boundary (G [V 0 0 0 0 0; V 1 1 0 0 1] [(0%nat, 1%nat, 1)] [0%nat] [0%nat] (1%Q, 0%Q)) = true.
Proof. split; reflexivity. Qed.

(* ================================================================== to_pyzx: Hadamard parity *)
(* SPECIFICATION of the wires of a diagram: the scan with, for each open wire, the
   vertex it comes from and the NUMBER of H boxes met so far; every wire that ends
   (in a spider or at an output) is reported as (source, target, number of H boxes) *)
Definition nscan := list (nat * nat).
Definition nedge := (nat * nat * nat)%type.
Definition flag (x : nat * nat) : nat * bool := (fst x, Nat.odd (snd x)).
Definition edge_of (e : nedge) : edge := (fst (fst e), snd (fst e), etype_of (Nat.odd (snd e))).

Definition nstep (node : nat) (sc : nscan) (b : zxbox) (off : nat) : option (nscan * list nedge * nat) :=
  match b with
  | BSpider _ nin nout _ =>
      let legs := firstn nin (skipn off sc) in
      if Nat.ltb (length legs) nin then None else
      Some (firstn off sc ++ repeat (node, O) nout ++ skipn (off + nin) sc,
            map (fun l : nat * nat => (fst l, node, snd l)) legs, S node)
  | BSwap =>
      match nth_error sc off, nth_error sc (S off) with
      | Some a, Some b' => Some (firstn off sc ++ [b'; a] ++ skipn (off + 2) sc, [], node)
      | _, _ => None
      end
  | BHad =>
      match nth_error sc off with
      | Some (n, c) => Some (firstn off sc ++ [(n, S c)] ++ skipn (S off) sc, [], node)
      | None => None
      end
  | BScalar _ _ => Some (sc, [], node)
  | BOther _ _ => None
  end.

Fixpoint nrun (node : nat) (sc : nscan) (bs : list (zxbox * nat)) : option (nscan * list nedge * nat) :=
  match bs with
  | [] => Some (sc, [], node)
  | (b, off) :: bs' =>
      match nstep node sc b off with
      | None => None
      | Some (sc1, es1, node1) =>
          match nrun node1 sc1 bs' with
          | None => None
          | Some (sc2, es2, node2) => Some (sc2, es1 ++ es2, node2)
          end
      end
  end.

Fixpoint nouts (node : nat) (sc : nscan) (i n : nat) : option (list nedge) :=
  match n with
  | O => Some []
  | S n' =>
      match nth_error sc i with
      | None => None
      | Some (s, c) => option_map (cons (s, node, c)) (nouts (S node) sc (S i) n')
      end
  end.

Definition wire_trace (dom cod : nat) (bs : list (zxbox * nat)) : option (list nedge) :=
  match nrun dom (map (fun i => (i, O)) (seq 0 dom)) bs with
  | None => None
  | Some (sc, es, node) => option_map (app es) (nouts node sc 0 cod)
  end.

Lemma odd_S c : Nat.odd (S c) = negb (Nat.odd c).
Proof. rewrite Nat.odd_succ, <- Nat.negb_odd. reflexivity. Qed.

Lemma flag_S n c : flag (n, S c) = (n, negb (Nat.odd c)).
Proof. unfold flag. cbn [fst snd]. now rewrite odd_S. Qed.

Lemma nth_error_flag sc i : nth_error (map flag sc) i = option_map flag (nth_error sc i).
Proof. revert i. induction sc; destruct i; cbn; auto. Qed.

Lemma map_repeat' {A B} (f : A -> B) x n : map f (repeat x n) = repeat (f x) n.
Proof. induction n; cbn; congruence. Qed.

Lemma nstep_sim row st b off st' sc :
  step_box row st b off = Ok st' -> map flag sc = t_scan st ->
  exists sc' es, nstep (length (t_vs st)) sc b off = Some (sc', es, length (t_vs st')) /\
    map flag sc' = t_scan st' /\ t_es st' = t_es st ++ map edge_of es.
Proof.
  intros H Hsc. destruct b as [k nin nout p| | |re im|n m]; cbn [step_box nstep] in *.
  - rewrite <- Hsc in H. rewrite skipn_map, firstn_map, map_length in H.
    destruct (Nat.ltb _ nin); [discriminate|]. injection H as H; subst st'.
    cbn [t_vs t_es t_scan]. eexists. eexists. split; [rewrite app_length, Nat.add_1_r; reflexivity|].
    split.
    + rewrite !map_app, firstn_map, skipn_map, map_repeat'. reflexivity.
    + f_equal. rewrite !map_map. apply map_ext. intros [s c]. reflexivity.
  - rewrite <- Hsc in H. rewrite nth_error_flag in H.
    destruct (nth_error sc off) as [[n c]|]; [|discriminate]. cbn [option_map flag fst snd] in H.
    injection H as H; subst st'. cbn [t_vs t_es t_scan].
    eexists. eexists. split; [reflexivity|]. split.
    + change (match map flag sc with [] => [] | _ :: l => skipn off l end)
        with (skipn (S off) (map flag sc)).
      rewrite !map_app, firstn_map, skipn_map. cbn [map app]. rewrite flag_S. reflexivity.
    + cbn. now rewrite app_nil_r.
  - rewrite <- Hsc in H. rewrite !nth_error_flag in H.
    destruct (nth_error sc off) as [a|]; [|discriminate].
    destruct (nth_error sc (S off)) as [b'|]; [|discriminate]. cbn [option_map] in H.
    injection H as H; subst st'. cbn [t_vs t_es t_scan].
    eexists. eexists. split; [reflexivity|]. split.
    + rewrite !map_app, firstn_map, skipn_map. reflexivity.
    + cbn. now rewrite app_nil_r.
  - injection H as H; subst st'. cbn [t_vs t_es t_scan].
    eexists. eexists. split; [reflexivity|]. split; [exact Hsc|]. cbn. now rewrite app_nil_r.
  - discriminate.
Qed.

Lemma nrun_sim bs : forall row st st' sc,
  run_boxes row st bs = Ok st' -> map flag sc = t_scan st ->
  exists sc' es, nrun (length (t_vs st)) sc bs = Some (sc', es, length (t_vs st')) /\
    map flag sc' = t_scan st' /\ t_es st' = t_es st ++ map edge_of es.
Proof.
  induction bs as [|[b off] bs IH]; intros row st st' sc H Hsc; cbn [run_boxes nrun] in *.
  - inversion H; subst. exists sc, []. split; [reflexivity|]. split; [exact Hsc|]. cbn. now rewrite app_nil_r.
  - bind_inv H. destruct (nstep_sim _ _ _ _ _ _ E Hsc) as (sc1 & es1 & N1 & S1 & E1).
    destruct (IH _ _ _ _ H S1) as (sc2 & es2 & N2 & S2 & E2).
    rewrite N1, N2. eexists. eexists. split; [reflexivity|]. split; [exact S2|].
    rewrite E2, E1, map_app, app_assoc. reflexivity.
Qed.

Lemma nouts_sim rowz n : forall i st outs st' outs' sc,
  add_outputs rowz i n st outs = Ok (st', outs') -> map flag sc = t_scan st ->
  exists es, nouts (length (t_vs st)) sc i n = Some es /\ t_es st' = t_es st ++ map edge_of es.
Proof.
  induction n as [|n IH]; intros i st outs st' outs' sc H Hsc; cbn [add_outputs nouts] in *.
  - inversion H; subst. exists []. split; [reflexivity|]. cbn. now rewrite app_nil_r.
  - rewrite <- Hsc in H. rewrite nth_error_flag in H.
    destruct (nth_error sc i) as [[s c]|]; [|discriminate]. cbn [option_map flag fst snd] in H.
    apply (IH _ _ _ _ _ sc) in H; [|reflexivity].
    cbn [t_vs t_es] in H. rewrite app_length, Nat.add_1_r in H. destruct H as (es & Hn & He).
    rewrite Hn. cbn [option_map]. eexists. split; [reflexivity|].
    rewrite He, <- app_assoc. reflexivity.
Qed.

(* the edges of the exported graph are exactly the wires of the diagram, in the
   order in which they end; an edge is HADAMARD iff the wire met an odd number of
   H boxes *)
Theorem to_pyzx_hadamard_parity dom cod bs g :
  to_pyzx dom cod bs = Ok g ->
  exists ws, wire_trace dom cod bs = Some ws /\ gedges g = map edge_of ws.
Proof.
  unfold to_pyzx, wire_trace. intros H. bind_inv H. rename a into st. bind_inv H.
  destruct a as [st' outs]. inversion H; subst g; clear H. cbn [gedges fst].
  destruct (init_state_inv dom) as (_ & _ & L0).
  assert (Hsc : map flag (map (fun i => (i, O)) (seq 0 dom)) = t_scan (init_state dom)).
  { unfold init_state. cbn [t_scan]. rewrite map_map. reflexivity. }
  destruct (nrun_sim _ _ _ _ _ E Hsc) as (sc1 & es1 & N1 & S1 & E1).
  rewrite L0 in N1. rewrite N1.
  destruct (nouts_sim _ _ _ _ _ _ _ _ E0 S1) as (es2 & N2 & E2).
  rewrite N2. cbn [option_map]. eexists. split; [reflexivity|].
  rewrite E2, E1. unfold init_state. cbn [t_es app]. now rewrite map_app.
Qed.

Example wire_trace_example :
  wire_trace 3 2 [(BHad, 2%nat); (BHad, 2%nat); (BHad, 2%nat); (BSwap, 1%nat); (BSpider SZ 2 1 (1 # 8), 0%nat)]
  = Some [(0, 3, 0); (2, 3, 3); (3, 4, 0); (1, 5, 0)]%nat.
Proof. reflexivity. Qed.
