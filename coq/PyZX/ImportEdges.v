(* The combinatorics behind import soundness: a well-formed graph in the scope of
   from_pyzx is, up to the order and orientation of its edges and the order and names
   of its vertices, the graph that to_pyzx builds from the imported diagram.

     rho_of L            the new name of a vertex = its position in L = inputs ++ spiders ++ outputs
     th, orient          every edge read from its tail (input side) to its head
     oriented_perm       the oriented edge list is a permutation of the edges grouped by
                         head: the inputs of every spider, then the neighbour of every output
     oriented_perm_tails ... and of the edges grouped by tail; together: the handshake
                         identity graph_balanced (double counting)  *)
From Coq Require Import List ZArith QArith Bool Arith Lia Permutation.
Import ListNotations.
Require Import DV.Common.Base DV.PyZX.PyZX DV.PyZX.PyZXLemmas DV.PyZX.ZXSem DV.PyZX.ImportSim.
Local Open Scope nat_scope.

(* ================================================================== lists *)
Lemma mem_false x l : mem x l = false <-> ~ In x l.
Proof.
  destruct (mem x l) eqn:E.
  - apply mem_In in E. split; [discriminate|contradiction].
  - split; [|reflexivity]. intros _ H. apply mem_In in H. congruence.
Qed.

Definition rho_of (L : list nat) (v : nat) : nat :=
  match index_of v L with Some k => k | None => 0 end.

Lemma rho_of_cons a l v : a <> v -> In v l -> rho_of (a :: l) v = S (rho_of l v).
Proof.
  intros Hne Hin. unfold rho_of. cbn [index_of]. destruct (Nat.eqb_spec a v); [contradiction|].
  destruct (index_of_In v l Hin) as (k & ->). reflexivity.
Qed.

Lemma map_rho_seq L : NoDup L -> map (rho_of L) L = seq 0 (length L).
Proof.
  induction 1 as [|a l Ha _ IH]; [reflexivity|]. cbn [map length seq].
  f_equal; [unfold rho_of; cbn; now rewrite Nat.eqb_refl|].
  rewrite <- seq_shift, <- IH, map_map. apply map_ext_in. intros v Hv.
  apply rho_of_cons; [|exact Hv]. intros ->. contradiction.
Qed.

Lemma NoDup_map_inj {A B} (h : A -> B) l : NoDup (map h l) ->
  forall a b, In a l -> In b l -> h a = h b -> a = b.
Proof.
  induction l as [|x l IH]; intros Hnd a b Ha Hb E; [contradiction|].
  cbn [map] in Hnd. inversion Hnd as [|? ? Hx Hnd']; subst.
  destruct Ha as [->|Ha], Hb as [->|Hb]; auto.
  - exfalso. apply Hx. rewrite E. now apply in_map.
  - exfalso. apply Hx. rewrite <- E. now apply in_map.
Qed.

Lemma rho_inj L : NoDup L -> forall a b, In a L -> In b L -> rho_of L a = rho_of L b -> a = b.
Proof.
  intros H. apply NoDup_map_inj. rewrite (map_rho_seq L H). apply seq_NoDup.
Qed.

Lemma app_eq_len {A} (l1 l2 m1 m2 : list A) : l1 ++ l2 = m1 ++ m2 -> length l1 = length m1 ->
  l1 = m1 /\ l2 = m2.
Proof.
  revert m1. induction l1 as [|x l1 IH]; intros [|y m1] H L; cbn in *; try discriminate; [auto|].
  inversion H; subst. destruct (IH m1 H2) as (-> & ->); [lia|auto].
Qed.

Lemma map_rho_parts A B C : NoDup (A ++ B ++ C) ->
  let r := rho_of (A ++ B ++ C) in
  map r A = seq 0 (length A) /\ map r B = seq (length A) (length B) /\
  map r C = seq (length A + length B) (length C).
Proof.
  intros H r. pose proof (map_rho_seq _ H) as E. fold r in E.
  rewrite !map_app, !app_length, !seq_app in E. cbn [Nat.add] in E.
  destruct (app_eq_len _ _ _ _ E) as (E1 & E'); [now rewrite map_length, seq_length|].
  destruct (app_eq_len _ _ _ _ E') as (E2 & E3); [now rewrite map_length, seq_length|].
  auto.
Qed.

Lemma filter_partition {A} (p : A -> bool) l :
  Permutation l (filter p l ++ filter (fun x => negb (p x)) l).
Proof.
  induction l as [|x l IH]; [reflexivity|]. cbn [filter]. destruct (p x); cbn [negb app].
  - now constructor.
  - rewrite IH at 1. apply Permutation_middle.
Qed.

Lemma NoDup_filter' {A} (p : A -> bool) l : NoDup l -> NoDup (filter p l).
Proof.
  induction 1 as [|x l Hx _ IH]; cbn [filter]; [constructor|].
  destruct (p x); [|exact IH]. constructor; [|exact IH]. intros H. apply filter_In in H. tauto.
Qed.

Lemma NoDup_app_intro {A} (l1 l2 : list A) : NoDup l1 -> NoDup l2 ->
  (forall x, In x l1 -> In x l2 -> False) -> NoDup (l1 ++ l2).
Proof.
  induction 1 as [|x l1 Hx _ IH]; intros H2 Hd; [exact H2|]. cbn [app]. constructor.
  - intros H. apply in_app_or in H. destruct H as [H|H]; [contradiction|]. apply (Hd x); [now left|exact H].
  - apply IH; [exact H2|]. intros y Hy. apply Hd. now right.
Qed.

(* ================================================================== simple edge lists *)
Definition nbrs (es : list edge) (w : nat) : list nat :=
  flat_map (fun e : edge => let '(a, b, _) := e in
              if Nat.eqb a w then [b] else if Nat.eqb b w then [a] else []) es.

Lemma neighbors_nbrs g w : neighbors g w = nbrs (gedges g) w.
Proof. reflexivity. Qed.

Definition adj (es : list edge) (a b : nat) : Prop :=
  exists t, In (a, b, t) es \/ In (b, a, t) es.

Lemma nbrs_spec es v w : In v (nbrs es w) <-> adj es v w.
Proof.
  unfold nbrs, adj. rewrite in_flat_map. split.
  - intros ([[a b] t] & He & Hv). destruct (Nat.eqb_spec a w) as [->|Ea].
    + destruct Hv as [->|[]]. exists t. now right.
    + destruct (Nat.eqb_spec b w) as [->|Eb]; [|contradiction]. destruct Hv as [->|[]]. exists t. now left.
  - intros (t & [H|H]).
    + exists (v, w, t). split; [exact H|]. destruct (Nat.eqb_spec v w) as [->|E]; [now left|].
      rewrite Nat.eqb_refl. now left.
    + exists (w, v, t). split; [exact H|]. rewrite Nat.eqb_refl. now left.
Qed.

Lemma same_pair_refl e : same_pair e e = true.
Proof. destruct e as [[a b] t]. cbn. now rewrite !Nat.eqb_refl. Qed.

Lemma same_pair_spec e f : same_pair e f = true <->
  (fst (fst e) = fst (fst f) /\ snd (fst e) = snd (fst f)) \/
  (fst (fst e) = snd (fst f) /\ snd (fst e) = fst (fst f)).
Proof.
  destruct e as [[a b] t], f as [[c d] t']. cbn [same_pair fst snd].
  rewrite orb_true_iff, !andb_true_iff, !Nat.eqb_eq. tauto.
Qed.

Lemma simple_noloop es : edges_simple es = true -> forall a b t, In (a, b, t) es -> a <> b.
Proof.
  induction es as [|e es IH]; intros H a b t Hin; [contradiction|]. cbn [edges_simple] in H.
  apply andb_prop in H. destruct H as (H & H3). apply andb_prop in H. destruct H as (H1 & H2).
  destruct Hin as [->|Hin]; [|eapply IH; eauto]. cbn [fst snd] in H1.
  apply negb_true_iff, Nat.eqb_neq in H1. exact H1.
Qed.

Lemma simple_unique es : edges_simple es = true -> forall e f, In e es -> In f es ->
  same_pair e f = true -> e = f.
Proof.
  induction es as [|x es IH]; intros H e f He Hf Hs; [contradiction|]. cbn [edges_simple] in H.
  apply andb_prop in H. destruct H as (H & H3). apply andb_prop in H. destruct H as (H1 & H2).
  apply negb_true_iff in H2.
  assert (Hx : forall y, In y es -> same_pair x y = false).
  { intros y Hy. destruct (same_pair x y) eqn:E; [|reflexivity].
    assert (existsb (same_pair x) es = true) by (apply existsb_exists; eauto). congruence. }
  destruct He as [->|He], Hf as [->|Hf].
  - reflexivity.
  - rewrite (Hx f Hf) in Hs. discriminate.
  - assert (same_pair f e = true).
    { apply same_pair_spec. apply same_pair_spec in Hs. destruct Hs as [[? ?]|[? ?]]; [left|right]; auto. }
    rewrite (Hx e He) in H. discriminate.
  - eapply IH; eauto.
Qed.

Lemma simple_NoDup es : edges_simple es = true -> NoDup es.
Proof.
  induction es as [|x es IH]; intros H; [constructor|]. cbn [edges_simple] in H.
  apply andb_prop in H. destruct H as (H & H3). apply andb_prop in H. destruct H as (H1 & H2).
  constructor; [|apply IH; exact H3]. intros Hin. apply negb_true_iff in H2.
  assert (existsb (same_pair x) es = true) by (apply existsb_exists; exists x; split; [exact Hin|apply same_pair_refl]).
  congruence.
Qed.

Lemma simple_nbrs_NoDup es w : edges_simple es = true -> NoDup (nbrs es w).
Proof.
  induction es as [|[[a b] t] es IH]; intros H; [constructor|].
  pose proof H as H0. cbn [edges_simple] in H.
  apply andb_prop in H. destruct H as (H & H3). apply andb_prop in H. destruct H as (H1 & H2).
  apply negb_true_iff in H2. cbn [fst snd] in H1. apply negb_true_iff, Nat.eqb_neq in H1.
  assert (Hx : forall c d t', In (c, d, t') es -> same_pair (a, b, t) (c, d, t') = false).
  { intros c d t' Hy. destruct (same_pair (a, b, t) (c, d, t')) eqn:E; [|reflexivity].
    assert (existsb (same_pair (a, b, t)) es = true) by (apply existsb_exists; eauto). congruence. }
  change (nbrs ((a, b, t) :: es) w) with
    ((if Nat.eqb a w then [b] else if Nat.eqb b w then [a] else []) ++ nbrs es w).
  assert (Hno : forall x, ((a = w /\ x = b) \/ (b = w /\ x = a)) -> ~ In x (nbrs es w)).
  { intros x Hx' Hin. apply nbrs_spec in Hin. destruct Hin as (t' & [Hin|Hin]).
    - pose proof (Hx _ _ _ Hin) as F. cbn [same_pair] in F.
      destruct Hx' as [[-> ->]|[-> ->]]; rewrite !Nat.eqb_refl in F; cbn in F;
        rewrite ?orb_true_r in F; discriminate.
    - pose proof (Hx _ _ _ Hin) as F. cbn [same_pair] in F.
      destruct Hx' as [[-> ->]|[-> ->]]; rewrite !Nat.eqb_refl in F; cbn in F;
        rewrite ?orb_true_r in F; discriminate. }
  destruct (Nat.eqb_spec a w) as [Ea|Ea].
  - cbn [app]. constructor; [apply Hno; auto|apply IH; exact H3].
  - destruct (Nat.eqb_spec b w) as [Eb|Eb].
    + cbn [app]. constructor; [apply Hno; auto|apply IH; exact H3].
    + apply IH; exact H3.
Qed.

Lemma simple_edge_type g a b t : graph_simple g = true ->
  In (a, b, t) (gedges g) -> edge_type g a b = t /\ edge_type g b a = t.
Proof.
  intros Hs Hin. unfold graph_simple in Hs.
  assert (Hgen : forall x y, (x = a /\ y = b) \/ (x = b /\ y = a) -> edge_type g x y = t).
  { intros x y Hxy. unfold edge_type.
    destruct (find _ (gedges g)) as [[[c d] t']|] eqn:Ef.
    - apply find_some in Ef. destruct Ef as (Hf & Hm).
      assert (Hsp : same_pair (a, b, t) (c, d, t') = true).
      { apply same_pair_spec. cbn [fst snd]. apply orb_true_iff in Hm.
        rewrite !andb_true_iff, !Nat.eqb_eq in Hm. destruct Hxy as [[-> ->]|[-> ->]]; intuition congruence. }
      pose proof (simple_unique _ Hs _ _ Hin Hf Hsp) as E. now inversion E.
    - exfalso. pose proof (find_none _ _ Ef _ Hin) as F. cbn in F.
      destruct Hxy as [[-> ->]|[-> ->]]; rewrite !Nat.eqb_refl in F; cbn in F;
        rewrite ?orb_true_r in F; discriminate. }
  split; apply Hgen; auto.
Qed.

Lemma NoDup_map_inj_on {A B} (h : A -> B) l : NoDup l ->
  (forall a b, In a l -> In b l -> h a = h b -> a = b) -> NoDup (map h l).
Proof.
  induction 1 as [|x l Hx _ IH]; intros Hinj; cbn [map]; constructor.
  - intros Hin. apply in_map_iff in Hin. destruct Hin as (y & Ey & Hy).
    assert (y = x) by (apply Hinj; [now right|now left|exact Ey]). subst. contradiction.
  - apply IH. intros a b Ha Hb. apply Hinj; now right.
Qed.

Lemma sum_ext_in (h h' : nat -> nat) l base :
  (forall v, In v l -> h v = h' v) ->
  fold_right (fun v acc => h v + acc) base l = fold_right (fun v acc => h' v + acc) 0 l + base.
Proof.
  induction l as [|x l IH]; intros H; [reflexivity|]. cbn [fold_right].
  rewrite (H x (or_introl eq_refl)), IH; [lia|]. intros v Hv. apply H. now right.
Qed.

Lemma sum_const_in (h : nat -> nat) l : (forall v, In v l -> h v = 1) ->
  fold_right (fun v acc => h v + acc) 0 l = length l.
Proof.
  induction l as [|x l IH]; intros H; [reflexivity|]. cbn [fold_right length].
  rewrite (H x (or_introl eq_refl)), IH; [reflexivity|]. intros v Hv. apply H. now right.
Qed.

(* ================================================================== well-formed graphs in scope *)
Definition graph_wf (g : graph) : Prop :=
  NoDup (map vid (gverts g)) /\ NoDup (gins g) /\ NoDup (gouts g) /\
  incl (gins g ++ gouts g) (map vid (gverts g)) /\
  (forall a b t, In (a, b, t) (gedges g) ->
     In a (map vid (gverts g)) /\ In b (map vid (gverts g))).

Section Graph.
Variable g : graph.
Hypothesis Hwf : graph_wf g.
Hypothesis Hsc : graph_in_scope g = true.

Notation E := (gedges g).
Notation ins := (gins g).
Notation outs := (gouts g).
Notation sp := (spider_nodes g).
Notation vids := (map vid (gverts g)).
Definition Lall : list nat := ins ++ sp ++ outs.

Lemma scope_facts :
  graph_simple g = true /\
  (forall a b t, In (a, b, t) E -> t = 1 \/ t = 2)%Z /\
  duplicate_boundary g = false /\
  (forall v, In v (ins ++ outs) -> length (neighbors g v) = 1) /\
  (forall v, In v (ins ++ outs) -> vtype g v = 0%Z) /\
  (forall v w, In v ins -> In w (neighbors g v) -> ~ In w ins) /\
  (forall v w, In v outs -> In w (neighbors g v) -> ~ In w outs).
Proof.
  pose proof Hsc as H. unfold graph_in_scope in H.
  repeat (apply andb_prop in H; let X := fresh "A" in destruct H as [H X]).
  split; [exact H|]. split; [|split; [|split; [|split; [|split]]]].
  - intros a b t Hin. rewrite forallb_forall in A5. specialize (A5 _ Hin). cbn [snd] in A5.
    apply orb_true_iff in A5. rewrite !Z.eqb_eq in A5. exact A5.
  - now apply negb_true_iff in A3.
  - intros v Hv. rewrite forallb_forall in A1. specialize (A1 _ Hv). apply andb_prop in A1.
    destruct A1 as (A1 & _). apply Nat.eqb_eq in A1. exact A1.
  - intros v Hv. rewrite forallb_forall in A1. specialize (A1 _ Hv). apply andb_prop in A1.
    destruct A1 as (_ & A1). apply Z.eqb_eq in A1. exact A1.
  - intros v w Hv Hw. rewrite forallb_forall in A0. specialize (A0 _ Hv). rewrite forallb_forall in A0.
    specialize (A0 _ Hw). apply negb_true_iff in A0. now apply mem_false.
  - intros v w Hv Hw. rewrite forallb_forall in A. specialize (A _ Hv). rewrite forallb_forall in A.
    specialize (A _ Hw). apply negb_true_iff in A. now apply mem_false.
Qed.

Lemma ins_outs_disj v : In v ins -> In v outs -> False.
Proof.
  intros Hi Ho. destruct scope_facts as (_ & _ & D & _). unfold duplicate_boundary in D.
  assert (existsb (fun v => mem v outs) ins = true); [|congruence].
  apply existsb_exists. exists v. split; [exact Hi|now apply mem_In].
Qed.

Lemma sp_spec v : In v sp <-> In v vids /\ ~ In v (ins ++ outs).
Proof.
  unfold spider_nodes. rewrite filter_In. rewrite negb_true_iff, mem_false. tauto.
Qed.

Lemma Lall_NoDup : NoDup Lall.
Proof.
  destruct Hwf as (Nv & Ni & No & _). unfold Lall.
  apply NoDup_app_intro; [exact Ni| |].
  - apply NoDup_app_intro; [apply NoDup_filter'; exact Nv|exact No|].
    intros x Hs Ho. apply sp_spec in Hs. destruct Hs as (_ & Hs). apply Hs. apply in_or_app. now right.
  - intros x Hi Hx. apply in_app_or in Hx. destruct Hx as [Hs|Ho].
    + apply sp_spec in Hs. destruct Hs as (_ & Hs). apply Hs. apply in_or_app. now left.
    + eapply ins_outs_disj; eauto.
Qed.

Lemma Lall_vids v : In v Lall <-> In v vids.
Proof.
  destruct Hwf as (_ & _ & _ & Hincl & _). unfold Lall. split.
  - intros H. apply in_app_or in H. destruct H as [H|H]; [apply Hincl, in_or_app; now left|].
    apply in_app_or in H. destruct H as [H|H]; [now apply sp_spec in H|apply Hincl, in_or_app; now right].
  - intros H. destruct (in_dec Nat.eq_dec v (ins ++ outs)) as [Hb|Hb].
    + apply in_app_or in Hb. destruct Hb as [Hb|Hb]; apply in_or_app; [now left|right].
      apply in_or_app. now right.
    + apply in_or_app. right. apply in_or_app. left. apply sp_spec. auto.
Qed.

Lemma Lall_perm : Permutation vids Lall.
Proof.
  destruct Hwf as (Nv & _). apply NoDup_Permutation; [exact Nv|apply Lall_NoDup|].
  intros x. symmetry. apply Lall_vids.
Qed.

(* adjacency *)
Lemma adj_sym a b : adj E a b -> adj E b a.
Proof. intros (t & [H|H]); exists t; auto. Qed.

Lemma adj_facts a b : adj E a b ->
  a <> b /\ In a vids /\ In b vids /\ ~ (In a ins /\ In b ins) /\ ~ (In a outs /\ In b outs).
Proof.
  intros Hadj. destruct scope_facts as (Hs & _ & _ & _ & _ & Hii & Hoo).
  destruct Hwf as (_ & _ & _ & _ & Hend).
  assert (Hn : In b (neighbors g a)) by (rewrite neighbors_nbrs; apply nbrs_spec, adj_sym, Hadj).
  destruct Hadj as (t & [H|H]).
  - pose proof (simple_noloop _ Hs _ _ _ H). destruct (Hend _ _ _ H). repeat split; auto.
    + intros (Ha & Hb). exact (Hii a b Ha Hn Hb).
    + intros (Ha & Hb). exact (Hoo a b Ha Hn Hb).
  - pose proof (simple_noloop _ Hs _ _ _ H). destruct (Hend _ _ _ H). repeat split; auto.
    + intros (Ha & Hb). exact (Hii a b Ha Hn Hb).
    + intros (Ha & Hb). exact (Hoo a b Ha Hn Hb).
Qed.

(* ------------------------------------------------------------------ orientation *)
Definition th (a b : nat) : bool :=
  mem a ins || mem b outs || (negb (mem b ins) && negb (mem a outs) && Nat.ltb a b).

Definition orient (e : edge) : edge :=
  let '(a, b, t) := e in if th a b then (a, b, t) else (b, a, t).

Lemma th_anti a b : adj E a b -> th b a = negb (th a b).
Proof.
  intros H. destruct (adj_facts a b H) as (Hne & _ & _ & Hii & Hoo). unfold th.
  destruct (mem a ins) eqn:Ia, (mem b ins) eqn:Ib, (mem a outs) eqn:Oa, (mem b outs) eqn:Ob;
    rewrite ?mem_In, ?mem_false in *; cbn [orb andb negb];
    try (exfalso; apply Hii; now split); try (exfalso; apply Hoo; now split);
    try (exfalso; eapply ins_outs_disj; eassumption); try reflexivity.
  destruct (Nat.ltb_spec a b), (Nat.ltb_spec b a); cbn [negb]; try reflexivity; lia.
Qed.

Lemma in_orient v w t :
  In (v, w, t) (map orient E) <-> th v w = true /\ (In (v, w, t) E \/ In (w, v, t) E).
Proof.
  rewrite in_map_iff. split.
  - intros ([[a b] t'] & Eo & Hin). cbn [orient] in Eo. destruct (th a b) eqn:T.
    + inversion Eo; subst. auto.
    + inversion Eo; subst. split; [|auto].
      assert (Hadj : adj E w v) by (exists t; auto). rewrite (th_anti _ _ Hadj), T. reflexivity.
  - intros (T & [Hin|Hin]).
    + exists (v, w, t). cbn [orient]. rewrite T. auto.
    + exists (w, v, t). cbn [orient].
      assert (Hadj : adj E v w) by (exists t; auto). rewrite (th_anti _ _ Hadj), T. cbn. auto.
Qed.

Lemma orient_NoDup : NoDup (map orient E).
Proof.
  destruct scope_facts as (Hs & _). apply NoDup_map_inj_on; [apply simple_NoDup; exact Hs|].
  intros e f He Hf Eo. apply (simple_unique _ Hs _ _ He Hf). apply same_pair_spec.
  destruct e as [[a b] t], f as [[c d] t']. cbn [orient fst snd] in *.
  destruct (th a b), (th c d); inversion Eo; subst; auto.
Qed.

Definition ety (v w : nat) : Z := etype_of (edge_type g v w =? 2)%Z.

Lemma adj_ety v w t : In (v, w, t) E \/ In (w, v, t) E -> t = ety v w.
Proof.
  intros H. destruct scope_facts as (Hs & Ht & _).
  assert (Et : edge_type g v w = t) by (destruct H as [H|H]; apply (simple_edge_type g _ _ _ Hs H)).
  assert (t = 1 \/ t = 2)%Z by (destruct H as [H|H]; eapply Ht; eauto).
  unfold ety. rewrite Et. destruct H0 as [-> | ->]; reflexivity.
Qed.

(* ------------------------------------------------------------------ edges grouped by head *)
Definition heads (recs : list (nat * list nat)) (B : list (nat * nat)) : list edge :=
  flat_map (fun r => map (fun v => (v, fst r, ety v (fst r))) (snd r)) recs
  ++ map (fun p => (snd p, fst p, ety (snd p) (fst p))) B.

Section Heads.
Variable recs : list (nat * list nat).
Variable B : list (nat * nat).
Hypothesis Hrecs1 : map fst recs = sp.
Hypothesis Hrecs2 : Forall (fun r => Permutation (snd r) (node_inputs g (fst r))) recs.
Hypothesis HB1 : map fst B = outs.
Hypothesis HB2 : Forall (fun p => neighbors g (fst p) = [snd p]) B.

Lemma in_heads v w t : In (v, w, t) (heads recs B) <->
  ((In w sp /\ In v (node_inputs g w)) \/ (In w outs /\ neighbors g w = [v])) /\ t = ety v w.
Proof.
  unfold heads. rewrite in_app_iff, in_flat_map, in_map_iff. split.
  - intros [(r & Hr & Hin)|(p & Ep & Hp)].
    + apply in_map_iff in Hin. destruct Hin as (v' & Ev & Hv'). inversion Ev; subst.
      split; [|reflexivity]. left. split; [rewrite <- Hrecs1; now apply in_map|].
      rewrite Forall_forall in Hrecs2. eapply Permutation_in; [apply (Hrecs2 r Hr)|exact Hv'].
    + inversion Ep; subst. split; [|reflexivity]. right. split; [rewrite <- HB1; now apply in_map|].
      rewrite Forall_forall in HB2. apply (HB2 p Hp).
  - intros ([(Hw & Hv)|(Hw & Hn)] & ->).
    + left. rewrite <- Hrecs1 in Hw. apply in_map_iff in Hw. destruct Hw as (r & <- & Hr).
      exists r. split; [exact Hr|]. apply in_map_iff. exists v. split; [reflexivity|].
      rewrite Forall_forall in Hrecs2. eapply Permutation_in; [symmetry; apply (Hrecs2 r Hr)|exact Hv].
    + right. rewrite <- HB1 in Hw. apply in_map_iff in Hw. destruct Hw as (p & <- & Hp).
      exists p. split; [|exact Hp]. rewrite Forall_forall in HB2. rewrite (HB2 p Hp) in Hn.
      inversion Hn; subst. reflexivity.
Qed.

Lemma node_inputs_spec v w : In w sp ->
  (In v (node_inputs g w) <-> adj E v w /\ th v w = true).
Proof.
  intros Hw. apply sp_spec in Hw. destruct Hw as (_ & Hw).
  assert (Hwi : mem w ins = false) by (apply mem_false; intros H; apply Hw, in_or_app; now left).
  assert (Hwo : mem w outs = false) by (apply mem_false; intros H; apply Hw, in_or_app; now right).
  unfold node_inputs. rewrite filter_In, neighbors_nbrs, nbrs_spec. unfold th. rewrite Hwi, Hwo.
  destruct (mem v ins), (mem v outs), (Nat.ltb v w); cbn [negb orb andb]; tauto.
Qed.

Lemma heads_iff v w t : In (v, w, t) (map orient E) <-> In (v, w, t) (heads recs B).
Proof.
  rewrite in_orient, in_heads. destruct scope_facts as (_ & _ & _ & Hdeg & _).
  split.
  - intros (T & Hin). split; [|apply adj_ety; exact Hin].
    assert (Hadj : adj E v w) by (exists t; exact Hin).
    destruct (adj_facts _ _ Hadj) as (_ & _ & Hwv & Hii & _).
    apply Lall_vids in Hwv. unfold Lall in Hwv. apply in_app_or in Hwv. destruct Hwv as [Hwi|Hwv].
    + exfalso. unfold th in T. pose proof Hwi as Hwi'. apply mem_In in Hwi'. rewrite Hwi' in T.
      assert (mem v ins = false) by (apply mem_false; intros F; apply Hii; auto).
      assert (mem w outs = false) by (apply mem_false; intros F; eapply ins_outs_disj; eauto).
      rewrite H, H0 in T. cbn in T. discriminate.
    + apply in_app_or in Hwv. destruct Hwv as [Hws|Hwo].
      * left. split; [exact Hws|]. apply node_inputs_spec; auto.
      * right. split; [exact Hwo|].
        assert (Hn : In v (neighbors g w)) by (rewrite neighbors_nbrs; apply nbrs_spec; exact Hadj).
        pose proof (Hdeg w (in_or_app _ _ _ (or_intror Hwo))) as Hl.
        destruct (neighbors g w) as [|x [|? ?]]; try discriminate. destruct Hn as [->|[]]. reflexivity.
  - intros ([(Hw & Hv)|(Hw & Hn)] & ->).
    + apply node_inputs_spec in Hv; [|exact Hw]. destruct Hv as (Hadj & T). split; [exact T|].
      destruct Hadj as (t & Ht). rewrite <- (adj_ety _ _ _ Ht). exact Ht.
    + assert (Hadj : adj E v w).
      { apply nbrs_spec. rewrite <- neighbors_nbrs, Hn. now left. }
      split; [unfold th; apply mem_In in Hw; rewrite Hw; now rewrite orb_true_r|].
      destruct Hadj as (t & Ht). rewrite <- (adj_ety _ _ _ Ht). exact Ht.
Qed.

Lemma node_inputs_NoDup w : NoDup (node_inputs g w).
Proof.
  destruct scope_facts as (Hs & _). unfold node_inputs. apply NoDup_filter'.
  rewrite neighbors_nbrs. apply simple_nbrs_NoDup. exact Hs.
Qed.

Lemma heads_NoDup : NoDup (heads recs B).
Proof.
  assert (Nsp : NoDup sp) by (destruct Hwf as (Nv & _); apply NoDup_filter'; exact Nv).
  assert (Nouts : NoDup outs) by (destruct Hwf as (_ & _ & No & _); exact No).
  unfold heads. apply NoDup_app_intro.
  - rewrite <- Hrecs1 in Nsp. clear Hrecs1. induction recs as [|r rs IH]; [constructor|].
    cbn [flat_map]. cbn [map] in Nsp. inversion Nsp as [|? ? Hr Nrs]; subst.
    inversion Hrecs2 as [|? ? Hp Hrs]; subst. apply NoDup_app_intro.
    + apply NoDup_map_inj_on.
      * eapply Permutation_NoDup; [symmetry; exact Hp|apply node_inputs_NoDup].
      * intros a b _ _ Eab. now inversion Eab.
    + apply IH; assumption.
    + intros x Hx Hy. apply in_map_iff in Hx. destruct Hx as (v & <- & _).
      apply in_flat_map in Hy. destruct Hy as (r' & Hr' & Hy). apply in_map_iff in Hy.
      destruct Hy as (v' & Ev & _). inversion Ev; subst. apply Hr. rewrite <- H1. now apply in_map.
  - apply NoDup_map_inj_on.
    + eapply NoDup_map_inv. rewrite HB1. exact Nouts.
    + intros a b Ha Hb Eab. inversion Eab. rewrite <- HB1 in Nouts.
      apply (NoDup_map_inj fst B Nouts a b Ha Hb). congruence.
  - intros x Hx Hy. apply in_flat_map in Hx. destruct Hx as (r & Hr & Hx). apply in_map_iff in Hx.
    destruct Hx as (v & <- & _). apply in_map_iff in Hy. destruct Hy as (p & Ep & Hp).
    inversion Ep; subst.
    assert (In (fst r) sp) by (rewrite <- Hrecs1; now apply in_map).
    assert (In (fst p) outs) by (rewrite <- HB1; now apply in_map).
    apply sp_spec in H. destruct H as (_ & H). apply H. apply in_or_app. right. congruence.
Qed.

Theorem oriented_perm : Permutation (map orient E) (heads recs B).
Proof.
  apply NoDup_Permutation; [apply orient_NoDup|apply heads_NoDup|].
  intros [[v w] t]. apply heads_iff.
Qed.
End Heads.

(* ------------------------------------------------------------------ edges grouped by tail *)
Definition tail_grp (v : nat) : list nat :=
  if mem v ins then neighbors g v else node_outputs g v.

Definition tails : list edge :=
  flat_map (fun v => map (fun u => (v, u, ety v u)) (tail_grp v)) (sp ++ ins).

Lemma node_outputs_spec v w : In v sp ->
  (In w (node_outputs g v) <-> adj E v w /\ th v w = true).
Proof.
  intros Hv. apply sp_spec in Hv. destruct Hv as (_ & Hv).
  assert (Hvi : mem v ins = false) by (apply mem_false; intros H; apply Hv, in_or_app; now left).
  assert (Hvo : mem v outs = false) by (apply mem_false; intros H; apply Hv, in_or_app; now right).
  unfold node_outputs. rewrite filter_In, neighbors_nbrs, nbrs_spec. unfold th. rewrite Hvi, Hvo.
  split.
  - intros (Ha & Hp). split; [apply adj_sym; exact Ha|].
    destruct (mem w ins), (mem w outs), (Nat.ltb v w); cbn [negb orb andb] in *; auto.
  - intros (Ha & Hp). split; [apply adj_sym; exact Ha|].
    destruct (mem w ins), (mem w outs), (Nat.ltb v w); cbn [negb orb andb] in *; auto.
Qed.

Lemma in_tails v w t : In (v, w, t) tails <->
  ((In v sp /\ In w (node_outputs g v)) \/ (In v ins /\ In w (neighbors g v))) /\ t = ety v w.
Proof.
  unfold tails. rewrite in_flat_map. split.
  - intros (k & Hk & Hin). apply in_map_iff in Hin. destruct Hin as (u & Eu & Hu). inversion Eu; subst.
    split; [|reflexivity]. unfold tail_grp in Hu. apply in_app_or in Hk. destruct Hk as [Hk|Hk].
    + left. split; [exact Hk|]. apply sp_spec in Hk. destruct Hk as (_ & Hk).
      assert (mem v ins = false) by (apply mem_false; intros F; apply Hk, in_or_app; now left).
      rewrite H in Hu. exact Hu.
    + right. split; [exact Hk|]. pose proof Hk as Hk'. apply mem_In in Hk'. rewrite Hk' in Hu. exact Hu.
  - intros ([(Hv & Hw)|(Hv & Hw)] & ->); exists v.
    + split; [apply in_or_app; now left|]. apply in_map_iff. exists w. split; [reflexivity|].
      unfold tail_grp. apply sp_spec in Hv. destruct Hv as (_ & Hv).
      assert (mem v ins = false) by (apply mem_false; intros F; apply Hv, in_or_app; now left).
      rewrite H. exact Hw.
    + split; [apply in_or_app; now right|]. apply in_map_iff. exists w. split; [reflexivity|].
      unfold tail_grp. apply mem_In in Hv. rewrite Hv. exact Hw.
Qed.

Lemma tails_iff v w t : In (v, w, t) (map orient E) <-> In (v, w, t) tails.
Proof.
  rewrite in_orient, in_tails. split.
  - intros (T & Hin). split; [|apply adj_ety; exact Hin].
    assert (Hadj : adj E v w) by (exists t; exact Hin).
    destruct (adj_facts _ _ Hadj) as (_ & Hvv & _ & _ & Hoo).
    apply Lall_vids in Hvv. unfold Lall in Hvv. apply in_app_or in Hvv. destruct Hvv as [Hvi|Hvv].
    + right. split; [exact Hvi|]. rewrite neighbors_nbrs. apply nbrs_spec, adj_sym, Hadj.
    + apply in_app_or in Hvv. destruct Hvv as [Hvs|Hvo].
      * left. split; [exact Hvs|]. apply node_outputs_spec; auto.
      * exfalso. unfold th in T. pose proof Hvo as Hvo'. apply mem_In in Hvo'. rewrite Hvo' in T.
        assert (mem v ins = false) by (apply mem_false; intros F; eapply ins_outs_disj; eauto).
        assert (mem w outs = false) by (apply mem_false; intros F; apply Hoo; auto).
        rewrite H, H0 in T. cbn [negb orb andb] in T. rewrite andb_false_r in T. discriminate.
  - intros ([(Hv & Hw)|(Hv & Hw)] & ->).
    + apply node_outputs_spec in Hw; [|exact Hv]. destruct Hw as (Hadj & T). split; [exact T|].
      destruct Hadj as (t & Ht). rewrite <- (adj_ety _ _ _ Ht). exact Ht.
    + assert (Hadj : adj E v w).
      { apply adj_sym. apply nbrs_spec. rewrite <- neighbors_nbrs. exact Hw. }
      split; [unfold th; apply mem_In in Hv; now rewrite Hv|].
      destruct Hadj as (t & Ht). rewrite <- (adj_ety _ _ _ Ht). exact Ht.
Qed.

Lemma NoDup_groups (keys : list nat) (grp : nat -> list nat) (c : nat -> nat -> Z) :
  NoDup keys -> (forall k, NoDup (grp k)) ->
  NoDup (flat_map (fun k => map (fun u => (k, u, c k u)) (grp k)) keys).
Proof.
  intros Hk Hg. induction Hk as [|k keys Hnk _ IH]; [constructor|]. cbn [flat_map].
  apply NoDup_app_intro.
  - apply NoDup_map_inj_on; [apply Hg|]. intros a b _ _ Eab. now inversion Eab.
  - exact IH.
  - intros x Hx Hy. apply in_map_iff in Hx. destruct Hx as (u & <- & _).
    apply in_flat_map in Hy. destruct Hy as (k' & Hk' & Hy). apply in_map_iff in Hy.
    destruct Hy as (u' & Eu & _). inversion Eu; subst. contradiction.
Qed.

Lemma tails_NoDup : NoDup tails.
Proof.
  destruct scope_facts as (Hs & _). unfold tails. apply NoDup_groups.
  - destruct Hwf as (Nv & Ni & _). apply NoDup_app_intro; [apply NoDup_filter'; exact Nv|exact Ni|].
    intros x Hx Hi. apply sp_spec in Hx. destruct Hx as (_ & Hx). apply Hx, in_or_app. now left.
  - intros k. unfold tail_grp. destruct (mem k ins).
    + rewrite neighbors_nbrs. apply simple_nbrs_NoDup. exact Hs.
    + unfold node_outputs. apply NoDup_filter'. rewrite neighbors_nbrs. apply simple_nbrs_NoDup. exact Hs.
Qed.

Theorem oriented_perm_tails : Permutation (map orient E) tails.
Proof.
  apply NoDup_Permutation; [apply orient_NoDup|apply tails_NoDup|].
  intros [[v w] t]. apply tails_iff.
Qed.

(* ------------------------------------------------------------------ the handshake identity *)
Lemma length_flat_map_sum {A} (h : nat -> list A) l :
  length (flat_map h l) = fold_right (fun v acc => length (h v) + acc) 0 l.
Proof. induction l as [|x l IH]; [reflexivity|]. cbn. now rewrite app_length, IH. Qed.

Theorem graph_balanced_holds : graph_balanced g = true.
Proof.
  destruct scope_facts as (_ & _ & _ & Hdeg & _).
  set (recs := map (fun w => (w, node_inputs g w)) sp).
  set (B := map (fun o => (o, hd 0 (neighbors g o))) outs).
  assert (H1 : map fst recs = sp) by (unfold recs; rewrite map_map; apply map_id).
  assert (H2 : Forall (fun r => Permutation (snd r) (node_inputs g (fst r))) recs).
  { apply Forall_forall. intros r Hr. apply in_map_iff in Hr. destruct Hr as (w & <- & _). reflexivity. }
  assert (H3 : map fst B = outs) by (unfold B; rewrite map_map; apply map_id).
  assert (H4 : Forall (fun p => neighbors g (fst p) = [snd p]) B).
  { apply Forall_forall. intros p Hp. apply in_map_iff in Hp. destruct Hp as (o & <- & Ho). cbn [fst snd].
    pose proof (Hdeg o (in_or_app _ _ _ (or_intror Ho))) as Hl.
    destruct (neighbors g o) as [|x [|? ?]]; try discriminate. reflexivity. }
  pose proof (Permutation_length (oriented_perm recs B H1 H2 H3 H4)) as L1.
  pose proof (Permutation_length oriented_perm_tails) as L2.
  rewrite L1 in L2. clear L1.
  unfold heads in L2. rewrite app_length, map_length in L2.
  unfold recs in L2. rewrite flat_map_concat_map, map_map, <- flat_map_concat_map in L2. cbn [fst snd] in L2.
  unfold B in L2. rewrite map_length in L2.
  unfold tails in L2. rewrite !length_flat_map_sum in L2.
  unfold graph_balanced, total_in, total_out. apply Nat.eqb_eq.
  rewrite fold_right_app in L2.
  rewrite (sum_ext_in (fun v => length (map (fun u => (v, u, ety v u)) (tail_grp v)))
             (fun v => length (node_outputs g v)) sp) in L2.
  2:{ intros v Hv. rewrite map_length. unfold tail_grp. apply sp_spec in Hv. destruct Hv as (_ & Hv).
      assert (mem v ins = false) by (apply mem_false; intros F; apply Hv, in_or_app; now left).
      now rewrite H. }
  assert (Ei : fold_right (fun v acc => length (map (fun u => ((v, u, ety v u) : edge)) (tail_grp v)) + acc) 0 ins
               = length ins).
  { apply (sum_const_in (fun v => length (map (fun u => ((v, u, ety v u) : edge)) (tail_grp v)))).
    intros v Hv. rewrite map_length. unfold tail_grp. pose proof Hv as Hv'. apply mem_In in Hv'. rewrite Hv'.
    apply Hdeg, in_or_app. now left. }
  assert (Ein : fold_right (fun v acc => length (map (fun v0 => ((v0, v, ety v0 v) : edge)) (node_inputs g v)) + acc) 0 sp
                = fold_right (fun v acc => length (node_inputs g v) + acc) 0 sp + 0).
  { apply (sum_ext_in (fun v => length (map (fun v0 => ((v0, v, ety v0 v) : edge)) (node_inputs g v)))
             (fun v => length (node_inputs g v))). intros v _. apply map_length. }
  assert (L2' : fold_right (fun v acc => length (map (fun v0 => ((v0, v, ety v0 v) : edge)) (node_inputs g v)) + acc) 0 sp
                + length outs
                = fold_right (fun v acc => length (node_outputs g v) + acc) 0 sp
                  + fold_right (fun v acc => length (map (fun u => ((v, u, ety v u) : edge)) (tail_grp v)) + acc) 0 ins)
    by exact L2.
  rewrite Ei, Ein in L2'.
  lia.
Qed.

End Graph.
