(* What is established about the semantic statements of C17 (PyZX/ZXSem.v):
   instances checked by computation in Cyc8 (phases multiples of 1/8), and the
   refutation witnesses of from_pyzx_sound_stmt false false (finding F15).
   The ring laws of Cyc8 are NOT proved here: the `_refuted_cyc8` theorems refute
   the Cyc8 instance of the statement, which is the instance the harness's numeric
   oracle re-observes on the real implementation with numpy / pyzx. *)
From Coq Require Import List ZArith QArith Bool Lia.
Import ListNotations.
Require Import DV.Common.Base DV.Core.Diagram DV.PyZX.PyZX DV.PyZX.ZXSem.
Open Scope Z_scope.

Definition entries_agree (dom cod : nat) (f g : list bool -> list bool -> c8) : bool :=
  forallb (fun i => forallb (fun o => c8_eqb (f i o) (g i o)) (bits cod)) (bits dom).

Definition export_ok (c : nat * nat * list (zxbox * nat)) : bool :=
  let '(dom, cod, bs) := c in
  match to_pyzx dom cod bs with
  | Ok g => graph_simple g && entries_agree dom cod (graph_sem Cyc8 g) (zx_sem Cyc8 dom bs)
  | Err _ => false
  end.

Definition import_ok (fa fb : bool) (g : graph) : bool :=
  graph_in_scope g && graph_balanced g &&
  match from_pyzx fa fb g with
  | Ok d => entries_agree (length (gins g)) (length (gouts g))
              (fun i o => c8_mul (rcplx Cyc8 (fst (gscal g)) (snd (gscal g))) (core_sem Cyc8 d i o))
              (graph_sem Cyc8 g)
  | Err _ => false
  end.

Definition roundtrip_ok (fa fb : bool) (c : nat * nat * list (zxbox * nat)) : bool :=
  let '(dom, cod, bs) := c in
  match to_pyzx dom cod bs with Ok g => import_ok fa fb g | Err _ => false end.

Definition n0 := 0%nat. Definition n1 := 1%nat. Definition n2 := 2%nat.

(* small diagrams covering every box kind, Hadamard edges on inner wires, inputs
   and outputs, a scalar, X spiders, arity 0, SWAPs, phases >= 1 turn and negative *)
Definition sem_examples : list (nat * nat * list (zxbox * nat)) :=
  [ (n0, n0, []);
    (n2, n2, []);
    (n1, n1, [(BHad, n0)]);
    (n1, n1, [(BHad, n0); (BHad, n0)]);
    (n2, n2, [(BSwap, n0)]);
    (n2, n2, [(BHad, n0); (BSwap, n0)]);
    (n1, n2, [(BSpider SZ 1 2 (1 # 4), n0); (BHad, n0)]);
    (n1, n2, [(BSpider SX 1 2 (1 # 8), n0); (BHad, n1); (BSwap, n0)]);
    (n0, n0, [(BScalar (1 # 2) (-3 # 4), n0); (BSpider SZ 0 0 (1 # 8), n0); (BSpider SX 0 0 (1 # 2), n0)]);
    (n1, n1, [(BSpider SZ 1 1 (9 # 8), n0); (BSpider SX 1 1 (-3 # 8), n0)]);
    (n2, n2, [(BSpider SZ 1 2 0, n0); (BSpider SX 2 1 0, n1)]);
    (n2, n2, [(BSpider SZ 1 2 0, n0); (BHad, n1); (BSpider SZ 2 1 (1 # 2), n1)]);
    (3%nat, n2, [(BHad, n2); (BSwap, n1); (BSpider SZ 2 1 (1 # 8), n0)]);
    (n0, 3%nat, [(BSpider SZ 0 2 (1 # 4), n0); (BSpider SX 0 1 (1 # 8), n2); (BSwap, n1)]) ].

(* to_pyzx_sound_stmt, checked on the listed instances in Cyc8 *)
Theorem to_pyzx_sound_partial : forallb export_ok sem_examples = true.
Proof. vm_compute. reflexivity. Qed.

(* the four F15 reproducers of the corpus *)
Definition ex_f15b : nat * nat * list (zxbox * nat) :=
  (n1, n2, [(BSpider SZ 1 2 (1 # 4), n0); (BHad, n0)]).
Definition ex_f15b_plain : nat * nat * list (zxbox * nat) :=
  (n0, 3%nat, [(BSpider SZ 0 2 (1 # 4), n0); (BSpider SX 0 1 (1 # 8), n2); (BSwap, n1)]).
Definition ex_f15a : nat * nat * list (zxbox * nat) :=
  (3%nat, n2, [(BHad, n2); (BSwap, n1); (BSpider SZ 2 1 (1 # 8), n0)]).

(* from_pyzx_sound_stmt holds, in Cyc8, on round trips that meet neither trigger ... *)
Theorem from_pyzx_sound_partial :
  forallb (roundtrip_ok false false)
    [ (n0, n0, []); (n2, n2, [(BHad, n0); (BSwap, n0)]);
      (n2, n2, [(BSpider SZ 1 2 0, n0); (BSpider SX 2 1 0, n1)]);
      (n2, n2, [(BSpider SZ 1 2 0, n0); (BHad, n1); (BSpider SZ 2 1 (1 # 2), n1)]);
      (n1, n1, [(BSpider SZ 1 1 (9 # 8), n0); (BSpider SX 1 1 (-3 # 8), n0)]) ] = true.
Proof. vm_compute. reflexivity. Qed.

(* ... and on the F15 reproducers once both switches are on (the proposed fixes) *)
Theorem from_pyzx_fixed_on_witnesses :
  forallb (roundtrip_ok true true) [ex_f15b; ex_f15b_plain; ex_f15a] = true.
Proof. vm_compute. reflexivity. Qed.

(* each switch alone repairs its own reproducer and not the other's *)
Theorem switches_are_independent :
  roundtrip_ok true false ex_f15a = true /\ roundtrip_ok false true ex_f15a = false /\
  roundtrip_ok false true ex_f15b = true /\ roundtrip_ok true false ex_f15b = false /\
  roundtrip_ok false true ex_f15b_plain = true.
Proof. vm_compute. repeat split. Qed.

(* REFUTATION (Cyc8 instance) of from_pyzx_sound_stmt for the code as it is *)
Definition unsound_on (fa fb : bool) (c : nat * nat * list (zxbox * nat)) : Prop :=
  let '(dom, cod, bs) := c in
  exists g d i o,
    to_pyzx dom cod bs = Ok g /\ graph_in_scope g = true /\ from_pyzx fa fb g = Ok d /\
    length i = length (gins g) /\ length o = length (gouts g) /\
    ~ req Cyc8 (rmul Cyc8 (rcplx Cyc8 (fst (gscal g)) (snd (gscal g))) (core_sem Cyc8 d i o))
               (graph_sem Cyc8 g i o).

(* F15b: the Hadamard of Z(1,2,.25) >> H @ Id(1) comes back on the other output *)
Theorem from_pyzx_sound_refuted_cyc8_F15b : unsound_on false false ex_f15b.
Proof.
  unfold unsound_on, ex_f15b. eexists. eexists. exists [false]. exists [false; true].
  split; [vm_compute; reflexivity|]. split; [vm_compute; reflexivity|].
  split; [vm_compute; reflexivity|]. split; [reflexivity|]. split; [reflexivity|].
  vm_compute. discriminate.
Qed.

(* F15b without any Hadamard: outputs wired to the wrong spiders *)
Theorem from_pyzx_sound_refuted_cyc8_F15b_plain : unsound_on false false ex_f15b_plain.
Proof.
  unfold unsound_on, ex_f15b_plain. eexists. eexists. exists []. exists [false; true; false].
  split; [vm_compute; reflexivity|]. split; [vm_compute; reflexivity|].
  split; [vm_compute; reflexivity|]. split; [reflexivity|]. split; [reflexivity|].
  vm_compute. discriminate.
Qed.

(* F15a: the Hadamard on the moved wire is dropped *)
Theorem from_pyzx_sound_refuted_cyc8_F15a : unsound_on false false ex_f15a.
Proof.
  unfold unsound_on, ex_f15a. eexists. eexists. exists [false; false; true]. exists [false; false].
  split; [vm_compute; reflexivity|]. split; [vm_compute; reflexivity|].
  split; [vm_compute; reflexivity|]. split; [reflexivity|]. split; [reflexivity|].
  vm_compute. discriminate.
Qed.
