(* Standard interpretation of ZX diagrams and tensor semantics of pyzx graphs over
   an arbitrary commutative ring with 1/sqrt 2 and phases (operations passed
   explicitly), the computable instance Cyc8 = Q[x]/(x^4+1) (x = exp(2 pi i/8)),
   and the full semantic statements of C17 as never-asserted Props.
   Definitions only. *)
From Coq Require Import List ZArith QArith Bool Lia.
Import ListNotations.
Require Import DV.Common.Base DV.Core.Diagram DV.PyZX.PyZX.
Open Scope Z_scope.

Record ringops := RO {
  car : Type;
  req : car -> car -> Prop;
  r0 : car; r1 : car;
  radd : car -> car -> car; rmul : car -> car -> car;
  rneg1 : car;                 (* -1 *)
  risq2 : car;                 (* 1 / sqrt 2 *)
  rexp : Q -> car;             (* rexp a = exp(2 pi i a): a in full turns *)
  rcplx : Q -> Q -> car }.     (* re + i im *)

Section Sem.
Variable K : ringops.
Notation "x + y" := (radd K x y). Notation "x * y" := (rmul K x y).

Definition rsum (l : list (car K)) : car K := fold_right (radd K) (r0 K) l.
Definition rprod (l : list (car K)) : car K := fold_right (rmul K) (r1 K) l.
Definition delta (b : bool) : car K := if b then r1 K else r0 K.
Fixpoint rpow (x : car K) (n : nat) : car K := match n with O => r1 K | S n' => x * rpow x n' end.

Fixpoint bits (n : nat) : list (list bool) :=
  match n with O => [[]] | S n' => flat_map (fun l => [false :: l; true :: l]) (bits n') end.
Definition all_eq (b : bool) (l : list bool) : bool := forallb (Bool.eqb b) l.
Definition parity (l : list bool) : bool := fold_right xorb false l.
Definition bits_eqb : list bool -> list bool -> bool := list_eqb Bool.eqb.

(* Z(legs, a) = |0..0> + e(a) |1..1> ; X = its Hadamard conjugate; legs = inputs ++ outputs *)
Definition spider_val (isx : bool) (phase : Q) (legs : list bool) : car K :=
  if isx then
    rpow (risq2 K) (length legs)
    * (r1 K + (if parity legs then rneg1 K * rexp K phase else rexp K phase))
  else delta (all_eq false legs) + (if all_eq true legs then rexp K phase else r0 K).

Definition had_val (a b : bool) : car K := if a && b then rneg1 K * risq2 K else risq2 K.

Definition box_val (b : zxbox) (i o : list bool) : car K :=
  match b with
  | BSpider SZ _ _ p => spider_val false p (i ++ o)
  | BSpider SX _ _ p => spider_val true p (i ++ o)
  | BHad => match i, o with [a], [c] => had_val a c | _, _ => r0 K end
  | BSwap => match i, o with [a; b'], [c; d] => delta (Bool.eqb a d && Bool.eqb b' c) | _, _ => r0 K end
  | BScalar re im => rcplx K re im
  | _ => r0 K                                   (* Y spiders, foreign boxes: no interpretation *)
  end.

(* Id(off) @ box @ Id(rest) *)
Definition layer_val (b : zxbox) (off : nat) (i o : list bool) : car K :=
  delta (bits_eqb (firstn off i) (firstn off o))
  * (box_val b (firstn (zdom b) (skipn off i)) (firstn (zcod b) (skipn off o))
     * delta (bits_eqb (skipn (off + zdom b) i) (skipn (off + zcod b) o))).

(* the matrix entry <o| d |i> of a diagram on w wires *)
Fixpoint zx_sem (w : nat) (bs : list (zxbox * nat)) (i o : list bool) : car K :=
  match bs with
  | [] => delta (bits_eqb i o)
  | (b, off) :: rest =>
      let w' := (w - zdom b + zcod b)%nat in
      rsum (map (fun m => layer_val b off i m * zx_sem w' rest m o) (bits w'))
  end.

(* ---- graphs: a labelling gives one bit to each end of each edge *)
Definition edge_val (t : Z) (a b : bool) : car K :=
  if t =? 2 then had_val a b else delta (Bool.eqb a b).

(* the bits that a labelling puts on the legs of vertex v, in edge order *)
Fixpoint legs_of (v : nat) (es : list edge) (lab : list bool) : list bool :=
  match es, lab with
  | (a, b, _) :: es', x :: y :: lab' =>
      (if Nat.eqb a v then [x] else []) ++ (if Nat.eqb b v then [y] else []) ++ legs_of v es' lab'
  | _, _ => []
  end.
Fixpoint edges_val (es : list edge) (lab : list bool) : car K :=
  match es, lab with
  | (_, _, t) :: es', x :: y :: lab' => edge_val t x y * edges_val es' lab'
  | _, _ => r1 K
  end.

Fixpoint pos_of (v : nat) (l : list nat) : option nat :=
  match l with [] => None | y :: l' => if Nat.eqb y v then Some O else option_map S (pos_of v l') end.

Definition vertex_val (g : graph) (i o : list bool) (lab : list bool) (v : vertex) : car K :=
  let legs := legs_of (vid v) (gedges g) lab in
  match pos_of (vid v) (gins g), pos_of (vid v) (gouts g) with
  | Some k, _ => delta (all_eq (nth k i false) legs)
  | None, Some k => delta (all_eq (nth k o false) legs)
  | None, None =>
      (* pyzx phases are in units of pi: exp(i pi p) = rexp (p / 2) *)
      if vty v =? 1 then spider_val false (vphase v * (1 # 2)) legs
      else if vty v =? 2 then spider_val true (vphase v * (1 # 2)) legs
      else r0 K
  end.

Definition graph_sem (g : graph) (i o : list bool) : car K :=
  rcplx K (fst (gscal g)) (snd (gscal g))
  * rsum (map (fun lab => edges_val (gedges g) lab * rprod (map (vertex_val g i o lab) (gverts g)))
              (bits (2 * length (gedges g)))).

(* ---- imported diagrams are Core diagrams: read the boxes back *)
Definition zx_of_core (b : box) : zxbox :=
  match bk b with
  | KSwap => BSwap
  | _ =>
      if bname b =? 3 then BHad
      else match bdata b with
           | Some num =>
               let code := bname b mod 8 in
               BSpider (if code =? 1 then SZ else if code =? 2 then SX else SY)
                       (length (bdom b)) (length (bcod b)) (Qmake num (Z.to_pos (bname b / 8)))
           | None => BOther (length (bdom b)) (length (bcod b))
           end
  end.
Definition core_sem (d : diagram) : list bool -> list bool -> car K :=
  zx_sem (length (ddom d)) (combine (map zx_of_core (dboxes d)) (map Z.to_nat (doffs d))).
End Sem.

(* the laws under which the semantic statements are meant *)
Record ring_laws (K : ringops) : Prop := {
  rl_equiv : Equivalence (req K);
  rl_add_m : forall a a' b b', req K a a' -> req K b b' -> req K (radd K a b) (radd K a' b');
  rl_mul_m : forall a a' b b', req K a a' -> req K b b' -> req K (rmul K a b) (rmul K a' b');
  rl_add_0 : forall a, req K (radd K (r0 K) a) a;
  rl_add_c : forall a b, req K (radd K a b) (radd K b a);
  rl_add_a : forall a b c, req K (radd K a (radd K b c)) (radd K (radd K a b) c);
  rl_mul_1 : forall a, req K (rmul K (r1 K) a) a;
  rl_mul_0 : forall a, req K (rmul K (r0 K) a) (r0 K);
  rl_mul_c : forall a b, req K (rmul K a b) (rmul K b a);
  rl_mul_a : forall a b c, req K (rmul K a (rmul K b c)) (rmul K (rmul K a b) c);
  rl_distr : forall a b c, req K (rmul K (radd K a b) c) (radd K (rmul K a c) (rmul K b c));
  rl_neg1 : req K (radd K (r1 K) (rneg1 K)) (r0 K);
  rl_isq2 : req K (rmul K (radd K (r1 K) (r1 K)) (rmul K (risq2 K) (risq2 K))) (r1 K);
  rl_exp_0 : req K (rexp K 0) (r1 K);
  rl_exp_add : forall a b, req K (rexp K (a + b)) (rmul K (rexp K a) (rexp K b));
  rl_exp_eq : forall a b, Qeq a b -> req K (rexp K a) (rexp K b);
  rl_exp_half : req K (rexp K (1 # 2)) (rneg1 K);
  rl_exp_turn : req K (rexp K 1) (r1 K);
  rl_cplx_1 : req K (rcplx K 1 0) (r1 K);
  rl_cplx_mul : forall a b c d,
    req K (rmul K (rcplx K a b) (rcplx K c d)) (rcplx K (a * c - b * d) (a * d + b * c));
  rl_nontrivial : ~ req K (r1 K) (r0 K) }.

(* the diagrams the property quantifies over: every box fits, spiders are Z or X *)
Fixpoint zx_typed (w : nat) (bs : list (zxbox * nat)) (cod : nat) : Prop :=
  match bs with
  | [] => w = cod
  | (b, off) :: rest =>
      (off + zdom b <= w)%nat /\
      match b with BSpider SY _ _ _ | BOther _ _ => False | _ => True end /\
      zx_typed (w - zdom b + zcod b) rest cod
  end.

(* the graphs the property quantifies over (decidable; the harness has the same predicate) *)
Definition degree (g : graph) (v : nat) : nat := length (neighbors g v).
Definition graph_in_scope (g : graph) : bool :=
  graph_simple g
  && forallb (fun e : edge => (snd e =? 1) || (snd e =? 2)) (gedges g)
  && negb (missing_boundary g) && negb (duplicate_boundary g)
  && forallb (fun v => (vty v =? 0) || (vty v =? 1) || (vty v =? 2)) (gverts g)
  && forallb (fun v => Nat.eqb (degree g v) 1 && (vtype g v =? 0)) (gins g ++ gouts g)
  && forallb (fun v => forallb (fun w => negb (mem w (gins g))) (neighbors g v)) (gins g)
  && forallb (fun v => forallb (fun w => negb (mem w (gouts g))) (neighbors g v)) (gouts g).

(* FULL STATEMENTS (never asserted).  Export: pyzx's tensor of the exported graph is
   the diagram's matrix, scalars, Hadamard edges and boundary order included. *)
Definition to_pyzx_sound_stmt : Prop :=
  forall K, ring_laws K -> forall dom cod bs g,
    zx_typed dom bs cod -> to_pyzx dom cod bs = Ok g -> graph_simple g = true ->
    forall i o, length i = dom -> length o = cod ->
      req K (graph_sem K g i o) (zx_sem K dom bs i o).

(* Import: the returned diagram, times the scalar the graph carries, is the graph's tensor *)
Definition from_pyzx_sound_stmt (fix_a fix_b : bool) : Prop :=
  forall K, ring_laws K -> forall g d,
    graph_in_scope g = true -> from_pyzx fix_a fix_b g = Ok d ->
    forall i o, length i = length (gins g) -> length o = length (gouts g) ->
      req K (rmul K (rcplx K (fst (gscal g)) (snd (gscal g))) (core_sem K d i o)) (graph_sem K g i o).

(* graphs in scope are never refused and satisfy the handshake identity *)
Definition from_pyzx_total_stmt (fix_a fix_b : bool) : Prop :=
  forall g, graph_in_scope g = true ->
    graph_balanced g = true /\ exists d, from_pyzx fix_a fix_b g = Ok d.

(* ------------------------------------------------------------------ Cyc8 *)
(* a0 + a1 x + a2 x^2 + a3 x^3 with x^4 = -1 *)
Definition c8 := (Q * Q * Q * Q)%type.
Definition c8_add (a b : c8) : c8 :=
  let '(a0, a1, a2, a3) := a in let '(b0, b1, b2, b3) := b in
  (Qred (a0 + b0), Qred (a1 + b1), Qred (a2 + b2), Qred (a3 + b3))%Q.
Definition c8_mul (a b : c8) : c8 :=
  let '(a0, a1, a2, a3) := a in let '(b0, b1, b2, b3) := b in
  (Qred (a0 * b0 - a1 * b3 - a2 * b2 - a3 * b1),
   Qred (a0 * b1 + a1 * b0 - a2 * b3 - a3 * b2),
   Qred (a0 * b2 + a1 * b1 + a2 * b0 - a3 * b3),
   Qred (a0 * b3 + a1 * b2 + a2 * b1 + a3 * b0))%Q.
Definition c8_eqb (a b : c8) : bool :=
  let '(a0, a1, a2, a3) := a in let '(b0, b1, b2, b3) := b in
  Qeq_bool a0 b0 && Qeq_bool a1 b1 && Qeq_bool a2 b2 && Qeq_bool a3 b3.
Definition c8_x (k : Z) : c8 :=            (* x^k *)
  let r := k mod 8 in
  let s := if r <? 4 then 1%Q else (-1)%Q in
  let j := r mod 4 in
  if j =? 0 then (s, 0, 0, 0)%Q else if j =? 1 then (0, s, 0, 0)%Q
  else if j =? 2 then (0, 0, s, 0)%Q else (0, 0, 0, s)%Q.
(* exp(2 pi i a) for a a multiple of 1/8 (other phases are outside this instance) *)
Definition c8_exp (a : Q) : c8 := c8_x (Qnum (Qred (a * (8 # 1))) / Zpos (Qden (Qred (a * (8 # 1))))).

Definition Cyc8 : ringops :=
  RO c8 (fun a b => c8_eqb a b = true) (0, 0, 0, 0)%Q (1, 0, 0, 0)%Q c8_add c8_mul
     (-1, 0, 0, 0)%Q (0, 1 # 2, 0, -1 # 2)%Q c8_exp (fun re im => (re, 0, im, 0)%Q).
