(* Totality of zx.Diagram.from_pyzx (both repairs on): a well-formed graph in scope whose
   vertex list is sorted by id (what pyzx's vertices() yields) is never refused.

   The counting invariant: after a set Proc of vertices has been processed, the scan holds,
   for every processed non-output vertex, one wire per neighbour that is not processed yet
   ([Inv], [inv_snoc]); so every wire that a spider or an output asks for is there.  The
   typing side (every >>, @ and Diagram.swap succeeds) is Core's dthen_ok / dtensor_ok /
   dswap_total.  Sortedness is used once: when a spider is processed, its neighbours that
   come before it are exactly the processed ones ([classify]). *)
From Coq Require Import List ZArith QArith Bool Arith Lia Permutation Sorted.
Import ListNotations.
Require Import DV.Common.Base DV.Common.ListLemmas DV.Core.Diagram DV.Core.WF
  DV.Core.DiagramLemmas DV.Core.Perm DV.Core.Route DV.Core.PermLemmas
  DV.PyZX.PyZX DV.PyZX.PyZXLemmas DV.PyZX.ZXSem DV.PyZX.PyZXSound DV.PyZX.ImportSim DV.PyZX.ImportEdges.
Local Open Scope nat_scope.

(* ================================================================== every operation succeeds *)
Lemma okd_then a b n k m : okd a n k -> okd b k m -> exists d, dthen a b = Ok d /\ okd d n m.
Proof.
  intros (Wa & Da & Ca) (Wb & Db & Cb).
  destruct (dthen_ok a b Wa Wb) as (d & E & W & D1 & C1 & _); [congruence|].
  exists d. split; [exact E|]. split; [exact W|]. split; congruence.
Qed.

Lemma okd_tensor a b n k n' k' : okd a n k -> okd b n' k' ->
  exists d, dtensor a b = Ok d /\ okd d (n + n') (k + k').
Proof.
  intros Ha Hb. pose proof Ha as (Wa & _). pose proof Hb as (Wb & _).
  destruct (dtensor_ok a b Wa Wb) as (d & E & _). exists d. split; [exact E|].
  eapply dtensor_okd; eauto.
Qed.

Lemma okd_swap a b : exists d, dswap (pro a) (pro b) = Ok d /\ okd d (a + b) (a + b).
Proof.
  destruct (dswap_total (pro a) (pro b)) as (d & E). exists d. split; [exact E|apply dswap_okd; exact E].
Qed.

Lemma okd_cast d n k n' k' : okd d n k -> n = n' -> k = k' -> okd d n' k'.
Proof. intros H -> ->. exact H. Qed.

Lemma wf_blok d : wf d -> blok d.
Proof.
  intros W. split; [apply wf_lengths; exact W|]. destruct W as (_ & _ & _ & _ & ->).
  apply Forall_forall. intros z Hz. apply in_map_iff in Hz. destruct Hz as (l & <- & _). unfold len. lia.
Qed.

Lemma move_total nd scan s t : s < length scan -> t < length scan ->
  exists scan' sw, move nd scan s t = Ok (scan', sw) /\ okd sw (length scan) (length scan).
Proof.
  intros Hs Ht. unfold move. set (n := length scan) in *.
  destruct (Nat.ltb_spec t s) as [Hlt|Hge].
  - destruct (okd_swap (s - t) 1) as (sw0 & E0 & O0). rewrite E0. cbn [bind].
    destruct (okd_tensor _ _ _ _ _ _ (zid_okd t) O0) as (a & Ea & Oa). rewrite Ea. cbn [bind].
    destruct (okd_tensor _ _ _ _ _ _ Oa (zid_okd (n - s - 1))) as (b & Eb & Ob). rewrite Eb. cbn [bind].
    eexists. eexists. split; [reflexivity|]. cbn [snd]. eapply okd_cast; [exact Ob|lia|lia].
  - destruct (Nat.ltb_spec s t) as [Hlt|Hge'].
    + destruct (okd_swap 1 (t - s)) as (sw0 & E0 & O0). rewrite E0. cbn [bind].
      destruct (okd_tensor _ _ _ _ _ _ (zid_okd s) O0) as (a & Ea & Oa). rewrite Ea. cbn [bind].
      destruct (okd_tensor _ _ _ _ _ _ Oa (zid_okd (n - t - 1))) as (b & Eb & Ob). rewrite Eb. cbn [bind].
      eexists. eexists. split; [reflexivity|]. cbn [snd]. eapply okd_cast; [exact Ob|lia|lia].
    + eexists. eexists. split; [reflexivity|]. apply zid_okd.
Qed.

Lemma sort_by_index_total scan l : (forall v, In v l -> In v scan) -> exists r, sort_by_index scan l = Ok r.
Proof.
  intros H. unfold sort_by_index.
  assert (E : exists keyed, mapM (fun v => match index_of v scan with
                             | Some k => Ok (k, v) | None => Err ValueError end) l = Ok keyed).
  { induction l as [|v l IH]; [eexists; reflexivity|]. cbn [mapM].
    destruct (index_of_In v scan (H v (or_introl eq_refl))) as (k & ->). cbn [bind].
    destruct IH as (keyed & ->); [intros x Hx; apply H; now right|]. cbn [bind]. eauto. }
  destruct E as (keyed & ->). cbn [bind]. eauto.
Qed.

Lemma mwa_loop_total w offset rest : forall i scan d n P0 got,
  okd d n (length scan) ->
  firstn (offset + i + 1) scan = P0 ++ got ->
  (forall v, In v rest -> ~ In v (firstn (offset + i + 1) scan)) -> NoDup rest ->
  (forall v, In v rest -> In v scan) ->
  exists scan' d', mwa_loop true w offset i rest scan d = Ok (scan', d') /\ okd d' n (length scan').
Proof.
  induction rest as [|v rest IH]; intros i scan d n P0 got Od Hf Hn Hnd Hin; cbn [mwa_loop].
  - eauto.
  - destruct (index_of_In v scan (Hin v (or_introl eq_refl))) as (source & Es). rewrite Es.
    set (target := offset + i + 1) in *.
    assert (Hts : target <= source) by (eapply index_of_ge; [exact Es|apply Hn; now left]).
    destruct (index_of_spec _ _ _ Es) as (Hnth & _).
    assert (Hlt : source < length scan) by (apply nth_error_Some; congruence).
    destruct (move_total v scan source target Hlt) as (scan1 & sw & Em & Osw); [lia|].
    rewrite Em. cbn [bind fst snd].
    destruct (okd_then _ _ _ _ _ Od Osw) as (d1 & Ed & Od1). rewrite Ed. cbn [bind].
    destruct (move_spec _ _ _ _ _ _ Em Hts Hnth) as (offs1 & _ & _ & _ & E1 & R1).
    destruct (mv_firstn_S scan source target v Hts Hnth) as (F1 & Len1). rewrite <- E1 in F1, Len1.
    inversion Hnd as [|? ? Hv Hnd']; subst.
    apply (IH (S i) (mv scan source target) d1 n P0 (got ++ [v])).
    + rewrite Len1. exact Od1.
    + replace (offset + S i + 1) with (S target) by (unfold target; lia).
      rewrite F1, Hf, <- app_assoc. reflexivity.
    + intros v' Hv'. replace (offset + S i + 1) with (S target) by (unfold target; lia). rewrite F1.
      intros Hi. apply in_app_or in Hi. destruct Hi as [Hi|[->|[]]].
      * apply (Hn v' (or_intror Hv')). exact Hi.
      * contradiction.
    + exact Hnd'.
    + intros v' Hv'. rewrite <- (R1 nat scan eq_refl).
      eapply Permutation_in; [symmetry; apply route_perm|]. apply Hin. now right.
Qed.

Lemma mwa_total w scan d n inputs : okd d n (length scan) -> NoDup inputs ->
  match inputs with
  | [] => True
  | v0 :: rest => forall v, In v rest -> exists k0 k,
      index_of v0 scan = Some k0 /\ index_of v scan = Some k /\ k0 <= k
  end ->
  (forall v, In v inputs -> In v scan) ->
  exists scan1 d1 offset, make_wires_adjacent true w scan d inputs = Ok (scan1, d1, offset) /\
    okd d1 n (length scan1).
Proof.
  intros Od Hnd Hmin Hin. unfold make_wires_adjacent. destruct inputs as [|v0 rest]; [eauto|].
  destruct (index_of_In v0 scan (Hin v0 (or_introl eq_refl))) as (off & E0). rewrite E0.
  destruct (index_of_spec _ _ _ E0) as (Hnth & Hnot).
  inversion Hnd as [|? ? Hv0 Hnd']; subst.
  destruct (mwa_loop_total w off rest 0 scan d n (firstn off scan) [v0] Od) as (sc & dd & E & O).
  - replace (off + 0 + 1) with (S off) by lia. apply firstn_S_nth. exact Hnth.
  - intros v Hv. replace (off + 0 + 1) with (S off) by lia. rewrite (firstn_S_nth _ _ _ Hnth).
    destruct (Hmin v Hv) as (k0 & k & Ek0 & Ek & Hle). rewrite E0 in Ek0. inversion Ek0; subst k0.
    destruct (index_of_spec _ _ _ Ek) as (_ & Hk). intros Hi. apply in_app_or in Hi.
    destruct Hi as [Hi|[->|[]]].
    + apply Hk. eapply firstn_In_mono; eauto.
    + contradiction.
  - exact Hnd'.
  - intros v Hv. apply Hin. now right.
  - rewrite E. cbn [bind fst snd]. eauto.
Qed.

Lemma tensor_all_total_gen ds : forall acc a, Forall (fun x => okd x 1 1) ds -> okd acc a a ->
  exists hs, fold_left (fun acc x => do a <- acc; dtensor a x) ds (Ok acc) = Ok hs /\
    okd hs (a + length ds) (a + length ds).
Proof.
  induction ds as [|x ds IH]; intros acc a HF Ha; cbn [fold_left length].
  - exists acc. split; [reflexivity|]. now rewrite Nat.add_0_r.
  - inversion HF; subst. cbn [bind].
    destruct (okd_tensor _ _ _ _ _ _ Ha H1) as (t & Et & Ot). rewrite Et.
    destruct (IH t (a + 1) H2 Ot) as (hs & Eh & Oh). exists hs. split; [exact Eh|].
    eapply okd_cast; [exact Oh|lia|lia].
Qed.

Lemma tensor_all_total ds : Forall (fun x => okd x 1 1) ds ->
  exists hs, tensor_all ds = Ok hs /\ okd hs (length ds) (length ds).
Proof. intros H. apply (tensor_all_total_gen ds (zid 0) 0 H (zid_okd 0)). Qed.

Lemma spider_step_total g scan d w n : okd d n (length scan) ->
  (forall v, In v (node_inputs g w) -> In v scan) -> NoDup (node_inputs g w) ->
  (vtype g w = 1 \/ vtype g w = 2)%Z ->
  exists scan2 d2, spider_step true g (scan, d) w = Ok (scan2, d2) /\ okd d2 n (length scan2).
Proof.
  intros Od Hin Hnd Hty. unfold spider_step.
  destruct (sort_by_index_total scan (node_inputs g w) Hin) as (inputs & Es). rewrite Es. cbn [bind].
  destruct (sort_by_index_spec _ _ _ Es) as (Hperm & Hin' & Hmin).
  assert (Hnd' : NoDup inputs) by (eapply Permutation_NoDup; [symmetry; exact Hperm|exact Hnd]).
  destruct (mwa_total w scan d n inputs Od Hnd' Hmin Hin') as (scan1 & d1 & offset & Em & Od1).
  rewrite Em. cbn [bind].
  pose proof Od as (Wd & _).
  destruct (mwa_sim _ _ _ _ _ _ _ Em (wf_blok _ Wd) Hnd' Hmin) as (offs & _ & _ & _ & _ & Len1 & Hoff & F1).
  set (nin := length inputs) in *.
  assert (Hfit : offset + nin <= length scan1).
  { apply (f_equal (@length _)) in F1. rewrite firstn_length, app_length, firstn_length in F1. fold nin in F1. lia. }
  set (ds := map (fun i => if (edge_type g i w =? 2)%Z then had_d else zid 1)
               (firstn nin (skipn offset scan1))).
  assert (Lds : length ds = nin).
  { unfold ds. rewrite map_length, firstn_length, skipn_length. lia. }
  destruct (tensor_all_total ds) as (hs & Eh & Oh).
  { unfold ds. apply Forall_forall. intros x Hx. apply in_map_iff in Hx. destruct Hx as (i & <- & _).
    destruct (_ =? 2)%Z; [apply had_okd|apply zid_okd]. }
  rewrite Eh. cbn [bind]. rewrite Lds in Oh.
  assert (Eb : exists bx, node2box g w nin (length (node_outputs g w)) = Ok bx).
  { unfold node2box. destruct Hty as [-> | ->]; cbn; eauto. }
  destruct Eb as (bx & Eb). rewrite Eb. cbn [bind].
  pose proof (node2box_okd _ _ _ _ _ Eb) as Obx.
  destruct (okd_then _ _ _ _ _ Oh Obx) as (hb & Ehb & Ohb). rewrite Ehb. cbn [bind].
  destruct (okd_tensor _ _ _ _ _ _ (zid_okd offset) Ohb) as (t1 & Et1 & Ot1). rewrite Et1. cbn [bind].
  destruct (okd_tensor _ _ _ _ _ _ Ot1 (zid_okd (length (dcod d1) - offset - nin))) as (t2 & Et2 & Ot2).
  rewrite Et2. cbn [bind].
  pose proof Od1 as (_ & _ & Cd1). rewrite Cd1, pro_length in Ot2.
  destruct (okd_then d1 t2 n (length scan1) (offset + length (node_outputs g w) + (length scan1 - offset - nin)))
    as (d2 & Ed2 & Od2); [exact Od1|eapply okd_cast; [exact Ot2|lia|lia]|].
  rewrite Ed2. cbn [bind]. eexists. eexists. split; [reflexivity|].
  eapply okd_cast; [exact Od2|reflexivity|].
  rewrite !app_length, firstn_length, repeat_length, skipn_length. lia.
Qed.

(* ================================================================== the counting invariant *)
Lemma mem_app x l1 l2 : mem x (l1 ++ l2) = mem x l1 || mem x l2.
Proof. unfold mem. apply existsb_app. Qed.

Lemma count_occ_NoDup l x : NoDup l -> count_occ Nat.eq_dec l x = if mem x l then 1 else 0.
Proof.
  intros H. destruct (mem x l) eqn:E.
  - apply mem_In in E. apply (count_occ_In Nat.eq_dec) in E.
    pose proof (proj1 (NoDup_count_occ Nat.eq_dec l) H x). lia.
  - apply mem_false in E. now apply (count_occ_not_In Nat.eq_dec).
Qed.

Lemma filter_remove_length (p : nat -> bool) w l : NoDup l ->
  length (filter (fun u => p u && negb (Nat.eqb u w)) l)
  = length (filter p l) - (if mem w l && p w then 1 else 0).
Proof.
  induction 1 as [|x l Hx _ IH]; [reflexivity|].
  change (mem w (x :: l)) with (Nat.eqb w x || mem w l). cbn [filter].
  destruct (Nat.eqb_spec x w) as [->|Ne].
  - rewrite Nat.eqb_refl. cbn [orb negb]. rewrite andb_false_r.
    assert (Hm : mem w l = false) by (now apply mem_false).
    rewrite IH, Hm. cbn [andb]. destruct (p w); cbn [length]; lia.
  - assert (Ew : Nat.eqb w x = false) by (apply Nat.eqb_neq; congruence). rewrite Ew. cbn [orb negb].
    rewrite andb_true_r.
    assert (Hle : (if mem w l && p w then 1 else 0) <= length (filter p l)).
    { destruct (mem w l && p w) eqn:Em; [|lia]. apply andb_prop in Em. destruct Em as (E1 & E2).
      apply mem_In in E1. assert (Hin : In w (filter p l)) by (apply filter_In; auto).
      destruct (filter p l); [contradiction|cbn; lia]. }
    destruct (p x); cbn [length]; rewrite IH; lia.
Qed.

Lemma filter_sorted (p : nat -> bool) l : StronglySorted lt l -> StronglySorted lt (filter p l).
Proof.
  induction 1 as [|a l _ IH Ha]; cbn [filter]; [constructor|].
  destruct (p a); [|exact IH]. constructor; [exact IH|].
  rewrite Forall_forall in *. intros x Hx. apply filter_In in Hx. apply Ha. tauto.
Qed.

Section Total.
Variable g : graph.
Hypothesis Hwf : graph_wf g.
Hypothesis Hsc : graph_in_scope g = true.
Hypothesis Hsorted : StronglySorted lt (map vid (gverts g)).

Notation E := (gedges g).
Notation ins := (gins g).
Notation outs := (gouts g).
Notation sp := (spider_nodes g).

Definition pend (Proc : list nat) (x : nat) : list nat :=
  filter (fun u => negb (mem u Proc)) (neighbors g x).

Definition cnt (Proc : list nat) (x : nat) : nat :=
  if mem x Proc && negb (mem x outs) then length (pend Proc x) else 0.

Definition Inv (Proc bag : list nat) : Prop :=
  forall x, count_occ Nat.eq_dec bag x = cnt Proc x.

Lemma nbrs_NoDup x : NoDup (neighbors g x).
Proof. destruct (scope_facts g Hsc) as (Hs & _). rewrite neighbors_nbrs. apply simple_nbrs_NoDup. exact Hs. Qed.

Lemma nbrs_sym x y : In x (neighbors g y) -> In y (neighbors g x).
Proof. rewrite !neighbors_nbrs, !nbrs_spec. apply adj_sym. Qed.

Lemma nbrs_irrefl x : ~ In x (neighbors g x).
Proof.
  rewrite neighbors_nbrs, nbrs_spec. intros H. destruct (adj_facts g Hwf Hsc _ _ H) as (Hne & _). now apply Hne.
Qed.

Lemma pend_snoc Proc w x : ~ In w Proc ->
  length (pend (Proc ++ [w]) x) = length (pend Proc x) - (if mem w (neighbors g x) then 1 else 0).
Proof.
  intros Hw. unfold pend.
  rewrite (filter_ext (fun u => negb (mem u (Proc ++ [w])))
                      (fun u => negb (mem u Proc) && negb (Nat.eqb u w))).
  - rewrite filter_remove_length by apply nbrs_NoDup.
    assert (mem w Proc = false) by (now apply mem_false). rewrite H. cbn [negb]. now rewrite andb_true_r.
  - intros u. rewrite mem_app. cbn [mem existsb]. rewrite orb_false_r, negb_orb. reflexivity.
Qed.

(* one more vertex w processed: it consumed one wire from each processed neighbour and
   produced one wire per neighbour that is not processed yet *)
Lemma inv_snoc Proc bag bag' w consumed produced :
  Inv Proc bag -> ~ In w Proc -> NoDup consumed ->
  (forall x, In x consumed <-> In x Proc /\ ~ In x outs /\ In w (neighbors g x)) ->
  Permutation (bag' ++ consumed) (bag ++ repeat w produced) ->
  produced = cnt (Proc ++ [w]) w ->
  Inv (Proc ++ [w]) bag'.
Proof.
  intros HI Hw Hnd Hc HP Hprod x.
  pose proof (proj1 (Permutation_count_occ Nat.eq_dec _ _) HP x) as Ec. rewrite !count_occ_app in Ec.
  rewrite (HI x) in Ec. rewrite (count_occ_NoDup consumed x Hnd) in Ec.
  destruct (Nat.eq_dec x w) as [->|Ne].
  - rewrite count_occ_repeat_eq in Ec by reflexivity.
    assert (mem w consumed = false) by (apply mem_false; intros F; apply Hc in F; tauto).
    assert (mem w Proc = false) by (now apply mem_false).
    rewrite H in Ec. unfold cnt at 1 in Ec. rewrite H0 in Ec. cbn [andb] in Ec. lia.
  - rewrite count_occ_repeat_neq in Ec by exact Ne.
    unfold cnt in *. rewrite mem_app. cbn [mem existsb].
    assert (Nat.eqb x w = false) by (now apply Nat.eqb_neq). rewrite H. rewrite !orb_false_r.
    destruct (mem x Proc && negb (mem x outs)) eqn:Ex.
    + apply andb_prop in Ex. destruct Ex as (E1 & E2). apply mem_In in E1. apply negb_true_iff, mem_false in E2.
      rewrite (pend_snoc Proc w x Hw).
      destruct (mem w (neighbors g x)) eqn:Ew.
      * apply mem_In in Ew. assert (mem x consumed = true) by (apply mem_In, Hc; auto). rewrite H0 in Ec. lia.
      * apply mem_false in Ew. assert (mem x consumed = false) by (apply mem_false; intros F; apply Hc in F; tauto).
        rewrite H0 in Ec. lia.
    + assert (mem x consumed = false).
      { apply mem_false. intros F. apply Hc in F. destruct F as (F1 & F2 & _).
        apply mem_In in F1. apply mem_false in F2. rewrite F1, F2 in Ex. discriminate. }
      rewrite H0 in Ec. lia.
Qed.

Lemma inv_In Proc bag x w : Inv Proc bag -> In x Proc -> ~ In x outs ->
  In w (neighbors g x) -> ~ In w Proc -> In x bag.
Proof.
  intros HI Hx Ho Hw Hwp. apply (count_occ_In Nat.eq_dec). rewrite (HI x). unfold cnt.
  apply mem_In in Hx. apply mem_false in Ho. rewrite Hx, Ho. cbn [negb andb].
  assert (In w (pend Proc x)).
  { unfold pend. apply filter_In. split; [exact Hw|]. apply negb_true_iff. now apply mem_false. }
  destruct (pend Proc x); [contradiction|cbn; lia].
Qed.

(* ------------------------------------------------------------------ sortedness: who is processed *)
Lemma sp_sorted : StronglySorted lt sp.
Proof. unfold spider_nodes. apply filter_sorted. exact Hsorted. Qed.

Lemma sorted_split (done later : list nat) w : StronglySorted lt (done ++ w :: later) ->
  (forall u, In u done -> u < w) /\ (forall u, In u later -> w < u).
Proof.
  induction done as [|a done IH]; cbn [app]; intros H.
  - apply StronglySorted_inv in H. destruct H as (_ & H). rewrite Forall_forall in H. split; [contradiction|exact H].
  - apply StronglySorted_inv in H. destruct H as (H1 & H2). destruct (IH H1) as (I1 & I2).
    split; [|exact I2]. intros u [->|Hu]; [|now apply I1]. rewrite Forall_forall in H2. apply H2.
    apply in_or_app. right. now left.
Qed.

Lemma classify done later w u : sp = done ++ w :: later -> In u (neighbors g w) ->
  mem u (ins ++ done) = ((Nat.ltb u w && negb (mem u outs)) || mem u ins) /\
  negb (mem u (ins ++ done)) = ((Nat.ltb w u && negb (mem u ins)) || mem u outs).
Proof.
  intros Hsp Hu. pose proof sp_sorted as Hs. rewrite Hsp in Hs. destruct (sorted_split _ _ _ Hs) as (Hd & Hl).
  assert (Hadj : adj E u w) by (rewrite neighbors_nbrs, nbrs_spec in Hu; exact Hu).
  destruct (adj_facts g Hwf Hsc _ _ Hadj) as (Hne & Huv & _).
  assert (Hw : In w sp) by (rewrite Hsp; apply in_or_app; right; now left).
  apply (Lall_vids g Hwf) in Huv. unfold Lall in Huv. rewrite mem_app.
  apply in_app_or in Huv. destruct Huv as [Hi|Huv].
  - assert (mem u outs = false) by (apply mem_false; intros F; eapply ins_outs_disj; eauto).
    apply mem_In in Hi. rewrite Hi, H. cbn. rewrite !orb_true_r, andb_false_r. auto.
  - assert (Hni : mem u ins = false).
    { apply mem_false. intros F. apply in_app_or in Huv. destruct Huv as [Hs'|Ho].
      - apply (sp_spec g) in Hs'. destruct Hs' as (_ & Hs'). apply Hs', in_or_app. now left.
      - eapply ins_outs_disj; eauto. }
    rewrite Hni. cbn [orb negb]. rewrite !orb_false_r, !andb_true_r.
    apply in_app_or in Huv. destruct Huv as [Hs'|Ho].
    + assert (mem u outs = false).
      { apply mem_false. intros F. apply (sp_spec g) in Hs'. destruct Hs' as (_ & Hs'). apply Hs', in_or_app. now right. }
      rewrite H. cbn [negb]. rewrite !andb_true_r, orb_false_r.
      rewrite Hsp in Hs'. apply in_app_or in Hs'. destruct Hs' as [Hdn|[->|Hlt]]; [| now elim Hne |].
      * pose proof (Hd u Hdn). apply mem_In in Hdn. rewrite Hdn.
        destruct (Nat.ltb_spec u w), (Nat.ltb_spec w u); try lia; auto.
      * pose proof (Hl u Hlt).
        assert (mem u done = false).
        { apply mem_false. intros F. pose proof (Hd u F). lia. }
        rewrite H1. destruct (Nat.ltb_spec u w), (Nat.ltb_spec w u); try lia; auto.
    + assert (mem u done = false).
      { apply mem_false. intros F. assert (In u sp) by (rewrite Hsp; apply in_or_app; now left).
        apply (sp_spec g) in H. destruct H as (_ & H). apply H, in_or_app. now right. }
      apply mem_In in Ho. rewrite H, Ho. cbn [negb]. rewrite andb_false_r, orb_true_r. auto.
Qed.

(* ------------------------------------------------------------------ the two loops *)
Lemma sp_vtype w : In w sp -> (vtype g w = 1 \/ vtype g w = 2)%Z.
Proof.
  intros Hw. pose proof Hsc as H. unfold graph_in_scope in H.
  repeat (apply andb_prop in H; let X := fresh "A" in destruct H as [H X]).
  apply negb_true_iff in A4. unfold missing_boundary in A4.
  pose proof Hw as Hw'. apply (sp_spec g) in Hw'. destruct Hw' as (Hv & Hb).
  unfold vtype, find_vertex. destruct (find _ (gverts g)) as [v|] eqn:Ef.
  - apply find_some in Ef. destruct Ef as (Hin & Eid). apply Nat.eqb_eq in Eid.
    rewrite forallb_forall in A2. specialize (A2 v Hin).
    rewrite !orb_true_iff, !Z.eqb_eq in A2. destruct A2 as [[A2|A2]|A2]; auto.
    exfalso. assert (existsb (fun v => (vty v =? 0)%Z && negb (mem (vid v) (ins ++ outs))) (gverts g) = true);
      [|congruence].
    apply existsb_exists. exists v. split; [exact Hin|]. rewrite A2, Eid. cbn.
    apply negb_true_iff. now apply mem_false.
  - exfalso. apply in_map_iff in Hv. destruct Hv as (v & Ev & Hin).
    pose proof (find_none _ _ Ef v Hin) as F. cbn in F. rewrite Ev, Nat.eqb_refl in F. discriminate.
Qed.

Lemma sp_not_outs x : In x sp -> ~ In x outs.
Proof. intros H F. apply (sp_spec g) in H. destruct H as (_ & H). apply H, in_or_app. now right. Qed.

Lemma sp_not_ins x : In x sp -> ~ In x ins.
Proof. intros H F. apply (sp_spec g) in H. destruct H as (_ & H). apply H, in_or_app. now left. Qed.

Lemma spider_loop_total : forall later done scan d n,
  sp = done ++ later -> Inv (ins ++ done) scan -> okd d n (length scan) ->
  exists scan' d', spider_loop true g (scan, d) later = Ok (scan', d') /\
    okd d' n (length scan') /\ Inv (ins ++ sp) scan'.
Proof.
  induction later as [|w later IH]; intros done scan d n Hsp HI Od; cbn [spider_loop].
  - rewrite app_nil_r in Hsp. subst done. eauto.
  - set (Proc := ins ++ done) in *.
    assert (Hw : In w sp) by (rewrite Hsp; apply in_or_app; right; now left).
    pose proof sp_sorted as Hs. rewrite Hsp in Hs. destruct (sorted_split _ _ _ Hs) as (Hd & _).
    assert (HwP : ~ In w Proc).
    { unfold Proc. intros F. apply in_app_or in F. destruct F as [F|F]; [now apply (sp_not_ins w Hw)|].
      pose proof (Hd w F). lia. }
    assert (HPo : forall x, In x Proc -> ~ In x outs).
    { unfold Proc. intros x Hx F. apply in_app_or in Hx. destruct Hx as [Hx|Hx]; [eapply ins_outs_disj; eauto|].
      apply (sp_not_outs x); [rewrite Hsp; apply in_or_app; now left|exact F]. }
    assert (Hcls : forall x, In x (node_inputs g w) <-> In x Proc /\ ~ In x outs /\ In w (neighbors g x)).
    { intros x. unfold node_inputs. rewrite filter_In. split.
      - intros (Hn & Hp). destruct (classify done later w x Hsp Hn) as (C1 & _). fold Proc in C1.
        rewrite <- C1 in Hp. apply mem_In in Hp. split; [exact Hp|]. split; [now apply HPo|now apply nbrs_sym].
      - intros (Hp & _ & Hn). apply nbrs_sym in Hn. split; [exact Hn|].
        destruct (classify done later w x Hsp Hn) as (C1 & _). fold Proc in C1. rewrite <- C1. now apply mem_In. }
    assert (Hnd : NoDup (node_inputs g w)) by (apply (node_inputs_NoDup g Hsc)).
    destruct (spider_step_total g scan d w n Od) as (scan2 & d2 & Es & Od2).
    { intros v Hv. apply Hcls in Hv. destruct Hv as (H1 & H2 & H3). eapply inv_In; eauto. }
    { exact Hnd. }
    { apply sp_vtype. exact Hw. }
    rewrite Es. cbn [bind].
    pose proof Od as (Wd & _).
    destruct (spider_step_sim (fun x => x) g scan d w scan2 d2 Es (wf_blok _ Wd) Hnd)
      as (srt & nb & Hperm & _ & _ & _ & _ & HP & _).
    assert (HI2 : Inv (Proc ++ [w]) scan2).
    { apply (inv_snoc Proc scan scan2 w srt (length (node_outputs g w)) HI HwP).
      - eapply Permutation_NoDup; [symmetry; exact Hperm|exact Hnd].
      - intros x. rewrite <- Hcls. split; intros Hx.
        + eapply Permutation_in; [exact Hperm|exact Hx].
        + eapply Permutation_in; [symmetry; exact Hperm|exact Hx].
      - exact HP.
      - unfold cnt. rewrite mem_app. cbn [mem existsb]. rewrite Nat.eqb_refl. cbn [orb]. rewrite orb_true_r.
        assert (mem w outs = false) by (apply mem_false; now apply sp_not_outs). rewrite H. cbn [negb andb].
        rewrite (pend_snoc Proc w w HwP).
        assert (mem w (neighbors g w) = false) by (apply mem_false, nbrs_irrefl). rewrite H0, Nat.sub_0_r.
        unfold pend, node_outputs. f_equal. apply filter_ext_in. intros u Hu.
        destruct (classify done later w u Hsp Hu) as (_ & C2). fold Proc in C2. now rewrite C2. }
    unfold Proc in HI2. rewrite <- app_assoc in HI2.
    apply (IH (done ++ [w]) scan2 d2 n); [rewrite <- app_assoc; exact Hsp|exact HI2|exact Od2].
Qed.

Lemma out_loop_total : forall orem odone scan d n A rest,
  outs = odone ++ orem -> scan = A ++ rest -> length A = length odone ->
  Inv (ins ++ sp ++ odone) rest -> okd d n (length scan) ->
  exists d', out_loop true g (length odone) orem scan d = Ok d'.
Proof.
  induction orem as [|o orem IH]; intros odone scan d n A rest Hout Hscan HA HI Od; cbn [out_loop]; [eauto|].
  set (Proc := ins ++ sp ++ odone) in *.
  destruct (scope_facts g Hsc) as (_ & _ & _ & Hdeg & _).
  assert (Ho : In o outs) by (rewrite Hout; apply in_or_app; right; now left).
  pose proof (Hdeg o (in_or_app _ _ _ (or_intror Ho))) as Hl.
  destruct (neighbors g o) as [|node [|? ?]] eqn:En; try discriminate.
  assert (Hno : In node (neighbors g o)) by (rewrite En; now left).
  assert (Hadj : adj E node o) by (rewrite neighbors_nbrs, nbrs_spec in Hno; exact Hno).
  destruct (adj_facts g Hwf Hsc _ _ Hadj) as (_ & Hnv & _ & _ & Hoo).
  assert (Hnout : ~ In node outs) by (intros F; apply Hoo; auto).
  assert (HnP : In node Proc).
  { apply (Lall_vids g Hwf) in Hnv. unfold Lall in Hnv. unfold Proc.
    apply in_app_or in Hnv. destruct Hnv as [H|H]; [apply in_or_app; now left|].
    apply in_app_or in H. destruct H as [H|H]; [|contradiction].
    apply in_or_app. right. apply in_or_app. now left. }
  assert (HoP : ~ In o Proc).
  { unfold Proc. intros F. apply in_app_or in F. destruct F as [F|F]; [eapply ins_outs_disj; eauto|].
    apply in_app_or in F. destruct F as [F|F]; [now apply (sp_not_outs o F)|].
    destruct Hwf as (_ & _ & No & _). rewrite Hout in No. apply NoDup_remove_2 in No. apply No.
    apply in_or_app. now left. }
  assert (Hin : In node rest) by (eapply inv_In; eauto; now apply nbrs_sym).
  destruct (index_of_In node rest Hin) as (s & Es).
  unfold index_from.
  assert (Esk : skipn (length odone) scan = rest) by (rewrite Hscan; apply skipn_app_l; exact HA).
  rewrite Esk, Es. cbn [option_map].
  set (target := length odone) in *.
  destruct (index_of_spec _ _ _ Es) as (Hnth & _).
  assert (Hs : s < length rest) by (apply nth_error_Some; congruence).
  assert (Hlen : length scan = target + length rest) by (rewrite Hscan, app_length; lia).
  assert (Hnth' : nth_error scan (target + s) = Some node).
  { rewrite Hscan, nth_error_app2 by lia. replace (target + s - length A) with s by lia. exact Hnth. }
  destruct (move_total node scan (target + s) target) as (scan1 & sw & Em & Osw); [lia|lia|].
  rewrite Em. cbn [bind fst snd].
  destruct (okd_then _ _ _ _ _ Od Osw) as (d1 & Ed1 & Od1). rewrite Ed1. cbn [bind].
  destruct (move_spec _ _ _ _ _ _ Em (Nat.le_add_r _ _) Hnth') as (offs & _ & _ & _ & E1 & _).
  destruct (mv_firstn_S scan (target + s) target node (Nat.le_add_r _ _) Hnth') as (_ & Len1).
  rewrite <- E1 in Len1.
  assert (Oh : okd (if (edge_type g node o =? 2)%Z then had_d else zid 1) 1 1)
    by (destruct (_ =? 2)%Z; [apply had_okd|apply zid_okd]).
  destruct (okd_tensor _ _ _ _ _ _ (zid_okd target) Oh) as (t1 & Et1 & Ot1). rewrite Et1. cbn [bind].
  destruct (okd_tensor _ _ _ _ _ _ Ot1 (zid_okd (length scan1 - target - 1))) as (t2 & Et2 & Ot2).
  rewrite Et2. cbn [bind].
  destruct (okd_then d1 t2 n (length scan) (length scan1)) as (d2 & Ed2 & Od2);
    [exact Od1|eapply okd_cast; [exact Ot2|lia|lia]|].
  rewrite Ed2. cbn [bind].
  destruct (nth_error_split3 rest s 0 node (Nat.le_0_l _) Hnth) as (P & M & Q & Erest & HP & HM).
  destruct P; [|discriminate]. cbn [app] in Erest.
  assert (Escan1 : scan1 = (A ++ [node]) ++ (M ++ Q)).
  { rewrite E1, Hscan. replace target with (length A) by lia. rewrite mv_prefix. rewrite Erest.
    change (M ++ node :: Q) with ([] ++ M ++ node :: Q).
    rewrite (mv_split [] M Q node s 0 eq_refl) by lia. cbn [app]. now rewrite <- app_assoc. }
  replace (S target) with (length (odone ++ [o])) by (rewrite app_length; cbn; unfold target; lia).
  apply (IH (odone ++ [o]) scan1 d2 n (A ++ [node]) (M ++ Q)).
  - rewrite <- app_assoc. exact Hout.
  - exact Escan1.
  - rewrite !app_length. cbn. lia.
  - replace (ins ++ sp ++ odone ++ [o]) with (Proc ++ [o]) by (unfold Proc; now rewrite <- !app_assoc).
    apply (inv_snoc Proc rest (M ++ Q) o [node] 0 HI HoP).
    + repeat constructor. intros [].
    + intros x. split.
      * intros [<-|[]]. split; [exact HnP|]. split; [exact Hnout|now apply nbrs_sym].
      * intros (_ & _ & Hx). apply nbrs_sym in Hx. rewrite En in Hx. exact Hx.
    + cbn [repeat]. rewrite app_nil_r, Erest. rewrite <- app_assoc. apply Permutation_app_head.
      symmetry. apply Permutation_cons_append.
    + unfold cnt. apply mem_In in Ho. rewrite Ho. cbn [negb]. now rewrite andb_false_r.
  - exact Od2.
Qed.

Theorem from_pyzx_total_gen : exists d, from_pyzx true true g = Ok d.
Proof.
  unfold from_pyzx.
  pose proof Hsc as H. unfold graph_in_scope in H.
  repeat (apply andb_prop in H; let X := fresh "A" in destruct H as [H X]).
  apply negb_true_iff in A4. apply negb_true_iff in A3. rewrite A4, A3.
  destruct (scope_facts g Hsc) as (_ & _ & _ & Hdeg & _ & Hii & _).
  destruct Hwf as (_ & Ni & _).
  assert (HI0 : Inv (ins ++ []) ins).
  { intros x. rewrite app_nil_r, (count_occ_NoDup ins x Ni). unfold cnt.
    destruct (mem x ins) eqn:Ex; [|reflexivity]. apply mem_In in Ex.
    assert (mem x outs = false) by (apply mem_false; intros F; eapply ins_outs_disj; eauto).
    rewrite H0. cbn [negb andb]. unfold pend. rewrite <- (Hdeg x (in_or_app _ _ _ (or_introl Ex))).
    f_equal. symmetry. rewrite <- (filter_ext_in (fun _ => true)).
    - clear. induction (neighbors g x); cbn; congruence.
    - intros u Hu. symmetry. apply negb_true_iff, mem_false. exact (Hii x u Ex Hu). }
  destruct (spider_loop_total sp [] ins (zid (length ins)) (length ins) eq_refl HI0 (zid_okd _))
    as (scanF & dF & EF & OF & HIF).
  rewrite EF. cbn [bind fst snd].
  rewrite <- (app_nil_r sp) in HIF.
  destruct (out_loop_total outs [] scanF dF (length ins) [] scanF eq_refl eq_refl eq_refl HIF OF) as (d & Ed).
  exists d. exact Ed.
Qed.

End Total.

(* TOTALITY: graphs in scope whose vertices are well formed and listed by increasing id
   are never refused -- the corrected form of ZXSem.from_pyzx_total_stmt *)
Theorem from_pyzx_total : forall g,
  graph_wf g -> graph_in_scope g = true -> StronglySorted lt (map vid (gverts g)) ->
  graph_balanced g = true /\ exists d, from_pyzx true true g = Ok d.
Proof.
  intros g Hwf Hsc Hs. split; [apply graph_balanced_holds; assumption|apply from_pyzx_total_gen; assumption].
Qed.
