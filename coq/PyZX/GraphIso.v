(* The tensor of a pyzx graph (ZXSem.graph_sem) does not depend on the presentation
   of the graph: order of the edge list, orientation of the edges, order of the
   vertex list, names of the vertices (an injective renaming), positions (qubit /
   row) and the representative of a phase.  Used by PyZX/PyZXImport.v to compare an
   arbitrary graph with the graph that to_pyzx builds from its imported diagram.

   The labelling sum is re-read over labelled edge lists ([zipl], [lsum]); [lsum_perm]
   (reorder) and [lsum_rel] (rename / flip edge by edge) are the two re-indexings. *)
From Coq Require Import List ZArith QArith Bool Arith Lia Setoid Morphisms Ring Permutation.
Import ListNotations.
Require Import DV.Common.Base DV.PyZX.PyZX DV.PyZX.ZXSem DV.PyZX.KSum DV.PyZX.PyZXSound.
Local Open Scope nat_scope.

Definition ledge := (edge * bool * bool)%type.

Fixpoint zipl (es : list edge) (lab : list bool) : list ledge :=
  match es, lab with
  | e :: es', x :: y :: lab' => (e, x, y) :: zipl es' lab'
  | _, _ => []
  end.

Fixpoint llegs (v : nat) (l : list ledge) : list bool :=
  match l with
  | [] => []
  | ((a, b, _), x, y) :: l' =>
      (if Nat.eqb a v then [x] else []) ++ (if Nat.eqb b v then [y] else []) ++ llegs v l'
  end.

Lemma legs_of_zipl v es : forall lab, legs_of v es lab = llegs v (zipl es lab).
Proof.
  induction es as [|[[a b] t] es IH]; intros lab; [reflexivity|].
  destruct lab as [|x [|y lab]]; try reflexivity. cbn [legs_of zipl llegs]. now rewrite IH.
Qed.

(* the renaming / flipping relations, edge by edge; U = the names in use *)
Definition erel (rho : nat -> nat) (U : list nat) (e e' : edge) : Prop :=
  let '(a, b, t) := e in let '(a', b', t') := e' in
  In a U /\ In b U /\ t' = t /\ ((a' = rho a /\ b' = rho b) \/ (a' = rho b /\ b' = rho a)).

Definition lerel (rho : nat -> nat) (U : list nat) (c c' : ledge) : Prop :=
  let '((a, b, t), x, y) := c in let '((a', b', t'), x', y') := c' in
  In a U /\ In b U /\ t' = t /\
  ((a' = rho a /\ b' = rho b /\ x' = x /\ y' = y) \/ (a' = rho b /\ b' = rho a /\ x' = y /\ y' = x)).

Section Iso.
Context {K : ringops} {HL : sring_laws K}.

Notation "x == y" := (req K x y) (at level 70, no associativity) : K_scope.
Notation "x + y" := (radd K x y) : K_scope.
Notation "x * y" := (rmul K x y) : K_scope.
Notation "0" := (r0 K) : K_scope.
Notation "1" := (r1 K) : K_scope.
Local Open Scope K_scope.

Add Ring Kring3 : (@K_srt K HL) (setoid (@req_equiv K HL) (@K_ext K HL)).

Fixpoint lev (l : list ledge) : car K :=
  match l with
  | [] => 1
  | ((_, _, t), x, y) :: l' => edge_val K t x y * lev l'
  end.

Lemma edges_val_zipl es : forall lab, edges_val K es lab = lev (zipl es lab).
Proof.
  induction es as [|[[a b] t] es IH]; intros lab; [reflexivity|].
  destruct lab as [|x [|y lab]]; try reflexivity. cbn [edges_val zipl lev]. now rewrite IH.
Qed.

(* the vertex tensor as a function of the legs *)
Definition vval (ins outs : list nat) (i o : list bool) (v : vertex) (legs : list bool) : car K :=
  match pos_of (vid v) ins, pos_of (vid v) outs with
  | Some k, _ => delta K (all_eq (nth k i false) legs)
  | None, Some k => delta K (all_eq (nth k o false) legs)
  | None, None =>
      if Z.eqb (vty v) 1 then spider_val K false (vphase v * (1 # 2)) legs
      else if Z.eqb (vty v) 2 then spider_val K true (vphase v * (1 # 2)) legs
      else 0
  end.

Lemma vertex_val_vval g i o lab v :
  vertex_val K g i o lab v = vval (gins g) (gouts g) i o v (llegs (vid v) (zipl (gedges g) lab)).
Proof. unfold vertex_val, vval. rewrite legs_of_zipl. reflexivity. Qed.

Lemma vval_perm ins outs i o v l l' : Permutation l l' -> vval ins outs i o v l = vval ins outs i o v l'.
Proof.
  intros H. unfold vval.
  rewrite (spider_val_perm false _ _ _ H), (spider_val_perm true _ _ _ H).
  destruct (pos_of (vid v) ins); [now rewrite (all_eq_perm _ _ _ H)|].
  destruct (pos_of (vid v) outs); [now rewrite (all_eq_perm _ _ _ H)|]. reflexivity.
Qed.

(* ------------------------------------------------------------------ sums over labelled lists *)
Definition lsum (es : list edge) (G : list ledge -> car K) : car K :=
  bsum (2 * length es) (fun lab => G (zipl es lab)).

Definition lab2 (e : edge) (p : list bool) : ledge := (e, nth 0 p false, nth 1 p false).

Lemma lsum_cons e es G :
  lsum (e :: es) G = bsum 2 (fun p => lsum es (fun l => G (lab2 e p :: l))).
Proof.
  unfold lsum. cbn [length]. replace (2 * S (length es))%nat with (S (S (2 * length es))) by lia.
  reflexivity.
Qed.

Lemma lsum_ext es G G' : (forall l, G l == G' l) -> lsum es G == lsum es G'.
Proof. intros H. unfold lsum. apply bsum_ext. intros lab _. apply H. Qed.

Lemma lsum_perm es es' : Permutation es es' -> forall G,
  (forall l l', Permutation l l' -> G l == G l') -> lsum es G == lsum es' G.
Proof.
  induction 1 as [|e es es' _ IH|e1 e2 es|es es' es'' _ IH1 _ IH2]; intros G HG.
  - reflexivity.
  - rewrite !lsum_cons. apply bsum_ext. intros p _. apply IH.
    intros l l' Hl. apply HG. now constructor.
  - rewrite !lsum_cons.
    transitivity (bsum 2 (fun p => bsum 2 (fun q =>
       lsum es (fun l => G (lab2 e2 p :: lab2 e1 q :: l))))).
    + apply bsum_ext. intros p _. rewrite lsum_cons. reflexivity.
    + rewrite bsum_swap. apply bsum_ext. intros q _. rewrite lsum_cons.
      apply bsum_ext. intros p _. apply lsum_ext. intros l. apply HG. constructor.
  - rewrite (IH1 G HG). apply IH2. exact HG.
Qed.

Lemma lsum_rel rho U es es' : Forall2 (erel rho U) es es' -> forall G G',
  (forall l l', Forall2 (lerel rho U) l l' -> G l == G' l') -> lsum es G == lsum es' G'.
Proof.
  induction 1 as [|e e' es es' He _ IH]; intros G G' HG.
  - unfold lsum. cbn. apply HG. constructor.
  - rewrite !lsum_cons.
    destruct e as [[a b] t], e' as [[a' b'] t']. cbn [erel] in He.
    destruct He as (Ha & Hb & -> & [[-> ->]|[-> ->]]).
    + apply bsum_ext. intros p _. apply IH. intros l l' Hl. apply HG. constructor; [|exact Hl].
      unfold lab2. cbn [lerel]. split; [exact Ha|]. split; [exact Hb|]. split; [reflexivity|]. left. auto.
    + assert (E : forall x y,
        lsum es (fun l => G ((a, b, t, x, y) :: l))
        == lsum es' (fun l => G' ((rho b, rho a, t, y, x) :: l))).
      { intros x y. apply IH. intros l l' Hl. apply HG. constructor; [|exact Hl].
        cbn [lerel]. split; [exact Ha|]. split; [exact Hb|]. split; [reflexivity|]. right. auto. }
      cbn [bsum]. unfold lab2. cbn [nth].
      rewrite (E false false), (E false true), (E true false), (E true true).
      set (A := lsum es' _). set (B := lsum es' _). set (C := lsum es' _). set (D := lsum es' _).
      ring.
Qed.

(* ------------------------------------------------------------------ invariance of the summand *)
Lemma had_val_sym x y : had_val K x y = had_val K y x.
Proof. destruct x, y; reflexivity. Qed.

Lemma edge_val_sym t x y : edge_val K t x y = edge_val K t y x.
Proof. unfold edge_val. destruct (Z.eqb t 2); [apply had_val_sym|]. destruct x, y; reflexivity. Qed.

Lemma lev_perm l l' : Permutation l l' -> lev l == lev l'.
Proof.
  induction 1 as [|[[[[a b] t] x] y] l l' _ IH|[[[[a b] t] x] y] [[[[a2 b2] t2] x2] y2] l|l l' l'' _ IH1 _ IH2];
    cbn [lev].
  - reflexivity.
  - rewrite IH. reflexivity.
  - ring.
  - rewrite IH1. exact IH2.
Qed.

Lemma llegs_perm v l l' : Permutation l l' -> Permutation (llegs v l) (llegs v l').
Proof.
  induction 1 as [|[[[[a b] t] x] y] l l' _ IH|[[[[a b] t] x] y] [[[[a2 b2] t2] x2] y2] l|l l' l'' _ IH1 _ IH2];
    cbn [llegs].
  - constructor.
  - apply Permutation_app_head, Permutation_app_head, IH.
  - rewrite !app_assoc. apply Permutation_app_tail.
    rewrite <- !app_assoc.
    set (A := if Nat.eqb a2 v then [x2] else []). set (B := if Nat.eqb b2 v then [y2] else []).
    set (C := if Nat.eqb a v then [x] else []). set (D := if Nat.eqb b v then [y] else []).
    rewrite (app_assoc A B), (app_assoc C D). apply Permutation_app_comm.
  - eapply Permutation_trans; eassumption.
Qed.

Lemma rprod_perm (l l' : list (car K)) : Permutation l l' -> rprod K l == rprod K l'.
Proof.
  induction 1 as [|x l l' _ IH|x y l|l l' l'' _ IH1 _ IH2]; rewrite ?rprod_cons.
  - reflexivity.
  - rewrite IH. reflexivity.
  - ring.
  - rewrite IH1. exact IH2.
Qed.

Lemma rprod_Forall2 {A B} (f : A -> car K) (f' : B -> car K) l l' :
  Forall2 (fun a b => f a == f' b) l l' -> rprod K (map f l) == rprod K (map f' l').
Proof.
  induction 1 as [|a b l l' H _ IH]; cbn [map]; [reflexivity|].
  rewrite !rprod_cons, H, IH. reflexivity.
Qed.

Section Rename.
Variable rho : nat -> nat.
Variable U : list nat.
Hypothesis rho_inj : forall a b, In a U -> In b U -> rho a = rho b -> a = b.

Lemma rho_eqb a b : In a U -> In b U -> Nat.eqb (rho a) (rho b) = Nat.eqb a b.
Proof.
  intros Ha Hb. destruct (Nat.eqb_spec a b) as [->|E]; [apply Nat.eqb_refl|].
  apply Nat.eqb_neq. intros H. apply E. now apply rho_inj.
Qed.

Lemma lev_rel l l' : Forall2 (lerel rho U) l l' -> lev l == lev l'.
Proof.
  induction 1 as [|[[[[a b] t] x] y] [[[[a' b'] t'] x'] y'] l l' H _ IH]; cbn [lev]; [reflexivity|].
  cbn [lerel] in H. destruct H as (_ & _ & -> & [(_ & _ & -> & ->)|(_ & _ & -> & ->)]).
  - rewrite IH. reflexivity.
  - rewrite IH, (edge_val_sym t y x). reflexivity.
Qed.

Lemma llegs_rel v l l' : In v U -> Forall2 (lerel rho U) l l' ->
  Permutation (llegs v l) (llegs (rho v) l').
Proof.
  intros Hv. induction 1 as [|[[[[a b] t] x] y] [[[[a' b'] t'] x'] y'] l l' H _ IH]; cbn [llegs]; [constructor|].
  cbn [lerel] in H. destruct H as (Ha & Hb & -> & [(-> & -> & -> & ->)|(-> & -> & -> & ->)]).
  - rewrite !rho_eqb by assumption. apply Permutation_app_head, Permutation_app_head, IH.
  - rewrite !rho_eqb by assumption. rewrite !app_assoc. apply Permutation_app; [|exact IH].
    apply Permutation_app_comm.
Qed.

Lemma pos_of_rename v l : In v U -> incl l U -> pos_of (rho v) (map rho l) = pos_of v l.
Proof.
  intros Hv. induction l as [|y l IH]; intros Hl; [reflexivity|]. cbn [map pos_of].
  rewrite rho_eqb; [|apply Hl; now left|exact Hv].
  destruct (Nat.eqb y v); [reflexivity|]. rewrite IH; [reflexivity|].
  intros z Hz. apply Hl. now right.
Qed.
End Rename.

(* the labelling sum of a graph *)
Definition gsum (g : graph) (i o : list bool) : car K :=
  bsum (2 * length (gedges g))
    (fun lab => edges_val K (gedges g) lab * rprod K (map (vertex_val K g i o lab) (gverts g))).

Lemma graph_sem_gsum g i o :
  graph_sem K g i o == rcplx K (fst (gscal g)) (snd (gscal g)) * gsum g i o.
Proof. unfold graph_sem, gsum. rewrite rsum_bits. reflexivity. Qed.

Definition Gof (ins outs : list nat) (vs : list vertex) (i o : list bool) (l : list ledge) : car K :=
  lev l * rprod K (map (fun v => vval ins outs i o v (llegs (vid v) l)) vs).

Lemma gsum_lsum g i o : gsum g i o == lsum (gedges g) (Gof (gins g) (gouts g) (gverts g) i o).
Proof.
  unfold gsum, lsum, Gof. apply bsum_ext. intros lab _. rewrite edges_val_zipl.
  apply rmul_proper; [reflexivity|]. apply rprod_map_ext. intros v _. rewrite vertex_val_vval. reflexivity.
Qed.

Lemma Gof_perm ins outs vs i o l l' : Permutation l l' -> Gof ins outs vs i o l == Gof ins outs vs i o l'.
Proof.
  intros H. unfold Gof. rewrite (lev_perm _ _ H). apply rmul_proper; [reflexivity|].
  apply rprod_map_ext. intros v _. rewrite (vval_perm ins outs i o v _ _ (llegs_perm (vid v) _ _ H)).
  reflexivity.
Qed.

(* vertices correspond: same name up to rho and, for the vertices that are not
   boundaries, same kind and equivalent phase *)
Definition vrel (rho : nat -> nat) (ins outs : list nat) (v v' : vertex) : Prop :=
  vid v' = rho (vid v) /\
  (pos_of (vid v) ins = None -> pos_of (vid v) outs = None ->
   vty v' = vty v /\ rexp K (vphase v' * (1 # 2))%Q == rexp K (vphase v * (1 # 2))%Q).

Theorem gsum_iso rho U g g' i o :
  (forall a b, In a U -> In b U -> rho a = rho b -> a = b) ->
  incl (map vid (gverts g)) U -> incl (gins g) U -> incl (gouts g) U ->
  gins g' = map rho (gins g) -> gouts g' = map rho (gouts g) ->
  (exists V1, Permutation (gverts g) V1 /\ Forall2 (vrel rho (gins g) (gouts g)) V1 (gverts g')) ->
  (exists E1, Permutation (gedges g) E1 /\ Forall2 (erel rho U) E1 (gedges g')) ->
  gsum g i o == gsum g' i o.
Proof.
  intros Hinj HV HI HO Ei Eo (V1 & PV & FV) (E1 & PE & FE).
  rewrite !gsum_lsum.
  rewrite (lsum_perm _ _ PE) by (intros l l' Hl; apply Gof_perm; exact Hl).
  apply (lsum_rel rho U _ _ FE). intros l l' Hl. unfold Gof.
  rewrite (lev_rel rho U l l' Hl). apply rmul_proper; [reflexivity|].
  rewrite (rprod_perm _ _ (Permutation_map _ PV)).
  apply rprod_Forall2.
  assert (HV1 : forall v, In v V1 -> In (vid v) U).
  { intros v Hv. apply HV. apply in_map. apply (Permutation_in _ (Permutation_sym PV)). exact Hv. }
  clear PV. induction FV as [|v v' V1 V' Hv _ IH]; constructor.
  - destruct Hv as (Hid & Hdat). assert (HvU : In (vid v) U) by (apply HV1; now left).
    rewrite (vval_perm (gins g) (gouts g) i o v _ _ (llegs_rel rho U Hinj (vid v) l l' HvU Hl)).
    unfold vval. rewrite Hid, Ei, Eo, !(pos_of_rename rho U Hinj) by assumption.
    destruct (pos_of (vid v) (gins g)) eqn:Pi; [reflexivity|].
    destruct (pos_of (vid v) (gouts g)) eqn:Po; [reflexivity|].
    destruct (Hdat eq_refl eq_refl) as (Hty & Hph).
    rewrite Hty. destruct (Z.eqb (vty v) 1); [symmetry; apply spider_val_phase; exact Hph|].
    destruct (Z.eqb (vty v) 2); [symmetry; apply spider_val_phase; exact Hph|reflexivity].
  - apply IH. intros w Hw. apply HV1. now right.
Qed.

End Iso.
