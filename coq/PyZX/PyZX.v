(* "zx.Diagram.to_pyzx / zx.Diagram.from_pyzx in Gallina" (property C17).
   Definitions only; proofs live in PyZX/PyZXLemmas.v.

   Mirrors /repo/discopy/quantum/zx.py:
     Diagram.to_pyzx                          ->  to_pyzx   (step_box, add_outputs)
     Diagram.from_pyzx                        ->  from_pyzx (spider_step, out_loop)
       inner  move                            ->  move
       inner  make_wires_adjacent             ->  make_wires_adjacent (mwa_loop)
       inner  node2box                        ->  node2box
     Spider / Z / X / Y / Had / Swap / Scalar ->  zxbox, core_box

   The pyzx graph API that the code calls (through the harness adapter which
   restores the list-valued `inputs` / `outputs`, Fraction phases and the old
   `edge_type` of a missing edge) is modelled, not verified:
     add_vertex    : fresh index = number of vertices so far; phase stored mod 2
     add_edge      : appends (faithful for SIMPLE graphs only: pyzx rewrites
                     parallel edges with the Hopf / fusion rules, see graph_simple)
     neighbors     : the other end-points of the incident edges, insertion order
     edge_type     : 0 for a missing edge (old pyzx), 1 SIMPLE, 2 HADAMARD
     scalar.add_float : complex multiplication

   ZX diagrams are diagrams over the one-wire type PRO; from_pyzx builds Core
   diagrams (Core/Diagram.v) with dthen / dtensor / dswap exactly where the code
   uses >> / @ / Diagram.swap.  Two switches select the behaviour of the two
   sub-cases of finding F15 (false = the code as it is, true = proposed fix). *)
From Coq Require Import List ZArith QArith Qround Bool Lia.
Import ListNotations.
Require Import DV.Common.Base DV.Core.Diagram DV.Core.Perm.
Open Scope Z_scope.

(* ------------------------------------------------------------------ ZX boxes *)
Definition wire : ob := Ob 1 0.
Definition pro (n : nat) : ty := repeat wire n.          (* rigid.PRO(n) *)

Inductive skind := SZ | SX | SY.
Inductive zxbox :=
| BSpider (k : skind) (nin nout : nat) (phase : Q)       (* Z / X / Y (n_legs_in, n_legs_out, phase) *)
| BHad                                                   (* H *)
| BSwap                                                  (* SWAP *)
| BScalar (re im : Q)                                    (* scalar(re + im j) *)
| BOther (nin nout : nat).                               (* any other zx.Box *)

Definition zdom (b : zxbox) : nat :=
  match b with BSpider _ n _ _ => n | BHad => 1 | BSwap => 2 | BScalar _ _ => 0 | BOther n _ => n end.
Definition zcod (b : zxbox) : nat :=
  match b with BSpider _ _ m _ => m | BHad => 1 | BSwap => 2 | BScalar _ _ => 0 | BOther _ m => m end.

Definition skind_code (k : skind) : Z := match k with SZ => 1 | SX => 2 | SY => 6 end.

(* the box as a Core box: name = kind + 8 * denominator, data = numerator *)
Definition core_box (b : zxbox) : box :=
  match b with
  | BSpider k n m p => Box KBox (skind_code k + 8 * Zpos (Qden p)) (pro n) (pro m) false (Some (Qnum p))
  | BHad => Box KBox 3 (pro 1) (pro 1) false None
  | BSwap => Box KSwap (-1) (pro 2) (pro 2) false None
  | BScalar _ _ => Box KBox 4 [] [] false None
  | BOther n m => Box KBox 5 (pro n) (pro m) false None
  end.

(* ------------------------------------------------------------------ graphs *)
(* pyzx VertexType: BOUNDARY 0, Z 1, X 2, H_BOX 3, ...; EdgeType: SIMPLE 1, HADAMARD 2 *)
Record vertex := V { vid : nat; vty : Z; vphase : Q; vqubit : Z; vrow : Z }.
Definition edge := (nat * nat * Z)%type.
Record graph := G {
  gverts : list vertex; gedges : list edge; gins : list nat; gouts : list nat;
  gscal : Q * Q }.

Definition mem (x : nat) (l : list nat) : bool := existsb (Nat.eqb x) l.

(* list.index *)
Fixpoint index_of (x : nat) (l : list nat) : option nat :=
  match l with
  | [] => None
  | y :: l' => if Nat.eqb y x then Some O else option_map S (index_of x l')
  end.
(* list.index(x, start) *)
Definition index_from (start : nat) (x : nat) (l : list nat) : option nat :=
  option_map (fun i => (start + i)%nat) (index_of x (skipn start l)).

Definition neighbors (g : graph) (v : nat) : list nat :=
  flat_map (fun e : edge => let '(a, b, _) := e in
              if Nat.eqb a v then [b] else if Nat.eqb b v then [a] else []) (gedges g).

Definition edge_type (g : graph) (a b : nat) : Z :=
  match find (fun e : edge => let '(x, y, _) := e in
                (Nat.eqb x a && Nat.eqb y b) || (Nat.eqb x b && Nat.eqb y a)) (gedges g) with
  | Some (_, _, t) => t
  | None => 0
  end.

Definition find_vertex (g : graph) (v : nat) : option vertex :=
  find (fun x => Nat.eqb (vid x) v) (gverts g).
Definition vtype (g : graph) (v : nat) : Z :=
  match find_vertex g v with Some x => vty x | None => 0 end.
Definition vphase_of (g : graph) (v : nat) : Q :=
  match find_vertex g v with Some x => vphase x | None => 0%Q end.

(* at most one edge per pair of vertices and no self-loop: the only graphs on
   which pyzx's add_edge is a plain insertion *)
Definition same_pair (e f : edge) : bool :=
  let '(a, b, _) := e in let '(c, d, _) := f in
  (Nat.eqb a c && Nat.eqb b d) || (Nat.eqb a d && Nat.eqb b c).
Fixpoint edges_simple (es : list edge) : bool :=
  match es with
  | [] => true
  | e :: es' => negb (Nat.eqb (fst (fst e)) (snd (fst e))) && negb (existsb (same_pair e) es')
                && edges_simple es'
  end.
Definition graph_simple (g : graph) : bool := edges_simple (gedges g).

(* ------------------------------------------------------------------ to_pyzx *)
(* Fraction % 2 *)
Definition qmod2 (q : Q) : Q := Qred (q - inject_Z (2 * Qfloor (q / (2 # 1)))).
(* phase=box.phase * 2 if box.phase else None ; set_phase stores it mod 2 *)
Definition export_phase (p : Q) : Q :=
  if Qeq_bool p 0 then 0%Q else qmod2 ((2 # 1) * p).

Definition cmul (a b : Q * Q) : Q * Q :=
  (Qred (fst a * fst b - snd a * snd b), Qred (fst a * snd b + snd a * fst b)).

Definition etype_of (h : bool) : Z := if h then 2 else 1.

(* graph under construction, and scan : list of (node, hadamard) *)
Record tst := T { t_vs : list vertex; t_es : list edge; t_scan : list (nat * bool); t_scal : Q * Q }.

(* one iteration of  for row, (box, offset) in enumerate(zip(self.boxes, self.offsets)) *)
Definition step_box (row : nat) (st : tst) (b : zxbox) (off : nat) : res tst :=
  let scan := t_scan st in
  match b with
  | BSpider k nin nout p =>
      let node := length (t_vs st) in
      let v := V node (match k with SZ => 1 | _ => 2 end) (export_phase p)
                 (Z.of_nat off) (Z.of_nat row + 1) in
      let legs := firstn nin (skipn off scan) in
      if Nat.ltb (length legs) nin then Err IndexError else
      Ok (T (t_vs st ++ [v])
            (t_es st ++ map (fun l : nat * bool => (fst l, node, etype_of (snd l))) legs)
            (firstn off scan ++ repeat (node, false) nout ++ skipn (off + nin) scan)
            (t_scal st))
  | BSwap =>
      match nth_error scan off, nth_error scan (S off) with
      | Some a, Some b' =>
          Ok (T (t_vs st) (t_es st) (firstn off scan ++ [b'; a] ++ skipn (off + 2) scan) (t_scal st))
      | _, _ => Err IndexError
      end
  | BScalar re im => Ok (T (t_vs st) (t_es st) scan (cmul (t_scal st) (re, im)))
  | BHad =>
      match nth_error scan off with
      | Some (n, h) =>
          Ok (T (t_vs st) (t_es st) (firstn off scan ++ [(n, negb h)] ++ skipn (S off) scan) (t_scal st))
      | None => Err IndexError
      end
  | BOther _ _ => Err TypeError
  end.

Fixpoint run_boxes (row : nat) (st : tst) (bs : list (zxbox * nat)) : res tst :=
  match bs with
  | [] => Ok st
  | (b, off) :: bs' => do st' <- step_box row st b off; run_boxes (S row) st' bs'
  end.

(* for i, _ in enumerate(self.cod): ... *)
Fixpoint add_outputs (rowz : Z) (i n : nat) (st : tst) (outs : list nat) : res (tst * list nat) :=
  match n with
  | O => Ok (st, outs)
  | S n' =>
      let target := length (t_vs st) in
      match nth_error (t_scan st) i with
      | None => Err IndexError
      | Some (s, h) =>
          add_outputs rowz (S i) n'
            (T (t_vs st ++ [V target 0 0 (Z.of_nat i) rowz]) (t_es st ++ [(s, target, etype_of h)])
               (t_scan st) (t_scal st))
            (outs ++ [target])
      end
  end.

Definition init_state (dom : nat) : tst :=
  T (map (fun i => V i 0 0 (Z.of_nat i) 0) (seq 0 dom)) []
    (map (fun i => (i, false)) (seq 0 dom)) (1%Q, 0%Q).

Definition to_pyzx (dom cod : nat) (bs : list (zxbox * nat)) : res graph :=
  do st <- run_boxes 0 (init_state dom) bs;
  do r <- add_outputs (Z.of_nat (length bs) + 1) 0 cod st [];
  let st' := fst r in
  Ok (G (t_vs st') (t_es st') (seq 0 dom) (snd r) (t_scal st')).

(* ------------------------------------------------------------------ from_pyzx *)
Definition zid (n : nat) : diagram := did (pro n).
Definition had_d : diagram := dbox (core_box BHad).

(* inner function `move`; nd is the value of the closure variable `node` *)
Definition move (nd : nat) (scan : list nat) (source target : nat) : res (list nat * diagram) :=
  let n := length scan in
  if Nat.ltb target source then
    do sw <- dswap (pro (source - target)) (pro 1);
    do a <- dtensor (zid target) sw;
    do swaps <- dtensor a (zid (n - source - 1));
    Ok (firstn target scan ++ [nd] ++ firstn (source - target) (skipn target scan)
          ++ skipn (S source) scan, swaps)
  else if Nat.ltb source target then
    do sw <- dswap (pro 1) (pro (target - source));
    do a <- dtensor (zid source) sw;
    do swaps <- dtensor a (zid (n - target - 1));
    Ok (firstn source scan ++ firstn (target - S source) (skipn (S source) scan) ++ [nd]
          ++ skipn target scan, swaps)
  else Ok (scan, zid n).

(* the loop of make_wires_adjacent.  fix_a = false: `move` sees the enclosing
   loop's `node` (the spider being built), as in the code (F15a) *)
Fixpoint mwa_loop (fix_a : bool) (node offset i : nat) (rest scan : list nat) (d : diagram)
  : res (list nat * diagram) :=
  match rest with
  | [] => Ok (scan, d)
  | v :: rest' =>
      match index_of v scan with
      | None => Err ValueError
      | Some source =>
          do r <- move (if fix_a then v else node) scan source (offset + i + 1);
          do d' <- dthen d (snd r);
          mwa_loop fix_a node offset (S i) rest' (fst r) d'
      end
  end.

Definition make_wires_adjacent (fix_a : bool) (node : nat) (scan : list nat) (d : diagram)
  (inputs : list nat) : res (list nat * diagram * nat) :=
  match inputs with
  | [] => Ok (scan, d, length scan)
  | v0 :: rest =>
      match index_of v0 scan with
      | None => Err ValueError
      | Some offset =>
          do r <- mwa_loop fix_a node offset 0 rest scan d;
          Ok (fst r, snd r, offset)
      end
  end.

(* inputs.sort(key=scan.index): all keys first (ValueError), then a stable sort *)
Fixpoint insert_by (k v : nat) (l : list (nat * nat)) : list (nat * nat) :=
  match l with
  | [] => [(k, v)]
  | (k', v') :: t => if Nat.ltb k k' then (k, v) :: l else (k', v') :: insert_by k v t
  end.
Definition sort_by_index (scan l : list nat) : res (list nat) :=
  do keyed <- mapM (fun v => match index_of v scan with
                             | Some k => Ok (k, v) | None => Err ValueError end) l;
  Ok (map snd (fold_left (fun acc kv => insert_by (fst kv) (snd kv) acc) keyed [])).

Definition node_inputs (g : graph) (node : nat) : list nat :=
  filter (fun v => (Nat.ltb v node && negb (mem v (gouts g))) || mem v (gins g)) (neighbors g node).
Definition node_outputs (g : graph) (node : nat) : list nat :=
  filter (fun v => (Nat.ltb node v && negb (mem v (gins g))) || mem v (gouts g)) (neighbors g node).

(* Id(0).tensor applied to the unpacked list of diagrams *)
Definition tensor_all (ds : list diagram) : res diagram :=
  fold_left (fun acc x => do a <- acc; dtensor a x) ds (Ok (zid 0)).

Definition node2box (g : graph) (node nin nout : nat) : res box :=
  let t := vtype g node in
  if negb ((t =? 1) || (t =? 2)) then Err NotImplementedError
  else Ok (core_box (BSpider (if t =? 1 then SZ else SX) nin nout
                       (Qred (vphase_of g node * (1 # 2))))).

(* body of  for node in [v for v in graph.vertices() if v not in inputs + outputs] *)
Definition spider_step (fix_a : bool) (g : graph) (st : list nat * diagram) (node : nat)
  : res (list nat * diagram) :=
  let '(scan, d) := st in
  do inputs <- sort_by_index scan (node_inputs g node);
  let outputs := node_outputs g node in
  do r <- make_wires_adjacent fix_a node scan d inputs;
  let '(scan1, d1, offset) := r in
  let nin := length inputs in
  do hs <- tensor_all (map (fun i => if edge_type g i node =? 2 then had_d else zid 1)
                           (firstn nin (skipn offset scan1)));
  do bx <- node2box g node nin (length outputs);
  do hb <- dthen hs (dbox bx);
  do t1 <- dtensor (zid offset) hb;
  do t2 <- dtensor t1 (zid (length (dcod d1) - offset - nin));
  do d2 <- dthen d1 t2;
  Ok (firstn offset scan1 ++ repeat node (length outputs) ++ skipn (offset + nin) scan1, d2).

Fixpoint spider_loop (fix_a : bool) (g : graph) (st : list nat * diagram) (nodes : list nat)
  : res (list nat * diagram) :=
  match nodes with
  | [] => Ok st
  | node :: nodes' => do st' <- spider_step fix_a g st node; spider_loop fix_a g st' nodes'
  end.

(* for target, output in enumerate(graph.outputs).  fix_b = false: scan.index(node)
   may return a leg that was already placed (F15b); true: scan.index(node, target) *)
Fixpoint out_loop (fix_b : bool) (g : graph) (target : nat) (outs scan : list nat) (d : diagram)
  : res diagram :=
  match outs with
  | [] => Ok d
  | o :: outs' =>
      match neighbors g o with
      | [node] =>
          let h := if edge_type g node o =? 2 then had_d else zid 1 in
          match (if fix_b then index_from target node scan else index_of node scan) with
          | None => Err ValueError
          | Some source =>
              do r <- move node scan source target;
              do d1 <- dthen d (snd r);
              do t1 <- dtensor (zid target) h;
              do t2 <- dtensor t1 (zid (length (fst r) - target - 1));
              do d2 <- dthen d1 t2;
              out_loop fix_b g (S target) outs' (fst r) d2
          end
      | _ => Err ValueError
      end
  end.

Definition spider_nodes (g : graph) : list nat :=
  filter (fun v => negb (mem v (gins g ++ gouts g))) (map vid (gverts g)).

Definition missing_boundary (g : graph) : bool :=
  existsb (fun v => (vty v =? 0) && negb (mem (vid v) (gins g ++ gouts g))) (gverts g).
Definition duplicate_boundary (g : graph) : bool :=
  existsb (fun v => mem v (gouts g)) (gins g).

Definition from_pyzx (fix_a fix_b : bool) (g : graph) : res diagram :=
  if missing_boundary g then Err ValueError else
  if duplicate_boundary g then Err ValueError else
  do st <- spider_loop fix_a g (gins g, zid (length (gins g))) (spider_nodes g);
  out_loop fix_b g 0 (gouts g) (fst st) (snd st).

(* the handshake identity that every closed graph satisfies; hypothesis of the
   arity theorem (returned by the runner so that the harness can check that the
   generated graphs do satisfy it) *)
Definition total_in (g : graph) : nat :=
  fold_right (fun v acc => (length (node_inputs g v) + acc)%nat) O (spider_nodes g).
Definition total_out (g : graph) : nat :=
  fold_right (fun v acc => (length (node_outputs g v) + acc)%nat) O (spider_nodes g).
Definition graph_balanced (g : graph) : bool :=
  Nat.eqb (length (gouts g) + total_in g) (length (gins g) + total_out g).
