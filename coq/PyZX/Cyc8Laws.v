(* The executable ring Cyc8 = Q[x]/(x^4+1) of ZXSem.v satisfies the laws that export
   soundness needs (PyZXSound.export_laws): it is a commutative semiring for
   c8_eqb with -1 and 1/sqrt 2, c8_exp is invariant under the phase normalisation
   of to_pyzx (for EVERY rational phase: off the 1/8 grid c8_exp rounds down, and
   rounding commutes with whole turns), and rcplx is multiplicative on the model's
   normalised scalar product.  Hence the general theorem applies to the executable
   semantics: graph_sem Cyc8 (to_pyzx d) = zx_sem Cyc8 d for every diagram in scope
   (ZXSemLemmas.to_pyzx_sound_partial checks 14 of them by computation), and the
   law set has a non-trivial model.

   Cyc8 does NOT satisfy the full ZXSem.ring_laws: rl_exp_add fails off the grid
   (c8_exp (1/16) * c8_exp (1/16) = 1 but c8_exp (1/8) = x). *)
From Coq Require Import List ZArith QArith Qround Bool Lia Setoid Morphisms.
Import ListNotations.
Require Import DV.Common.Base DV.PyZX.PyZX DV.PyZX.ZXSem DV.PyZX.KSum DV.PyZX.PyZXSound.
Local Open Scope Q_scope.

Definition c8_eq (a b : c8) : Prop :=
  let '(a0, a1, a2, a3) := a in let '(b0, b1, b2, b3) := b in
  a0 == b0 /\ a1 == b1 /\ a2 == b2 /\ a3 == b3.

Lemma c8_eqb_iff a b : c8_eqb a b = true <-> c8_eq a b.
Proof.
  destruct a as [[[a0 a1] a2] a3], b as [[[b0 b1] b2] b3]. unfold c8_eqb, c8_eq.
  rewrite !andb_true_iff, !Qeq_bool_iff. tauto.
Qed.

Ltac c8_start :=
  repeat match goal with
  | a : car Cyc8 |- _ => change (car Cyc8) with c8 in a
  | a : c8 |- _ => destruct a as [[[? ?] ?] ?]
  end;
  cbn [req Cyc8 radd rmul r0 r1 rneg1 risq2 rcplx] in *;
  repeat match goal with H : c8_eqb _ _ = true |- _ => apply c8_eqb_iff in H; cbn [c8_eq] in H end;
  apply c8_eqb_iff; cbn [c8_add c8_mul c8_eq]; rewrite ?Qred_correct.

Lemma cyc8_sring : sring_laws Cyc8.
Proof.
  constructor.
  - split.
    + intros a. c8_start. repeat split; reflexivity.
    + intros a b H. c8_start. destruct H as (H0 & H1 & H2 & H3). repeat split; symmetry; assumption.
    + intros a b c H H'. c8_start. destruct H as (H0 & H1 & H2 & H3), H' as (H0' & H1' & H2' & H3').
      repeat split; etransitivity; eassumption.
  - intros a a' b b' H H'. c8_start.
    destruct H as (H0 & H1 & H2 & H3), H' as (H0' & H1' & H2' & H3').
    rewrite H0, H1, H2, H3, H0', H1', H2', H3'. repeat split; reflexivity.
  - intros a a' b b' H H'. c8_start.
    destruct H as (H0 & H1 & H2 & H3), H' as (H0' & H1' & H2' & H3').
    rewrite H0, H1, H2, H3, H0', H1', H2', H3'. repeat split; reflexivity.
  - intros a. c8_start. repeat split; ring.
  - intros a b. c8_start. repeat split; ring.
  - intros a b c. c8_start. repeat split; ring.
  - intros a. c8_start. repeat split; ring.
  - intros a. c8_start. repeat split; ring.
  - intros a b. c8_start. repeat split; ring.
  - intros a b c. c8_start. repeat split; ring.
  - intros a b c. c8_start. repeat split; ring.
  - vm_compute. reflexivity.
  - vm_compute. reflexivity.
Qed.

(* ------------------------------------------------------------------ phases *)
Lemma Qfloor_add_Z x k : Qfloor (x + inject_Z k) = (Qfloor x + k)%Z.
Proof.
  destruct x as [n d]. unfold Qplus, inject_Z, Qfloor. cbn [Qnum Qden].
  rewrite Z.mul_1_r, Pos.mul_1_r. apply Z_div_plus_full. discriminate.
Qed.

Lemma c8_exp_floor a : c8_exp a = c8_x (Qfloor (a * (8 # 1))).
Proof.
  unfold c8_exp. f_equal.
  transitivity (Qfloor (Qred (a * (8 # 1)))).
  - destruct (Qred (a * (8 # 1))). reflexivity.
  - apply Qfloor_comp, Qred_correct.
Qed.

Lemma c8_x_mod k k' : (k mod 8 = k' mod 8)%Z -> c8_x k = c8_x k'.
Proof. intros H. unfold c8_x. rewrite H. reflexivity. Qed.

Lemma c8_exp_export p : c8_exp (export_phase p * (1 # 2)) = c8_exp p.
Proof.
  rewrite !c8_exp_floor. unfold export_phase. destruct (Qeq_bool p 0) eqn:E.
  - apply Qeq_bool_eq in E. f_equal. apply Qfloor_comp. rewrite E. reflexivity.
  - apply c8_x_mod. unfold qmod2.
    set (z := Qfloor ((2 # 1) * p / (2 # 1))).
    assert (Hq : Qred ((2 # 1) * p - inject_Z (2 * z)) * (1 # 2) * (8 # 1)
                 == p * (8 # 1) + inject_Z (- z * 8)).
    { rewrite Qred_correct, !inject_Z_mult, inject_Z_opp.
      change (inject_Z 2) with (2 # 1). change (inject_Z 8) with (8 # 1). field. }
    rewrite (Qfloor_comp _ _ Hq), Qfloor_add_Z. apply Z_mod_plus_full.
Qed.

Lemma c8_eqb_refl a : c8_eqb a a = true.
Proof. apply c8_eqb_iff. destruct a as [[[? ?] ?] ?]. cbn. repeat split; reflexivity. Qed.

Theorem cyc8_export_laws : export_laws Cyc8.
Proof.
  constructor.
  - exact cyc8_sring.
  - intros p. cbn [req rexp Cyc8]. rewrite c8_exp_export. apply c8_eqb_refl.
  - vm_compute. reflexivity.
  - intros [a b] [c d]. cbn [req rcplx rmul Cyc8 fst snd cmul]. apply c8_eqb_iff.
    cbn [c8_mul c8_eq]. rewrite !Qred_correct. repeat split; ring.
Qed.

Lemma cyc8_nontrivial : ~ req Cyc8 (r1 Cyc8) (r0 Cyc8).
Proof. vm_compute. discriminate. Qed.

(* the executable semantics: every diagram in scope, not only the listed instances *)
Theorem to_pyzx_sound_cyc8 : forall dom cod bs g,
  zx_typed dom bs cod -> to_pyzx dom cod bs = Ok g ->
  forall i o, length i = dom -> length o = cod ->
    c8_eqb (graph_sem Cyc8 g i o) (zx_sem Cyc8 dom bs i o) = true.
Proof. exact (to_pyzx_sound_export Cyc8 cyc8_export_laws). Qed.

(* why the weaker law set: Cyc8 is not a model of ring_laws *)
Lemma cyc8_not_ring_laws : ~ ring_laws Cyc8.
Proof.
  intros H. pose proof (rl_exp_add Cyc8 H (1 # 16) (1 # 16)) as E. vm_compute in E. discriminate.
Qed.
