(* Export soundness of zx.Diagram.to_pyzx in general (property C17):

     graph_sem (to_pyzx d) = zx_sem d      every matrix entry, every well-typed
                                           diagram (Z / X spiders of any arity and
                                           phase, H, SWAP, scalars), every ring

   with graph_sem / zx_sem exactly as defined in ZXSem.v (no re-definition), i.e.
   the statement ZXSem.to_pyzx_sound_stmt.  Three closed forms at the end:

     to_pyzx_sound_export       under [export_laws K], the laws the proof uses
                                (Cyc8 is a model: Cyc8Laws.v)
     to_pyzx_sound              under ZXSem.ring_laws K + [cplx_proper K], one law
                                that ring_laws lacks (rcplx respects Qeq; needed
                                because the model's scalar product [cmul] normalises
                                its fractions with Qred)
     to_pyzx_sound_scalar_free  under ZXSem.ring_laws K alone, for diagrams without
                                scalar boxes

   The hypothesis graph_simple g = true of to_pyzx_sound_stmt is not needed.

   Method (contraction-order independence, proved once).  A state of the export
   loop (vertices vs, edges es, frontier scan, scalar) denotes the row vector

       Sval st i m  =  sum_fl  Aval (fl) * fval scan fl m

   where  Aval fl  is the sum over the labellings of the internal edges of the
   product of the edge and vertex tensors, the frontier wire j contributing the
   leg fl_j to its vertex, and  fval scan fl m  = prod_j edge_val (flag_j) fl_j m_j
   is the tensor product of the identity / Hadamard matrices of the frontier
   wires.  [frame] reduces  S' = S . (Id (x) box (x) Id)  to a local condition on
   the window of the box; the four box kinds discharge it (Hadamard: H.H = Id;
   swap: permutation of two legs of a vertex tensor; scalar; spider: the
   one-vertex extension [Aval_spider], which splits the labelling sum over the new
   edges).  [run_sound] is the loop invariant, [init_sound] the initial state,
   [graph_sem_final] the last loop (output boundaries). *)
From Coq Require Import List ZArith QArith Qround Bool Arith Lia Setoid Morphisms Ring Permutation.
Import ListNotations.
Require Import DV.Common.Base DV.PyZX.PyZX DV.PyZX.PyZXLemmas DV.PyZX.ZXSem DV.PyZX.KSum.
Local Open Scope nat_scope.

(* the law missing from ring_laws *)
Definition cplx_proper (K : ringops) : Prop :=
  forall a a' b b', Qeq a a' -> Qeq b b' -> req K (rcplx K a b) (rcplx K a' b').

(* ================================================================== lists *)
Lemma firstn_app_l {A} (a b : list A) n : length a = n -> firstn n (a ++ b) = a.
Proof. intros <-. rewrite firstn_app, Nat.sub_diag, firstn_all. cbn. apply app_nil_r. Qed.
Lemma skipn_app_l {A} (a b : list A) n : length a = n -> skipn n (a ++ b) = b.
Proof. intros <-. rewrite skipn_app, Nat.sub_diag, skipn_all. reflexivity. Qed.
Lemma skipn_app3 {A} (a b c : list A) n k :
  length a = n -> length b = k -> skipn (n + k) (a ++ b ++ c) = c.
Proof.
  intros Ha Hb. rewrite app_assoc. apply skipn_app_l. rewrite app_length. lia.
Qed.

Lemma split3 {A} (l : list A) off k : off + k <= length l ->
  exists pre win post, l = pre ++ win ++ post /\ length pre = off /\ length win = k.
Proof.
  intros H. exists (firstn off l), (firstn k (skipn off l)), (skipn k (skipn off l)).
  split; [|split].
  - now rewrite !firstn_skipn.
  - rewrite firstn_length. lia.
  - rewrite firstn_length, skipn_length. lia.
Qed.

(* ================================================================== the ring *)
Section Sound.
Context {K : ringops} {HL : sring_laws K}.

Notation "x == y" := (req K x y) (at level 70, no associativity) : K_scope.
Notation "x + y" := (radd K x y) : K_scope.
Notation "x * y" := (rmul K x y) : K_scope.
Notation "0" := (r0 K) : K_scope.
Notation "1" := (r1 K) : K_scope.
Local Open Scope K_scope.

Add Ring Kring : (@K_srt K HL) (setoid (@req_equiv K HL) (@K_ext K HL)).

(* what the export needs beyond the semiring: the phase stored in the graph (units
   of pi, mod 2) denotes the phase of the box; rcplx 1 0 = 1; and, when the diagram
   contains scalar boxes (P), rcplx is multiplicative on the model's normalised
   product.  All three follow from ring_laws + cplx_proper (Section Laws below). *)
Hypothesis Hexp : forall p, rexp K (export_phase p * (1 # 2))%Q == rexp K p.
Hypothesis Hc1 : rcplx K 1%Q 0%Q == 1.
Variable P : Prop.
Hypothesis Hcmul : P -> forall a b,
  rcplx K (fst (cmul a b)) (snd (cmul a b)) == rcplx K (fst a) (snd a) * rcplx K (fst b) (snd b).

Notation s2 := (risq2 K).
Notation m1 := (rneg1 K).

Lemma isq2_two : s2 * s2 + s2 * s2 == 1.
Proof. rewrite <- (sl_isq2 K HL). ring. Qed.

Lemma one_neg1 : 1 + m1 == 0.
Proof. apply (sl_neg1 K HL). Qed.

(* H . H = Id *)
Lemma had_had a b :
  had_val K a false * had_val K false b + had_val K a true * had_val K true b
  == delta K (Bool.eqb a b).
Proof.
  destruct a, b; cbn.
  - transitivity ((s2 * s2) * (1 + m1 * m1)); [ring|].
    rewrite neg1_sq. transitivity (s2 * s2 + s2 * s2); [ring|apply isq2_two].
  - transitivity ((s2 * s2) * (1 + m1)); [ring|]. rewrite one_neg1. ring.
  - transitivity ((s2 * s2) * (1 + m1)); [ring|]. rewrite one_neg1. ring.
  - apply isq2_two.
Qed.

(* a frontier wire followed by a Hadamard box: the flag flips *)
Lemma edge_had h a b :
  edge_val K (etype_of h) a false * had_val K false b
  + edge_val K (etype_of h) a true * had_val K true b
  == edge_val K (etype_of (negb h)) a b.
Proof.
  destruct h; cbn [etype_of negb]; unfold edge_val; cbn [Z.eqb Pos.eqb].
  - apply had_had.
  - destruct a; cbn; ring.
Qed.

Lemma spider_val_phase isx p q legs :
  rexp K p == rexp K q -> spider_val K isx p legs == spider_val K isx q legs.
Proof.
  intros H. unfold spider_val. destruct isx.
  - destruct (parity legs); rewrite H; reflexivity.
  - destruct (all_eq true legs); [rewrite H|]; reflexivity.
Qed.

(* ================================================================== the open network *)
(* vertex tensors: the first dom vertices are the input boundaries *)
Definition vv (dom : nat) (i : list bool) (v : vertex) (legs : list bool) : car K :=
  if Nat.ltb (vid v) dom then delta K (all_eq (nth (vid v) i false) legs)
  else if Z.eqb (vty v) 1 then spider_val K false (vphase v * (1 # 2)) legs
  else if Z.eqb (vty v) 2 then spider_val K true (vphase v * (1 # 2)) legs
  else 0.

Lemma all_eq_perm b l l' : Permutation l l' -> all_eq b l = all_eq b l'.
Proof.
  unfold all_eq. induction 1 as [|x l l' _ IH|x y l|l l' l'' _ IH1 _ IH2]; cbn.
  - reflexivity.
  - now rewrite IH.
  - rewrite !andb_assoc. f_equal. apply andb_comm.
  - now rewrite IH1.
Qed.

Lemma parity_perm l l' : Permutation l l' -> parity l = parity l'.
Proof.
  unfold parity. induction 1 as [|x l l' _ IH|x y l|l l' l'' _ IH1 _ IH2]; cbn.
  - reflexivity.
  - now rewrite IH.
  - rewrite <- !xorb_assoc. f_equal. apply xorb_comm.
  - now rewrite IH1.
Qed.

Lemma spider_val_perm isx p l l' : Permutation l l' -> spider_val K isx p l = spider_val K isx p l'.
Proof.
  intros H. unfold spider_val.
  rewrite (Permutation_length H), (parity_perm _ _ H), (all_eq_perm false _ _ H), (all_eq_perm true _ _ H).
  reflexivity.
Qed.

Lemma vv_perm dom i v l l' : Permutation l l' -> vv dom i v l = vv dom i v l'.
Proof.
  intros H. unfold vv.
  rewrite (all_eq_perm _ _ _ H), (spider_val_perm false _ _ _ H), (spider_val_perm true _ _ _ H).
  reflexivity.
Qed.

(* tensor product of the matrices of the frontier wires *)
Fixpoint fval (scan : list (nat * bool)) (fl m : list bool) : car K :=
  match scan with
  | [] => 1
  | (_, h) :: scan' => edge_val K (etype_of h) (hd false fl) (hd false m) * fval scan' (tl fl) (tl m)
  end.

(* the legs that the frontier gives to vertex v *)
Fixpoint flegs (v : nat) (nodes : list nat) (fl : list bool) : list bool :=
  match nodes, fl with
  | n :: nodes', x :: fl' => (if Nat.eqb n v then [x] else []) ++ flegs v nodes' fl'
  | _, _ => []
  end.

Definition vprod dom i (vs : list vertex) (es : list edge) (nodes : list nat) (lab fl : list bool) : car K :=
  rprod K (map (fun v => vv dom i v (legs_of (vid v) es lab ++ flegs (vid v) nodes fl)) vs).

Definition Aval dom i vs es nodes (fl : list bool) : car K :=
  bsum (2 * length es) (fun lab => edges_val K es lab * vprod dom i vs es nodes lab fl).

Definition Sval dom i (st : tst) (m : list bool) : car K :=
  bsum (length (t_scan st))
    (fun fl => Aval dom i (t_vs st) (t_es st) (map fst (t_scan st)) fl * fval (t_scan st) fl m).

Lemma fval_app sa : forall sb fa fb ma mb, length fa = length sa -> length ma = length sa ->
  fval (sa ++ sb) (fa ++ fb) (ma ++ mb) == fval sa fa ma * fval sb fb mb.
Proof.
  induction sa as [|[n h] sa IH]; intros sb fa fb ma mb Hf Hm.
  - destruct fa; [|discriminate]. destruct ma; [|discriminate]. cbn. ring.
  - destruct fa as [|x fa]; [discriminate|]. destruct ma as [|y ma]; [discriminate|].
    cbn [app fval hd tl]. rewrite IH by (cbn in *; lia). ring.
Qed.

Lemma fval_app3 sa sb sc fa fb fc ma mb mc :
  length fa = length sa -> length ma = length sa ->
  length fb = length sb -> length mb = length sb ->
  fval (sa ++ sb ++ sc) (fa ++ fb ++ fc) (ma ++ mb ++ mc)
  == fval sa fa ma * (fval sb fb mb * fval sc fc mc).
Proof. intros. rewrite fval_app by assumption. rewrite fval_app by assumption. reflexivity. Qed.

Lemma flegs_app v na : forall nb fa fb, length fa = length na ->
  flegs v (na ++ nb) (fa ++ fb) = flegs v na fa ++ flegs v nb fb.
Proof.
  induction na as [|n na IH]; intros nb fa fb Hf.
  - destruct fa; [reflexivity|discriminate].
  - destruct fa as [|x fa]; [discriminate|]. cbn [app flegs]. rewrite IH by (cbn in *; lia).
    now rewrite app_assoc.
Qed.

Lemma flegs_none v nodes : forall fl, (forall x, In x nodes -> x <> v) -> flegs v nodes fl = [].
Proof.
  induction nodes as [|n nodes IH]; intros fl H; [reflexivity|].
  destruct fl as [|x fl]; [reflexivity|]. cbn [flegs].
  destruct (Nat.eqb_spec n v) as [E|E]; [exfalso; apply (H n); [now left|exact E]|].
  cbn. apply IH. intros y Hy. apply H. now right.
Qed.

Lemma flegs_self n k : forall ys, length ys = k -> flegs n (repeat n k) ys = ys.
Proof.
  induction k as [|k IH]; intros ys Hy.
  - destruct ys; [reflexivity|discriminate].
  - destruct ys as [|y ys]; [discriminate|]. cbn [repeat flegs]. rewrite Nat.eqb_refl.
    cbn. f_equal. apply IH. cbn in Hy. lia.
Qed.

(* ================================================================== the frame lemma *)
Definition lay (off k k' : nat) (B : list bool -> list bool -> car K) (m m' : list bool) : car K :=
  delta K (bits_eqb (firstn off m) (firstn off m'))
  * (B (firstn k (skipn off m)) (firstn k' (skipn off m'))
     * delta K (bits_eqb (skipn (off + k) m) (skipn (off + k') m'))).

Lemma layer_val_lay b off m m' :
  layer_val K b off m m' = lay off (zdom b) (zcod b) (box_val K b) m m'.
Proof. reflexivity. Qed.

Lemma bsum_app3 n1 n2 n3 (f : list bool -> car K) :
  bsum (n1 + (n2 + n3)) f
  == bsum n1 (fun a => bsum n2 (fun b => bsum n3 (fun c => f (a ++ b ++ c)))).
Proof.
  rewrite bsum_app. apply bsum_ext. intros a _. rewrite bsum_app. reflexivity.
Qed.

(* the frontier matrix followed by a layer: only the window is touched *)
Lemma fval_lay pre win post (B : list bool -> list bool -> car K) f1 f2 f3 m1' m2' m3' k' :
  length f1 = length pre -> length f2 = length win -> length f3 = length post ->
  length m1' = length pre -> length m2' = k' -> length m3' = length post ->
  bsum (length pre + (length win + length post))
    (fun m => fval (pre ++ win ++ post) (f1 ++ f2 ++ f3) m
              * lay (length pre) (length win) k' B m (m1' ++ m2' ++ m3'))
  == fval pre f1 m1'
     * (bsum (length win) (fun m2 => fval win f2 m2 * B m2 m2') * fval post f3 m3').
Proof.
  intros Hf1 Hf2 Hf3 Hm1 Hm2 Hm3.
  rewrite bsum_app3.
  transitivity (bsum (length pre) (fun a => bsum (length win) (fun b => bsum (length post) (fun c =>
     (fval pre f1 a * delta K (bits_eqb a m1'))
     * ((fval win f2 b * B b m2') * (fval post f3 c * delta K (bits_eqb c m3'))))))).
  - apply bsum_ext. intros a Ha. apply bsum_ext. intros b Hb. apply bsum_ext. intros c Hc.
    rewrite fval_app3 by lia. unfold lay.
    rewrite !firstn_app_l by assumption.
    rewrite !skipn_app_l by assumption.
    rewrite !firstn_app_l by assumption.
    rewrite !skipn_app3 by assumption.
    ring.
  - transitivity (bsum (length pre) (fun a => (fval pre f1 a * delta K (bits_eqb a m1'))
       * (bsum (length win) (fun b => fval win f2 b * B b m2')
          * bsum (length post) (fun c => fval post f3 c * delta K (bits_eqb c m3'))))).
    + apply bsum_ext. intros a _. rewrite <- bsum_prod. rewrite <- bsum_scale_l.
      apply bsum_ext. intros b _. rewrite <- bsum_scale_l. reflexivity.
    + rewrite bsum_scale_r. rewrite !bsum_delta_r by assumption. reflexivity.
Qed.

Lemma frame pre win win' post (A A' : list bool -> car K) (B : list bool -> list bool -> car K) m' :
  length m' = (length pre + (length win' + length post))%nat ->
  (forall f1 f3, length f1 = length pre -> length f3 = length post ->
     bsum (length win') (fun f2 => A' (f1 ++ f2 ++ f3)
                                  * fval win' f2 (firstn (length win') (skipn (length pre) m')))
     == bsum (length win) (fun f2 => A (f1 ++ f2 ++ f3)
          * bsum (length win) (fun m2 => fval win f2 m2
                                 * B m2 (firstn (length win') (skipn (length pre) m'))))) ->
  bsum (length pre + (length win' + length post))
    (fun fl => A' fl * fval (pre ++ win' ++ post) fl m')
  == bsum (length pre + (length win + length post))
       (fun m => bsum (length pre + (length win + length post))
                   (fun fl => A fl * fval (pre ++ win ++ post) fl m)
                 * lay (length pre) (length win) (length win') B m m').
Proof.
  intros Hm' LC.
  set (m1' := firstn (length pre) m').
  set (m2' := firstn (length win') (skipn (length pre) m')) in *.
  set (m3' := skipn (length win') (skipn (length pre) m')).
  assert (E : m' = m1' ++ m2' ++ m3') by (unfold m1', m2', m3'; now rewrite !firstn_skipn).
  assert (Hm1 : length m1' = length pre) by (unfold m1'; rewrite firstn_length; lia).
  assert (Hm2 : length m2' = length win') by (unfold m2'; rewrite firstn_length, skipn_length; lia).
  assert (Hm3 : length m3' = length post) by (unfold m3'; rewrite !skipn_length; lia).
  clearbody m1' m2' m3'. subst m'. clear Hm'.
  (* right-hand side: exchange the sums, then fval_lay *)
  transitivity (bsum (length pre) (fun f1 => bsum (length post) (fun f3 =>
     bsum (length win) (fun f2 => A (f1 ++ f2 ++ f3)
        * bsum (length win) (fun m2 => fval win f2 m2 * B m2 m2'))
     * (fval pre f1 m1' * fval post f3 m3')))).
  - rewrite bsum_app3. apply bsum_ext. intros f1 Hf1. rewrite bsum_swap.
    apply bsum_ext. intros f3 Hf3. rewrite <- LC by assumption.
    rewrite <- bsum_scale_r. apply bsum_ext. intros f2 Hf2.
    rewrite fval_app3 by lia. ring.
  - symmetry.
    transitivity (bsum (length pre + (length win + length post)) (fun fl =>
       A fl * bsum (length pre + (length win + length post)) (fun m =>
          fval (pre ++ win ++ post) fl m
          * lay (length pre) (length win) (length win') B m (m1' ++ m2' ++ m3')))).
    + transitivity (bsum (length pre + (length win + length post)) (fun m =>
         bsum (length pre + (length win + length post)) (fun fl =>
           A fl * (fval (pre ++ win ++ post) fl m
                   * lay (length pre) (length win) (length win') B m (m1' ++ m2' ++ m3'))))).
      * apply bsum_ext. intros m _. rewrite <- bsum_scale_r. apply bsum_ext. intros fl _. ring.
      * rewrite bsum_swap. apply bsum_ext. intros fl _. rewrite bsum_scale_l. reflexivity.
    + rewrite bsum_app3. apply bsum_ext. intros f1 Hf1. rewrite bsum_swap.
      apply bsum_ext. intros f3 Hf3. rewrite <- bsum_scale_r. apply bsum_ext. intros f2 Hf2.
      rewrite fval_lay by assumption. ring.
Qed.

(* ================================================================== edges *)
Lemma legs_of_app v es1 : forall es2 lab1 lab2, length lab1 = (2 * length es1)%nat ->
  legs_of v (es1 ++ es2) (lab1 ++ lab2) = legs_of v es1 lab1 ++ legs_of v es2 lab2.
Proof.
  induction es1 as [|[[a b] t] es1 IH]; intros es2 lab1 lab2 Hl.
  - destruct lab1; [reflexivity|discriminate].
  - destruct lab1 as [|x [|y lab1]]; cbn [length] in Hl; try lia.
    cbn [app legs_of]. rewrite IH by lia. now rewrite <- !app_assoc.
Qed.

Lemma edges_val_app es1 : forall es2 lab1 lab2, length lab1 = (2 * length es1)%nat ->
  edges_val K (es1 ++ es2) (lab1 ++ lab2) == edges_val K es1 lab1 * edges_val K es2 lab2.
Proof.
  induction es1 as [|[[a b] t] es1 IH]; intros es2 lab1 lab2 Hl.
  - destruct lab1; [|discriminate]. cbn [app edges_val].
    destruct es2 as [|[[a b] t] es2]; ring.
  - destruct lab1 as [|x [|y lab1]]; cbn [length] in Hl; try lia.
    cbn [app edges_val]. rewrite IH by lia. ring.
Qed.

Lemma legs_of_fresh v es : forall lab,
  (forall e, In e es -> fst (fst e) <> v /\ snd (fst e) <> v) -> legs_of v es lab = [].
Proof.
  induction es as [|[[a b] t] es IH]; intros lab H; [reflexivity|].
  destruct lab as [|x [|y lab]]; try reflexivity. cbn [legs_of].
  destruct (H (a, b, t) (or_introl eq_refl)) as [Ha Hb]. cbn [fst snd] in Ha, Hb.
  destruct (Nat.eqb_spec a v); [contradiction|]. destruct (Nat.eqb_spec b v); [contradiction|].
  cbn. apply IH. intros e He. apply H. now right.
Qed.

Lemma legs_of_new n es lab : edges_ok n es -> legs_of n es lab = [].
Proof.
  intros HE. apply legs_of_fresh. intros e He. unfold edges_ok in HE. rewrite Forall_forall in HE.
  destruct (HE e He) as [H _]. lia.
Qed.

(* the edges that join the frontier wires win to the targets tg *)
Fixpoint mk_edges (win : list (nat * bool)) (tg : list nat) : list edge :=
  match win, tg with
  | (a, h) :: win', t :: tg' => (a, t, etype_of h) :: mk_edges win' tg'
  | _, _ => []
  end.

Lemma mk_edges_length win : forall tg, length tg = length win -> length (mk_edges win tg) = length win.
Proof.
  induction win as [|[a h] win IH]; intros tg H; [reflexivity|].
  destruct tg as [|t tg]; [discriminate|]. cbn. f_equal. apply IH. cbn in H. lia.
Qed.

Lemma mk_edges_repeat n win :
  map (fun l : nat * bool => (fst l, n, etype_of (snd l))) win = mk_edges win (repeat n (length win)).
Proof. induction win as [|[a h] win IH]; [reflexivity|]. cbn. now rewrite IH. Qed.

Lemma edges_val_mk win : forall tg lab, length tg = length win -> length lab = (2 * length win)%nat ->
  edges_val K (mk_edges win tg) lab = fval win (evens lab) (odds lab).
Proof.
  induction win as [|[a h] win IH]; intros tg lab Ht Hl; [reflexivity|].
  destruct tg as [|t tg]; [discriminate|].
  destruct lab as [|x [|y lab]]; cbn [length] in Hl; try lia.
  cbn [mk_edges edges_val evens odds fval hd tl]. rewrite IH; [reflexivity|cbn in Ht; lia|lia].
Qed.

Lemma legs_of_mk_src v win : forall tg lab, length tg = length win -> length lab = (2 * length win)%nat ->
  (forall t, In t tg -> t <> v) ->
  legs_of v (mk_edges win tg) lab = flegs v (map fst win) (evens lab).
Proof.
  induction win as [|[a h] win IH]; intros tg lab Ht Hl Hn; [reflexivity|].
  destruct tg as [|t tg]; [discriminate|].
  destruct lab as [|x [|y lab]]; cbn [length] in Hl; try lia.
  cbn [mk_edges legs_of evens map fst flegs].
  destruct (Nat.eqb_spec t v) as [E|E]; [exfalso; apply (Hn t); [now left|exact E]|].
  cbn [app]. f_equal. apply IH; [cbn in Ht; lia|lia|].
  intros t' Ht'. apply Hn. now right.
Qed.

Lemma legs_of_mk_tgt v win : forall tg lab, length tg = length win -> length lab = (2 * length win)%nat ->
  (forall w, In w win -> fst w <> v) ->
  legs_of v (mk_edges win tg) lab = flegs v tg (odds lab).
Proof.
  induction win as [|[a h] win IH]; intros tg lab Ht Hl Hn.
  - destruct tg; [reflexivity|discriminate].
  - destruct tg as [|t tg]; [discriminate|].
    destruct lab as [|x [|y lab]]; cbn [length] in Hl; try lia.
    cbn [mk_edges legs_of odds flegs].
    destruct (Nat.eqb_spec a v) as [E|E]; [exfalso; apply (Hn (a, h)); [now left|exact E]|].
    cbn [app]. f_equal. apply IH; [cbn in Ht; lia|lia|].
    intros w Hw. apply Hn. now right.
Qed.

Lemma ids_ok_lt vs v : ids_ok vs -> In v vs -> vid v < length vs.
Proof.
  intros HI Hv. assert (H : In (vid v) (map vid vs)) by (apply in_map; exact Hv).
  rewrite HI in H. apply in_seq in H. lia.
Qed.

Lemma scan_ok_nodes n sc x : scan_ok n sc -> In x (map fst sc) -> x < n.
Proof.
  intros HS Hx. apply in_map_iff in Hx. destruct Hx as (w & <- & Hw).
  unfold scan_ok in HS. rewrite Forall_forall in HS. apply HS. exact Hw.
Qed.

Lemma map_fst_repeat (n : nat) (h : bool) k : map fst (repeat (n, h) k) = repeat n k.
Proof. induction k; cbn; congruence. Qed.

(* ------------------------------------------------------------------ one-vertex extension *)
(* the graph grown by one spider whose input legs are the frontier wires win:
   the labelling sum over the new edges splits off *)
Lemma Aval_spider dom i vs es pre win post vn nout f1 fm f3 :
  ids_ok vs -> edges_ok (length vs) es ->
  scan_ok (length vs) pre -> scan_ok (length vs) win -> scan_ok (length vs) post ->
  vid vn = length vs ->
  length f1 = length pre -> length fm = nout ->
  Aval dom i (vs ++ [vn]) (es ++ mk_edges win (repeat (length vs) (length win)))
       (map fst (pre ++ repeat (length vs, false) nout ++ post)) (f1 ++ fm ++ f3)
  == bsum (length win) (fun xs =>
       Aval dom i vs es (map fst (pre ++ win ++ post)) (f1 ++ xs ++ f3)
       * bsum (length win) (fun ys => fval win xs ys * vv dom i vn (ys ++ fm))).
Proof.
  intros HI HE Hpre Hwin Hpost Hvn Hf1 Hfm.
  set (n := length vs) in *.
  unfold Aval. rewrite app_length, mk_edges_length by apply repeat_length.
  replace (2 * (length es + length win))%nat with (2 * length es + 2 * length win)%nat by lia.
  rewrite bsum_app.
  transitivity (bsum (2 * length es) (fun lab => bsum (2 * length win) (fun lab2 =>
     (fun xs ys => edges_val K es lab * fval win xs ys
        * (vprod dom i vs es (map fst (pre ++ win ++ post)) lab (f1 ++ xs ++ f3)
           * vv dom i vn (ys ++ fm))) (evens lab2) (odds lab2)))).
  - apply bsum_ext. intros lab Hlab. apply bsum_ext. intros lab2 Hlab2. cbv beta.
    rewrite edges_val_app by assumption.
    rewrite edges_val_mk by (try apply repeat_length; assumption).
    unfold vprod. rewrite map_app, rprod_app. cbn [map]. rewrite rprod_cons, rprod_nil.
    assert (Hev : length (evens lab2) = length win) by (apply evens_length; exact Hlab2).
    assert (Hod : length (odds lab2) = length win) by (apply odds_length; exact Hlab2).
    (* the new vertex *)
    assert (Evn : legs_of (vid vn) (es ++ mk_edges win (repeat n (length win))) (lab ++ lab2)
                  ++ flegs (vid vn) (map fst (pre ++ repeat (n, false) nout ++ post)) (f1 ++ fm ++ f3)
                  = odds lab2 ++ fm).
    { rewrite Hvn, legs_of_app by assumption. rewrite legs_of_new by exact HE.
      rewrite legs_of_mk_tgt; [|apply repeat_length|exact Hlab2|].
      - rewrite flegs_self by exact Hod. cbn [app].
        rewrite !map_app, map_fst_repeat.
        rewrite flegs_app by (rewrite map_length; exact Hf1).
        rewrite flegs_app by (rewrite repeat_length; exact Hfm).
        rewrite flegs_self by exact Hfm.
        rewrite (flegs_none n (map fst pre)), (flegs_none n (map fst post)).
        + cbn [app]. now rewrite app_nil_r.
        + intros x Hx. pose proof (scan_ok_nodes _ _ _ Hpost Hx). lia.
        + intros x Hx. pose proof (scan_ok_nodes _ _ _ Hpre Hx). lia.
      - intros w Hw. unfold scan_ok in Hwin. rewrite Forall_forall in Hwin.
        pose proof (Hwin w Hw). lia. }
    rewrite Evn.
    (* the old vertices *)
    rewrite (rprod_map_ext
      (fun v => vv dom i v (legs_of (vid v) (es ++ mk_edges win (repeat n (length win))) (lab ++ lab2)
                  ++ flegs (vid v) (map fst (pre ++ repeat (n, false) nout ++ post)) (f1 ++ fm ++ f3)))
      (fun v => vv dom i v (legs_of (vid v) es lab
                  ++ flegs (vid v) (map fst (pre ++ win ++ post)) (f1 ++ evens lab2 ++ f3)))).
    + ring.
    + intros v Hv. pose proof (ids_ok_lt _ _ HI Hv) as Hlt. fold n in Hlt.
      rewrite (vv_perm dom i v _ (legs_of (vid v) es lab
                  ++ flegs (vid v) (map fst (pre ++ win ++ post)) (f1 ++ evens lab2 ++ f3)));
        [reflexivity|].
      rewrite legs_of_app by assumption.
      rewrite legs_of_mk_src; [|apply repeat_length|exact Hlab2|].
      * rewrite !map_app, map_fst_repeat.
        rewrite !flegs_app by (rewrite ?map_length, ?repeat_length; congruence).
        rewrite (flegs_none (vid v) (repeat n nout)).
        -- cbn [app]. rewrite <- app_assoc. apply Permutation_app_head.
           rewrite !app_assoc. apply Permutation_app_tail. apply Permutation_app_comm.
        -- intros x Hx. apply repeat_spec in Hx. lia.
      * intros t Ht. apply repeat_spec in Ht. lia.
  - transitivity (bsum (2 * length es) (fun lab => bsum (length win) (fun xs => bsum (length win) (fun ys =>
       edges_val K es lab * fval win xs ys
        * (vprod dom i vs es (map fst (pre ++ win ++ post)) lab (f1 ++ xs ++ f3)
           * vv dom i vn (ys ++ fm)))))).
    + apply bsum_ext. intros lab _.
      apply (bsum_pairs (length win) (fun xs ys => edges_val K es lab * fval win xs ys
        * (vprod dom i vs es (map fst (pre ++ win ++ post)) lab (f1 ++ xs ++ f3)
           * vv dom i vn (ys ++ fm)))).
    + rewrite bsum_swap. apply bsum_ext. intros xs _. rewrite <- bsum_prod.
      apply bsum_ext. intros lab _. apply bsum_ext. intros ys _. ring.
Qed.

(* ================================================================== the four steps *)
Lemma frame_n pre win win' post (A A' : list bool -> car K) (B : list bool -> list bool -> car K) m'
  n1 n2 n2' n3 :
  length pre = n1 -> length win = n2 -> length win' = n2' -> length post = n3 ->
  length m' = (n1 + (n2' + n3))%nat ->
  (forall f1 f3, length f1 = n1 -> length f3 = n3 ->
     bsum n2' (fun f2 => A' (f1 ++ f2 ++ f3) * fval win' f2 (firstn n2' (skipn n1 m')))
     == bsum n2 (fun f2 => A (f1 ++ f2 ++ f3)
          * bsum n2 (fun m2 => fval win f2 m2 * B m2 (firstn n2' (skipn n1 m'))))) ->
  bsum (n1 + (n2' + n3)) (fun fl => A' fl * fval (pre ++ win' ++ post) fl m')
  == bsum (n1 + (n2 + n3))
       (fun m => bsum (n1 + (n2 + n3)) (fun fl => A fl * fval (pre ++ win ++ post) fl m)
                 * lay n1 n2 n2' B m m').
Proof. intros <- <- <- <-. apply frame. Qed.

Lemma fval_plain scan : forall f m, (forall w, In w scan -> snd w = false) ->
  length f = length scan -> length m = length scan -> fval scan f m == delta K (bits_eqb f m).
Proof.
  induction scan as [|[n h] scan IH]; intros f m Hh Hf Hm.
  - destruct f; [|discriminate]. destruct m; [|discriminate]. reflexivity.
  - destruct f as [|x f]; [discriminate|]. destruct m as [|y m]; [discriminate|].
    assert (h = false) by (apply (Hh (n, h)); now left). subst h.
    cbn [fval hd tl etype_of]. rewrite IH.
    + change (bits_eqb (x :: f) (y :: m)) with (Bool.eqb x y && bits_eqb f m).
      rewrite delta_andb. reflexivity.
    + intros w Hw. apply Hh. now right.
    + cbn in Hf. lia.
    + cbn in Hm. lia.
Qed.

Lemma scan_ok_app n a b : scan_ok n (a ++ b) -> scan_ok n a /\ scan_ok n b.
Proof. unfold scan_ok. apply Forall_app. Qed.

Lemma step_spider dom i vs es pre win post scal k nout p m' vn :
  tinv (T vs es (pre ++ win ++ post) scal) ->
  vid vn = length vs -> dom <= length vs ->
  vty vn = (match k with SZ => 1 | _ => 2 end)%Z -> vphase vn = export_phase p -> k <> SY ->
  length m' = (length pre + (nout + length post))%nat ->
  Sval dom i (T (vs ++ [vn]) (es ++ map (fun l : nat * bool => (fst l, length vs, etype_of (snd l))) win)
                (pre ++ repeat (length vs, false) nout ++ post) scal) m'
  == bsum (length pre + (length win + length post))
       (fun m => Sval dom i (T vs es (pre ++ win ++ post) scal) m
                 * layer_val K (BSpider k (length win) nout p) (length pre) m m').
Proof.
  intros (HI & HE & HS) Hvid Hdom Hty Hph Hk Hm'. cbn [t_vs t_es t_scan] in HI, HE, HS.
  apply scan_ok_app in HS. destruct HS as [Hpre HS]. apply scan_ok_app in HS. destruct HS as [Hwin Hpost].
  unfold Sval. cbn [t_scan t_vs t_es]. rewrite mk_edges_repeat.
  rewrite !app_length, repeat_length.
  apply (frame_n pre win (repeat (length vs, false) nout) post
           (Aval dom i vs es (map fst (pre ++ win ++ post)))
           (Aval dom i (vs ++ [vn]) (es ++ mk_edges win (repeat (length vs) (length win)))
                 (map fst (pre ++ repeat (length vs, false) nout ++ post)))
           (box_val K (BSpider k (length win) nout p)) m'
           (length pre) (length win) nout (length post));
    try reflexivity; [apply repeat_length|exact Hm'|].
  intros f1 f3 Hf1 Hf3.
  set (m2' := firstn nout (skipn (length pre) m')).
  assert (Hm2 : length m2' = nout) by (unfold m2'; rewrite firstn_length, skipn_length; lia).
  transitivity (bsum nout (fun f2 =>
     Aval dom i (vs ++ [vn]) (es ++ mk_edges win (repeat (length vs) (length win)))
          (map fst (pre ++ repeat (length vs, false) nout ++ post)) (f1 ++ f2 ++ f3)
     * delta K (bits_eqb f2 m2'))).
  - apply bsum_ext. intros f2 Hf2. rewrite fval_plain; [reflexivity| |now rewrite repeat_length|now rewrite repeat_length].
    intros w Hw. apply repeat_spec in Hw. now subst w.
  - rewrite bsum_delta_r by exact Hm2.
    rewrite Aval_spider by assumption.
    apply bsum_ext. intros xs Hxs. apply rmul_proper; [reflexivity|].
    apply bsum_ext. intros ys Hys. apply rmul_proper; [reflexivity|].
    unfold vv. rewrite Hvid. destruct (Nat.ltb_spec (length vs) dom) as [Hlt|_]; [lia|].
    rewrite Hty, Hph. destruct k; cbn [Z.eqb Pos.eqb box_val]; try (exfalso; now apply Hk);
      apply spider_val_phase, Hexp.
Qed.

Lemma step_had dom i vs es pre a h post scal m' :
  length m' = (length pre + (1 + length post))%nat ->
  Sval dom i (T vs es (pre ++ [(a, negb h)] ++ post) scal) m'
  == bsum (length pre + (1 + length post))
       (fun m => Sval dom i (T vs es (pre ++ [(a, h)] ++ post) scal) m
                 * layer_val K BHad (length pre) m m').
Proof.
  intros Hm'. unfold Sval. cbn [t_scan t_vs t_es].
  rewrite !app_length. cbn [length].
  replace (map fst (pre ++ [(a, negb h)] ++ post)) with (map fst (pre ++ [(a, h)] ++ post))
    by (rewrite !map_app; reflexivity).
  apply (frame_n pre [(a, h)] [(a, negb h)] post
           (Aval dom i vs es (map fst (pre ++ [(a, h)] ++ post)))
           (Aval dom i vs es (map fst (pre ++ [(a, h)] ++ post)))
           (box_val K BHad) m' (length pre) 1 1 (length post));
    try reflexivity; [exact Hm'|].
  intros f1 f3 Hf1 Hf3.
  set (m2' := firstn 1 (skipn (length pre) m')).
  assert (Hm2 : length m2' = 1%nat) by (unfold m2'; rewrite firstn_length, skipn_length; lia).
  destruct m2' as [|y [|? ?]]; try discriminate.
  apply bsum_ext. intros f2 Hf2. destruct f2 as [|x [|? ?]]; try discriminate.
  apply rmul_proper; [reflexivity|].
  cbn [bsum fval hd tl box_val]. rewrite <- (edge_had h x y). ring.
Qed.

Lemma Aval_swap dom i vs es (pre : list (nat * bool)) (a b : nat * bool) post f1 x y f3 :
  length f1 = length pre ->
  Aval dom i vs es (map fst (pre ++ [b; a] ++ post)) (f1 ++ [y; x] ++ f3)
  == Aval dom i vs es (map fst (pre ++ [a; b] ++ post)) (f1 ++ [x; y] ++ f3).
Proof.
  intros Hf1. unfold Aval. apply bsum_ext. intros lab _. apply rmul_proper; [reflexivity|].
  unfold vprod. apply rprod_map_ext. intros v _.
  rewrite (vv_perm dom i v _ (legs_of (vid v) es lab
             ++ flegs (vid v) (map fst (pre ++ [a; b] ++ post)) (f1 ++ [x; y] ++ f3))); [reflexivity|].
  apply Permutation_app_head. rewrite !map_app.
  rewrite !flegs_app by (rewrite ?map_length; cbn; congruence).
  apply Permutation_app_head. apply Permutation_app_tail.
  cbn [map flegs]. rewrite !app_nil_r. apply Permutation_app_comm.
Qed.

Lemma step_swap dom i vs es pre a b post scal m' :
  length m' = (length pre + (2 + length post))%nat ->
  Sval dom i (T vs es (pre ++ [b; a] ++ post) scal) m'
  == bsum (length pre + (2 + length post))
       (fun m => Sval dom i (T vs es (pre ++ [a; b] ++ post) scal) m
                 * layer_val K BSwap (length pre) m m').
Proof.
  intros Hm'. unfold Sval. cbn [t_scan t_vs t_es].
  rewrite !app_length. cbn [length].
  apply (frame_n pre [a; b] [b; a] post
           (Aval dom i vs es (map fst (pre ++ [a; b] ++ post)))
           (Aval dom i vs es (map fst (pre ++ [b; a] ++ post)))
           (box_val K BSwap) m' (length pre) 2 2 (length post));
    try reflexivity; [exact Hm'|].
  intros f1 f3 Hf1 Hf3.
  set (m2' := firstn 2 (skipn (length pre) m')).
  assert (Hm2 : length m2' = 2%nat) by (unfold m2'; rewrite firstn_length, skipn_length; lia).
  destruct m2' as [|c [|d [|? ?]]]; try discriminate.
  destruct a as [na ha], b as [nb hb].
  cbn [bsum]. rewrite !(Aval_swap dom i vs es pre (na, ha) (nb, hb) post f1) by exact Hf1.
  cbn [fval hd tl box_val].
  destruct c, d; cbn [Bool.eqb andb delta]; ring.
Qed.

Lemma bits_eqb_split off m m' : length m = length m' ->
  bits_eqb m m' = bits_eqb (firstn off m) (firstn off m') && bits_eqb (skipn off m) (skipn off m').
Proof.
  intros H. rewrite <- (firstn_skipn off m) at 1. rewrite <- (firstn_skipn off m') at 1.
  apply bits_eqb_app. rewrite !firstn_length. lia.
Qed.

Lemma layer_scalar re im off m m' : length m = length m' ->
  layer_val K (BScalar re im) off m m' == rcplx K re im * delta K (bits_eqb m m').
Proof.
  intros H. unfold layer_val. cbn [zdom zcod box_val]. rewrite Nat.add_0_r.
  rewrite (bits_eqb_split off m m' H), delta_andb. ring.
Qed.

Definition box_in_scope (b : zxbox) : Prop :=
  match b with BSpider SY _ _ _ | BOther _ _ => False | _ => True end.
Definition is_scalar (b : zxbox) : Prop := match b with BScalar _ _ => True | _ => False end.

Definition cscal (st : tst) : car K := rcplx K (fst (t_scal st)) (snd (t_scal st)).

(* one iteration of the export loop = one layer of the diagram *)
Lemma step_sound dom i row st b off st' w :
  tinv st -> dom <= length (t_vs st) -> length (t_scan st) = w ->
  off + zdom b <= w -> box_in_scope b -> (is_scalar b -> P) ->
  step_box row st b off = Ok st' ->
  length (t_scan st') = (w - zdom b + zcod b)%nat /\
  forall m', length m' = (w - zdom b + zcod b)%nat ->
    cscal st' * Sval dom i st' m'
    == cscal st * bsum w (fun m => Sval dom i st m * layer_val K b off m m').
Proof.
  intros Hinv Hdom Hw Hoff Hsc HP H.
  destruct st as [vs es scan scal]. cbn [t_vs t_scan] in Hdom, Hw.
  destruct (split3 scan off (zdom b)) as (pre & win & post & -> & Hpre & Hwin); [lia|].
  assert (Hw' : w = (length pre + (length win + length post))%nat) by (rewrite <- Hw, !app_length; reflexivity).
  clear Hw. unfold cscal.
  destruct b as [k nin nout p| | |re im|n m]; cbn [step_box t_scan t_vs t_es t_scal zdom zcod] in *.
  - (* spider *)
    rewrite (skipn_app_l pre _ off Hpre), (firstn_app_l win post nin Hwin), Hwin, Nat.ltb_irrefl in H.
    replace (off + nin)%nat with (length pre + length win)%nat in H by lia.
    rewrite (firstn_app_l pre _ off Hpre), (skipn_app3 pre win post _ _ eq_refl eq_refl) in H.
    inversion H; subst st'; clear H. cbn [t_scan t_scal].
    split; [rewrite !app_length, repeat_length; lia|].
    intros m' Hm'. apply rmul_proper; [reflexivity|].
    subst w off nin.
    apply step_spider; try assumption; try reflexivity.
    + destruct k; [discriminate|discriminate|contradiction].
    + lia.
  - (* Hadamard *)
    destruct win as [|[a h] [|? ?]]; try discriminate.
    assert (E : nth_error (pre ++ [(a, h)] ++ post) off = Some (a, h)).
    { rewrite nth_error_app2 by lia. replace (off - length pre)%nat with 0%nat by lia. reflexivity. }
    rewrite E in H. rewrite (firstn_app_l pre _ off Hpre) in H.
    replace (S off) with (length pre + 1)%nat in H by lia.
    rewrite (skipn_app3 pre [(a, h)] post (length pre) 1 eq_refl eq_refl) in H.
    inversion H; subst st'; clear H. cbn [t_scan t_scal].
    split; [rewrite !app_length in *; cbn [length] in *; lia|].
    intros m' Hm'. apply rmul_proper; [reflexivity|].
    subst w off. cbn [length]. apply step_had. cbn [length] in Hm'. lia.
  - (* swap *)
    destruct win as [|a [|b [|? ?]]]; try discriminate.
    assert (Ea : nth_error (pre ++ [a; b] ++ post) off = Some a).
    { rewrite nth_error_app2 by lia. replace (off - length pre)%nat with 0%nat by lia. reflexivity. }
    assert (Eb : nth_error (pre ++ [a; b] ++ post) (S off) = Some b).
    { rewrite nth_error_app2 by lia. replace (S off - length pre)%nat with 1%nat by lia. reflexivity. }
    rewrite Ea, Eb in H. rewrite (firstn_app_l pre _ off Hpre) in H.
    replace (off + 2)%nat with (length pre + 2)%nat in H by lia.
    rewrite (skipn_app3 pre [a; b] post (length pre) 2 eq_refl eq_refl) in H.
    inversion H; subst st'; clear H. cbn [t_scan t_scal].
    split; [rewrite !app_length in *; cbn [length] in *; lia|].
    intros m' Hm'. apply rmul_proper; [reflexivity|].
    subst w off. cbn [length]. apply step_swap. cbn [length] in Hm'. lia.
  - (* scalar *)
    inversion H; subst st'; clear H. cbn [t_scan t_scal].
    split; [rewrite !app_length; lia|].
    intros m' Hm'. rewrite (Hcmul (HP Logic.I)). cbn [fst snd].
    change (Sval dom i (T vs es (pre ++ win ++ post) (cmul scal (re, im))) m')
      with (Sval dom i (T vs es (pre ++ win ++ post) scal) m').
    transitivity (rcplx K (fst scal) (snd scal)
                  * bsum w (fun m => (Sval dom i (T vs es (pre ++ win ++ post) scal) m * rcplx K re im)
                                     * delta K (bits_eqb m m'))).
    + rewrite bsum_delta_r by lia. ring.
    + apply rmul_proper; [reflexivity|]. apply bsum_ext. intros m Hm.
      rewrite layer_scalar by lia. ring.
  - contradiction.
Qed.

(* ================================================================== boundaries *)
Lemma pos_of_seq c : forall b v,
  pos_of v (seq b c) = if (Nat.leb b v && Nat.ltb v (b + c))%bool then Some (v - b) else None.
Proof.
  induction c as [|c IH]; intros b v; cbn [seq pos_of].
  - destruct (Nat.leb_spec b v), (Nat.ltb_spec v (b + 0)); cbn; try reflexivity; lia.
  - destruct (Nat.eqb_spec b v) as [E|E].
    + subst v. rewrite Nat.leb_refl. destruct (Nat.ltb_spec b (b + S c)); [|lia].
      cbn. now rewrite Nat.sub_diag.
    + rewrite IH.
      destruct (Nat.leb_spec (S b) v), (Nat.leb_spec b v), (Nat.ltb_spec v (S b + c)),
        (Nat.ltb_spec v (b + S c)); cbn; try lia; try reflexivity.
      f_equal. lia.
Qed.

(* a row of boundary vertices base, base+1, ... each holding one frontier leg *)
Lemma bprod c : forall base ys o, length ys = c -> length o = c ->
  rprod K (map (fun id => delta K (all_eq (nth (id - base) o false) (flegs id (seq base c) ys)))
               (seq base c))
  == delta K (bits_eqb ys o).
Proof.
  induction c as [|c IH]; intros base ys o Hy Ho.
  - destruct ys; [|discriminate]. destruct o; [|discriminate]. reflexivity.
  - destruct ys as [|y ys]; [discriminate|]. destruct o as [|o0 o]; [discriminate|].
    cbn [seq map]. rewrite rprod_cons.
    rewrite (rprod_map_ext
      (fun id => delta K (all_eq (nth (id - base) (o0 :: o) false) (flegs id (base :: seq (S base) c) (y :: ys))))
      (fun id => delta K (all_eq (nth (id - S base) o false) (flegs id (seq (S base) c) ys)))).
    + rewrite IH by (cbn in *; lia).
      rewrite Nat.sub_diag. cbn [nth flegs]. rewrite Nat.eqb_refl.
      rewrite (flegs_none base (seq (S base) c)) by (intros x Hx; apply in_seq in Hx; lia).
      change (bits_eqb (y :: ys) (o0 :: o)) with (Bool.eqb y o0 && bits_eqb ys o).
      rewrite delta_andb. destruct y, o0; cbn; ring.
    + intros id Hid. apply in_seq in Hid.
      replace (id - base)%nat with (S (id - S base)) by lia. cbn [nth flegs].
      destruct (Nat.eqb_spec base id); [lia|]. reflexivity.
Qed.

Lemma skipn_nth_error {A} (l : list A) : forall i x, nth_error l i = Some x -> skipn i l = x :: skipn (S i) l.
Proof.
  induction l as [|y l IH]; intros [|i] x H; cbn in H; try discriminate.
  - now inversion H.
  - cbn [skipn]. rewrite (IH i x H). reflexivity.
Qed.

Lemma add_outputs_closed rowz n : forall i st outs st' outs',
  add_outputs rowz i n st outs = Ok (st', outs') ->
  exists ovs, t_vs st' = t_vs st ++ ovs /\ map vid ovs = seq (length (t_vs st)) n /\
    t_es st' = t_es st ++ mk_edges (firstn n (skipn i (t_scan st))) (seq (length (t_vs st)) n) /\
    outs' = outs ++ seq (length (t_vs st)) n /\ t_scal st' = t_scal st.
Proof.
  induction n as [|n IH]; intros i st outs st' outs' H; cbn [add_outputs] in H.
  - inversion H; subst. exists []. cbn. rewrite !app_nil_r. repeat split; reflexivity.
  - destruct (nth_error (t_scan st) i) as [[s h]|] eqn:Es; [|discriminate].
    apply IH in H. destruct H as (ovs & Hv & Hid & He & Ho & Hs).
    cbn [t_vs t_es t_scan t_scal] in *.
    rewrite app_length in Hid, He, Ho. cbn [length] in Hid, He, Ho. rewrite Nat.add_1_r in Hid, He, Ho.
    exists (V (length (t_vs st)) 0 0 (Z.of_nat i) rowz :: ovs).
    split; [rewrite Hv, <- app_assoc; reflexivity|].
    split; [cbn [map vid seq]; now rewrite Hid|].
    split; [|split; [rewrite Ho, <- app_assoc; reflexivity|exact Hs]].
    rewrite He, <- app_assoc. rewrite (skipn_nth_error _ _ _ Es). reflexivity.
Qed.

(* the finished graph: the output boundaries close the frontier *)
Lemma graph_sem_final dom i o vs es scan scal ovs :
  ids_ok vs -> edges_ok (length vs) es -> scan_ok (length vs) scan -> dom <= length vs ->
  map vid ovs = seq (length vs) (length scan) -> length o = length scan ->
  graph_sem K (G (vs ++ ovs) (es ++ mk_edges scan (seq (length vs) (length scan)))
                 (seq 0 dom) (seq (length vs) (length scan)) scal) i o
  == rcplx K (fst scal) (snd scal) * Sval dom i (T vs es scan scal) o.
Proof.
  intros HI HE HS Hdom Hov Ho.
  set (n := length vs) in *. set (c := length scan) in *.
  unfold graph_sem. cbn [gscal gedges gverts]. apply rmul_proper; [reflexivity|].
  rewrite rsum_bits. rewrite app_length, mk_edges_length by apply seq_length.
  replace (2 * (length es + length scan))%nat with (2 * length es + 2 * length scan)%nat by lia.
  rewrite bsum_app. unfold Sval, Aval. cbn [t_scan t_vs t_es].
  transitivity (bsum (2 * length es) (fun lab => bsum (2 * length scan) (fun lab2 =>
     (fun xs ys => edges_val K es lab * fval scan xs ys
        * (vprod dom i vs es (map fst scan) lab xs * delta K (bits_eqb ys o)))
     (evens lab2) (odds lab2)))).
  - apply bsum_ext. intros lab Hlab. apply bsum_ext. intros lab2 Hlab2. cbv beta.
    rewrite edges_val_app by assumption.
    rewrite edges_val_mk by (try apply seq_length; assumption).
    assert (Hod : length (odds lab2) = c) by (apply odds_length; exact Hlab2).
    rewrite map_app, rprod_app.
    set (g := G (vs ++ ovs) (es ++ mk_edges scan (seq n c)) (seq 0 dom) (seq n c) scal).
    (* old vertices *)
    rewrite (rprod_map_ext (vertex_val K g i o (lab ++ lab2))
       (fun v => vv dom i v (legs_of (vid v) es lab ++ flegs (vid v) (map fst scan) (evens lab2)))).
    2:{ intros v Hv. pose proof (ids_ok_lt _ _ HI Hv) as Hlt. fold n in Hlt.
        unfold vertex_val, g. cbn [gedges gins gouts]. rewrite !pos_of_seq.
        rewrite legs_of_app by assumption.
        rewrite legs_of_mk_src; [|apply seq_length|exact Hlab2|intros t Ht; apply in_seq in Ht; lia].
        destruct (Nat.leb_spec n (vid v)); [lia|]. cbn [andb]. cbn [Nat.leb Nat.add].
        unfold vv. destruct (Nat.ltb_spec (vid v) dom); [|reflexivity].
        now rewrite Nat.sub_0_r. }
    (* output boundaries *)
    rewrite (rprod_map_ext (vertex_val K g i o (lab ++ lab2))
       (fun v => (fun id => delta K (all_eq (nth (id - n) o false) (flegs id (seq n c) (odds lab2)))) (vid v))).
    2:{ intros v Hv. assert (Hid : In (vid v) (seq n c)) by (rewrite <- Hov; apply in_map; exact Hv).
        apply in_seq in Hid.
        unfold vertex_val, g. cbn [gedges gins gouts]. rewrite !pos_of_seq.
        rewrite legs_of_app by assumption.
        rewrite (legs_of_fresh (vid v) es).
        2:{ intros e He. unfold edges_ok in HE. rewrite Forall_forall in HE.
            destruct (HE e He) as [H1 _]. fold n in H1. lia. }
        rewrite legs_of_mk_tgt; [|apply seq_length|exact Hlab2|].
        2:{ intros w Hw. unfold scan_ok in HS. rewrite Forall_forall in HS.
            pose proof (HS w Hw) as H1. fold n in H1. lia. }
        cbn [app Nat.leb Nat.add].
        destruct (Nat.ltb_spec (vid v) dom); [lia|]. cbn [andb].
        destruct (Nat.leb_spec n (vid v)); [|lia].
        destruct (Nat.ltb_spec (vid v) (n + c)); [|lia]. reflexivity. }
    rewrite <- (map_map vid (fun id => delta K (all_eq (nth (id - n) o false) (flegs id (seq n c) (odds lab2))))).
    rewrite Hov, bprod by assumption.
    unfold vprod. ring.
  - transitivity (bsum (2 * length es) (fun lab => bsum (length scan) (fun xs => bsum (length scan) (fun ys =>
       edges_val K es lab * fval scan xs ys
        * (vprod dom i vs es (map fst scan) lab xs * delta K (bits_eqb ys o)))))).
    + apply bsum_ext. intros lab _.
      apply (bsum_pairs (length scan) (fun xs ys => edges_val K es lab * fval scan xs ys
        * (vprod dom i vs es (map fst scan) lab xs * delta K (bits_eqb ys o)))).
    + rewrite bsum_swap. apply bsum_ext. intros xs _. rewrite <- bsum_scale_r.
      apply bsum_ext. intros lab _.
      transitivity (bsum (length scan) (fun ys =>
         (edges_val K es lab * vprod dom i vs es (map fst scan) lab xs * fval scan xs ys)
         * delta K (bits_eqb ys o))).
      * apply bsum_ext. intros ys _. ring.
      * rewrite (bsum_delta_r (length scan)
           (fun ys => edges_val K es lab * vprod dom i vs es (map fst scan) lab xs * fval scan xs ys) o Ho).
        reflexivity.
Qed.

(* the initial state is the identity *)
Lemma init_sound dom i m : length i = dom -> length m = dom ->
  Sval dom i (init_state dom) m == delta K (bits_eqb i m).
Proof.
  intros Hi Hm. unfold Sval, init_state. cbn [t_scan t_vs t_es].
  rewrite map_length, seq_length, map_map. cbn [fst]. rewrite map_id.
  transitivity (bsum dom (fun fl => delta K (bits_eqb fl i) * delta K (bits_eqb fl m))).
  - apply bsum_ext. intros fl Hfl. apply rmul_proper.
    + unfold Aval. cbn [length Nat.mul Nat.add bsum edges_val]. unfold vprod. rewrite map_map. cbn [vid legs_of app].
      rewrite (rprod_map_ext _
        (fun id => delta K (all_eq (nth (id - 0) i false) (flegs id (seq 0 dom) fl)))).
      * rewrite bprod by assumption. ring.
      * intros k Hk. apply in_seq in Hk. unfold vv. cbn [vid].
        destruct (Nat.ltb_spec k dom); [|lia]. now rewrite Nat.sub_0_r.
    + apply fval_plain.
      * intros w Hw. apply in_map_iff in Hw. destruct Hw as (k & <- & _). reflexivity.
      * now rewrite map_length, seq_length.
      * now rewrite map_length, seq_length.
  - rewrite (bsum_delta_r dom (fun fl => delta K (bits_eqb fl i)) m Hm).
    now rewrite bits_eqb_sym.
Qed.

(* ================================================================== the loop *)
Lemma run_sound dom i bs : forall row st st' w cod,
  tinv st -> dom <= length (t_vs st) -> length (t_scan st) = w ->
  zx_typed w bs cod -> Forall (fun bo : zxbox * nat => is_scalar (fst bo) -> P) bs ->
  run_boxes row st bs = Ok st' ->
  tinv st' /\ dom <= length (t_vs st') /\ length (t_scan st') = cod /\
  forall o, length o = cod ->
    cscal st' * Sval dom i st' o
    == cscal st * bsum w (fun m => Sval dom i st m * zx_sem K w bs m o).
Proof.
  induction bs as [|[b off] bs IH]; intros row st st' w cod Hinv Hdom Hw Hty HP H.
  - cbn [run_boxes] in H. inversion H; subst st'; clear H. cbn [zx_typed] in Hty. subst cod.
    split; [exact Hinv|]. split; [exact Hdom|]. split; [exact Hw|].
    intros o Ho. apply rmul_proper; [reflexivity|]. cbn [zx_sem]. symmetry.
    apply bsum_delta_r. exact Ho.
  - cbn [run_boxes] in H. bind_inv H. rename a into st1.
    cbn [zx_typed] in Hty. destruct Hty as (Hoff & Hsc & Hty).
    destruct (step_box_shape _ _ _ _ _ E Hinv) as (Hinv1 & V1 & _).
    pose proof (Forall_inv HP) as HPb. pose proof (Forall_inv_tail HP) as HPbs. cbn [fst] in HPb.
    destruct (step_sound dom i row st b off st1 w Hinv Hdom Hw Hoff Hsc HPb E) as (Hw1 & Hstep).
    assert (Hdom1 : dom <= length (t_vs st1)).
    { apply (f_equal (@length _)) in V1. rewrite app_length, !map_length in V1. lia. }
    destruct (IH _ _ _ _ _ Hinv1 Hdom1 Hw1 Hty HPbs H) as (Hinv' & Hdom' & Hsc' & Hrun).
    split; [exact Hinv'|]. split; [exact Hdom'|]. split; [exact Hsc'|].
    intros o Ho. rewrite (Hrun o Ho).
    set (w' := (w - zdom b + zcod b)%nat) in *.
    transitivity (bsum w' (fun m' =>
      (cscal st * bsum w (fun m => Sval dom i st m * layer_val K b off m m')) * zx_sem K w' bs m' o)).
    + rewrite <- bsum_scale_l. apply bsum_ext. intros m' Hm'. rewrite <- (Hstep m' Hm'). ring.
    + transitivity (cscal st * bsum w' (fun m' => bsum w (fun m =>
         Sval dom i st m * (layer_val K b off m m' * zx_sem K w' bs m' o)))).
      * rewrite <- bsum_scale_l. apply bsum_ext. intros m' _.
        transitivity (cscal st * (bsum w (fun m => Sval dom i st m * layer_val K b off m m')
                                  * zx_sem K w' bs m' o)); [ring|].
        apply rmul_proper; [reflexivity|]. rewrite <- bsum_scale_r. apply bsum_ext. intros m _. ring.
      * apply rmul_proper; [reflexivity|]. rewrite bsum_swap. apply bsum_ext. intros m _.
        cbn [zx_sem]. fold w'. rewrite rsum_bits. rewrite bsum_scale_l. reflexivity.
Qed.

(* ================================================================== export soundness *)
Theorem to_pyzx_sound_gen dom cod bs g :
  zx_typed dom bs cod -> Forall (fun bo : zxbox * nat => is_scalar (fst bo) -> P) bs ->
  to_pyzx dom cod bs = Ok g ->
  forall i o, length i = dom -> length o = cod ->
    graph_sem K g i o == zx_sem K dom bs i o.
Proof.
  intros Hty HP H i o Hi Ho. unfold to_pyzx in H. bind_inv H. rename a into st.
  bind_inv H. destruct a as [st' outs]. inversion H; subst g; clear H. cbn [fst snd].
  destruct (init_state_inv dom) as (Hinv0 & _ & L0).
  assert (Hs0 : length (t_scan (init_state dom)) = dom).
  { unfold init_state. cbn [t_scan]. now rewrite map_length, seq_length. }
  destruct (run_sound dom i bs 0 (init_state dom) st dom cod Hinv0 (Nat.eq_le_incl _ _ (eq_sym L0)) Hs0 Hty HP E)
    as ((HI & HE & HS) & Hdom & Hsc & Hrun).
  destruct (add_outputs_closed _ _ _ _ _ _ _ E0) as (ovs & Hv & Hid & He & Houts & Hscal).
  rewrite Hv, He, Houts, Hscal. cbn [app skipn].
  rewrite <- Hsc in Hid |- *. rewrite firstn_all.
  rewrite graph_sem_final by (try assumption; congruence).
  destruct st as [vs es scan scal]. cbn [t_vs t_es t_scan t_scal] in *.
  change (rcplx K (fst scal) (snd scal) * Sval dom i (T vs es scan scal) o)
    with (cscal (T vs es scan scal) * Sval dom i (T vs es scan scal) o).
  rewrite (Hrun o Ho).
  unfold cscal, init_state at 1. cbn [t_scal fst snd]. rewrite Hc1.
  transitivity (bsum dom (fun m => delta K (bits_eqb i m) * zx_sem K dom bs m o)).
  - transitivity (bsum dom (fun m => Sval dom i (init_state dom) m * zx_sem K dom bs m o)); [ring|].
    apply bsum_ext. intros m Hm. rewrite init_sound by assumption. reflexivity.
  - apply (bsum_delta_l dom (fun m => zx_sem K dom bs m o) i Hi).
Qed.

End Sound.

(* ================================================================== from ring_laws *)
Section Laws.
Context {K : ringops} {HR : ring_laws K}.
Hypothesis Hcplx : cplx_proper K.

Notation "x == y" := (req K x y) (at level 70, no associativity) : K_scope.
Notation "x + y" := (radd K x y) : K_scope.
Notation "x * y" := (rmul K x y) : K_scope.
Notation "0" := (r0 K) : K_scope.
Notation "1" := (r1 K) : K_scope.
Local Open Scope K_scope.

Let HL : sring_laws K := ring_laws_sring K HR.
Add Ring Kring2 : (@K_srt K HL) (setoid (@req_equiv K HL) (@K_ext K HL)).

(* ------------------------------------------------------------------ phases *)
Lemma rexp_nat n : rexp K (inject_Z (Z.of_nat n)) == 1.
Proof.
  induction n as [|n IH].
  - apply (rl_exp_0 K HR).
  - rewrite (rl_exp_eq K HR _ (inject_Z (Z.of_nat n) + 1)%Q).
    + rewrite (rl_exp_add K HR), IH, (rl_exp_turn K HR). ring.
    + rewrite Nat2Z.inj_succ. unfold Z.succ. rewrite inject_Z_plus. reflexivity.
Qed.

Lemma rexp_int z : rexp K (inject_Z z) == 1.
Proof.
  destruct (Z_le_gt_dec 0 z) as [Hz|Hz].
  - rewrite <- (Z2Nat.id z Hz). apply rexp_nat.
  - assert (H : rexp K (inject_Z z) * rexp K (inject_Z (Z.of_nat (Z.to_nat (- z)))) == 1).
    { rewrite <- (rl_exp_add K HR). rewrite (rl_exp_eq K HR _ 0%Q); [apply (rl_exp_0 K HR)|].
      rewrite Z2Nat.id by lia. rewrite <- inject_Z_plus. replace (z + - z)%Z with 0%Z by lia.
      reflexivity. }
    rewrite rexp_nat in H. rewrite <- H. ring.
Qed.

Lemma rexp_shift p z : rexp K (p - inject_Z z)%Q == rexp K p.
Proof.
  rewrite (rl_exp_eq K HR _ (p + inject_Z (- z))%Q).
  - rewrite (rl_exp_add K HR), rexp_int. ring.
  - rewrite inject_Z_opp. reflexivity.
Qed.

(* the phase stored in the graph (units of pi, mod 2) denotes the phase of the box *)
Lemma rexp_export p : rexp K (export_phase p * (1 # 2))%Q == rexp K p.
Proof.
  unfold export_phase. destruct (Qeq_bool p 0) eqn:E.
  - apply Qeq_bool_eq in E. apply (rl_exp_eq K HR). rewrite E. reflexivity.
  - unfold qmod2.
    rewrite (rl_exp_eq K HR _ (p - inject_Z (Qfloor ((2 # 1) * p / (2 # 1))))%Q).
    + apply rexp_shift.
    + rewrite Qred_correct. rewrite inject_Z_mult. change (inject_Z 2) with (2 # 1)%Q. field.
Qed.

(* scalars: the model multiplies Gaussian rationals with normalisation *)
Lemma rcplx_cmul a b :
  rcplx K (fst (cmul a b)) (snd (cmul a b)) == rcplx K (fst a) (snd a) * rcplx K (fst b) (snd b).
Proof.
  rewrite (rl_cplx_mul K HR). unfold cmul. cbn [fst snd].
  apply Hcplx; apply Qred_correct.
Qed.

End Laws.

(* ================================================================== closed statements *)
(* exactly what the proof uses *)
Record export_laws (K : ringops) : Prop := {
  el_sring : sring_laws K;
  el_exp : forall p, req K (rexp K (export_phase p * (1 # 2))%Q) (rexp K p);
  el_cplx_1 : req K (rcplx K 1%Q 0%Q) (r1 K);
  el_cmul : forall a b, req K (rcplx K (fst (cmul a b)) (snd (cmul a b)))
                              (rmul K (rcplx K (fst a) (snd a)) (rcplx K (fst b) (snd b))) }.

Lemma ring_laws_export K : ring_laws K -> cplx_proper K -> export_laws K.
Proof.
  intros HR HC. constructor.
  - exact (ring_laws_sring K HR).
  - exact (@rexp_export K HR).
  - exact (rl_cplx_1 K HR).
  - exact (@rcplx_cmul K HR HC).
Qed.

Definition scalar_free (bs : list (zxbox * nat)) : Prop :=
  Forall (fun bo : zxbox * nat => ~ is_scalar (fst bo)) bs.

(* EXPORT SOUNDNESS.  For every ring with the laws, every diagram in scope (every
   box fits; Z / X spiders of any arity and phase, H, SWAP, scalars) that to_pyzx
   accepts: the tensor of the exported graph is the matrix of the diagram, entry
   by entry, the scalar included (no rescaling: graph.scalar carries exactly the
   product of the scalar boxes). *)
Theorem to_pyzx_sound_export : forall K, export_laws K -> forall dom cod bs g,
  zx_typed dom bs cod -> to_pyzx dom cod bs = Ok g ->
  forall i o, length i = dom -> length o = cod ->
    req K (graph_sem K g i o) (zx_sem K dom bs i o).
Proof.
  intros K [HL He H1 Hm] dom cod bs g Hty H.
  apply (@to_pyzx_sound_gen K HL He H1 True (fun _ => Hm) dom cod bs g Hty); [|exact H].
  apply Forall_forall. intros x _ _. exact Logic.I.
Qed.

Theorem to_pyzx_sound : forall K, ring_laws K -> cplx_proper K -> forall dom cod bs g,
  zx_typed dom bs cod -> to_pyzx dom cod bs = Ok g ->
  forall i o, length i = dom -> length o = cod ->
    req K (graph_sem K g i o) (zx_sem K dom bs i o).
Proof. intros K HR HC. apply to_pyzx_sound_export, ring_laws_export; assumption. Qed.

(* without scalar boxes ring_laws alone is enough: ZXSem.to_pyzx_sound_stmt as it is *)
Theorem to_pyzx_sound_scalar_free : forall K, ring_laws K -> forall dom cod bs g,
  zx_typed dom bs cod -> scalar_free bs -> to_pyzx dom cod bs = Ok g ->
  forall i o, length i = dom -> length o = cod ->
    req K (graph_sem K g i o) (zx_sem K dom bs i o).
Proof.
  intros K HR dom cod bs g Hty Hsf H.
  apply (@to_pyzx_sound_gen K (ring_laws_sring K HR) (@rexp_export K HR) (rl_cplx_1 K HR) False
           (fun f : False => match f with end) dom cod bs g Hty); [|exact H].
  unfold scalar_free in Hsf. rewrite Forall_forall in Hsf |- *. intros x Hx Hs. exact (Hsf x Hx Hs).
Qed.

(* non-vacuity of the hypotheses on the diagram: the docstring bialgebra with a scalar and an H *)
Example sound_hyps_nonvacuous :
  let bs := (BScalar (1 # 2) (-3 # 4), 0) :: (BHad, 1) :: ex_bialgebra in
  zx_typed 2 bs 2 /\ exists g, to_pyzx 2 2 bs = Ok g.
Proof.
  cbv zeta. split.
  - cbn. repeat split; lia.
  - eexists. vm_compute. reflexivity.
Qed.
