(* Program DSL and wire codec of the `pyzx` runner (property C17).
     (0 dom cod boxes)              to_pyzx of the ZX diagram (dom, boxes, offsets)
     (1 fix_a fix_b graph)          from_pyzx of a graph
     (2 fix_a fix_b dom cod boxes)  from_pyzx (to_pyzx d)
   boxes  = ((box offset) ...),  box = (0 kind nin nout num den) spider, kind 0 Z / 1 X / 2 Y
                                      | (1) H | (2) SWAP | (3 renum reden imnum imden) scalar
                                      | (4 nin nout) any other box
   graph  = (vertices edges inputs outputs (renum reden imnum imden)),
            vertex = (id type num den qubit row), edge = (u v type)
   answers: (0 (graph simple? balanced?)) | (0 (diagram balanced? simple?)) | (1 errcode) *)
From Coq Require Import List ZArith QArith Bool Lia.
Import ListNotations.
Require Import DV.Common.Base DV.Core.Diagram DV.Core.Prog DV.PyZX.PyZX.
Open Scope Z_scope.

Inductive zprog :=
| PToPyzx (dom cod : nat) (bs : list (zxbox * nat))
| PFromPyzx (fix_a fix_b : bool) (g : graph)
| PRoundTrip (fix_a fix_b : bool) (dom cod : nat) (bs : list (zxbox * nat)).

Inductive zvalue := VGraph (g : graph) | VDiagram (d : diagram) (g : graph).

Definition zrun (p : zprog) : res zvalue :=
  match p with
  | PToPyzx dom cod bs => do g <- to_pyzx dom cod bs; Ok (VGraph g)
  | PFromPyzx fa fb g => do d <- from_pyzx fa fb g; Ok (VDiagram d g)
  | PRoundTrip fa fb dom cod bs =>
      do g <- to_pyzx dom cod bs; do d <- from_pyzx fa fb g; Ok (VDiagram d g)
  end.

(* ------------------------------------------------------------------ codec *)
Definition dec_nat (s : sexp) : res nat :=
  match s with I z => if z <? 0 then Err BadProgram else Ok (Z.to_nat z) | _ => Err BadProgram end.
Definition dec_q (n d : Z) : res Q :=
  if d <=? 0 then Err BadProgram else Ok (Qmake n (Z.to_pos d)).
Definition dec_kind (z : Z) : res skind :=
  if z =? 0 then Ok SZ else if z =? 1 then Ok SX else if z =? 2 then Ok SY else Err BadProgram.

Definition dec_zxbox (s : sexp) : res zxbox :=
  match s with
  | L [I 0; I k; n; m; I num; I den] =>
      do k' <- dec_kind k; do n' <- dec_nat n; do m' <- dec_nat m; do p <- dec_q num den;
      Ok (BSpider k' n' m' p)
  | L [I 1] => Ok BHad
  | L [I 2] => Ok BSwap
  | L [I 3; I rn; I rd; I im; I id] => do re <- dec_q rn rd; do i <- dec_q im id; Ok (BScalar re i)
  | L [I 4; n; m] => do n' <- dec_nat n; do m' <- dec_nat m; Ok (BOther n' m')
  | _ => Err BadProgram
  end.

Definition dec_boxes (s : sexp) : res (list (zxbox * nat)) :=
  do l <- sx_list s;
  mapM (fun e => match e with
                 | L [b; o] => do b' <- dec_zxbox b; do o' <- dec_nat o; Ok (b', o')
                 | _ => Err BadProgram end) l.

Definition dec_vertex (s : sexp) : res vertex :=
  match s with
  | L [i; I t; I num; I den; I q; I r] => do i' <- dec_nat i; do p <- dec_q num den; Ok (V i' t p q r)
  | _ => Err BadProgram
  end.
Definition dec_edge (s : sexp) : res edge :=
  match s with
  | L [a; b; I t] => do a' <- dec_nat a; do b' <- dec_nat b; Ok (a', b', t)
  | _ => Err BadProgram
  end.
Definition dec_nats (s : sexp) : res (list nat) := do l <- sx_list s; mapM dec_nat l.

Definition dec_graph (s : sexp) : res graph :=
  match s with
  | L [vs; es; ins; outs; L [I rn; I rd; I im; I id]] =>
      do vs' <- (do l <- sx_list vs; mapM dec_vertex l);
      do es' <- (do l <- sx_list es; mapM dec_edge l);
      do ins' <- dec_nats ins; do outs' <- dec_nats outs;
      do re <- dec_q rn rd; do i <- dec_q im id;
      Ok (G vs' es' ins' outs' (re, i))
  | _ => Err BadProgram
  end.

Definition dec_zprog (s : sexp) : res zprog :=
  match s with
  | L [I 0; d; c; bs] => do d' <- dec_nat d; do c' <- dec_nat c; do bs' <- dec_boxes bs; Ok (PToPyzx d' c' bs')
  | L [I 1; fa; fb; g] => do fa' <- sx_bool fa; do fb' <- sx_bool fb; do g' <- dec_graph g; Ok (PFromPyzx fa' fb' g')
  | L [I 2; fa; fb; d; c; bs] =>
      do fa' <- sx_bool fa; do fb' <- sx_bool fb;
      do d' <- dec_nat d; do c' <- dec_nat c; do bs' <- dec_boxes bs; Ok (PRoundTrip fa' fb' d' c' bs')
  | _ => Err BadProgram
  end.

Definition of_nat (n : nat) : sexp := I (Z.of_nat n).
Definition enc_q (q : Q) : list sexp := let r := Qred q in [I (Qnum r); I (Zpos (Qden r))].
Definition enc_vertex (v : vertex) : sexp :=
  L ([of_nat (vid v); I (vty v)] ++ enc_q (vphase v) ++ [I (vqubit v); I (vrow v)]).
Definition enc_edge (e : edge) : sexp := let '(a, b, t) := e in L [of_nat a; of_nat b; I t].
Definition enc_graph (g : graph) : sexp :=
  L [L (map enc_vertex (gverts g)); L (map enc_edge (gedges g));
     L (map of_nat (gins g)); L (map of_nat (gouts g));
     L (enc_q (fst (gscal g)) ++ enc_q (snd (gscal g)))].

Definition enc_zvalue (v : zvalue) : sexp :=
  match v with
  | VGraph g => L [enc_graph g; of_bool (graph_simple g); of_bool (graph_balanced g)]
  | VDiagram d g => L [enc_diagram d; of_bool (graph_balanced g); of_bool (graph_simple g)]
  end.

Definition run_sexp (s : sexp) : sexp :=
  match dec_zprog s with
  | Ok p => match zrun p with
            | Ok v => L [I 0; enc_zvalue v]
            | Err e => L [I 1; I (err_code e)]
            end
  | Err e => L [I 1; I (err_code e)]
  end.
