(* Two instances of the phase algebras of ZX.v.

     grid          the executable one: a phase is an integer k standing for k/16
                   of a turn, interpreted in Cyc32 = Q[x]/(x^16+1) as
                   exp(i*pi*k/16) = zeta^(k mod 32).  Used by the extracted
                   runner (ZXProg.v) and by the computed witnesses.
     unit_phases   for ANY StarRing: the phases are the units e with
                   e * conj e = 1 themselves, interpreted by the identity.
                   Instantiating a theorem of ZXLemmas.v at it gives the
                   statement "for every phase unit e", i.e. for every real phase.

   Both discharge the hypotheses of PhaseAlg (non-vacuity of every theorem
   quantified over phase algebras). *)
From Coq Require Import List Bool Arith ZArith Lia.
Import ListNotations.
Require Import DV.Quantum.Ring DV.Quantum.Cyc32 DV.ZX.ZX.

Lemma c32_phase_zero : c32_phase 0 = (r1 : Cyc32).
Proof. reflexivity. Qed.

Lemma c32_phase_half : c32_phase 8 = (ri : Cyc32).
Proof. exact c32_zeta_8. Qed.

Definition neg_ok (n : nat) : bool :=
  c32_eqb (rpow zeta ((32 - n) mod 32)) (rconj (rpow zeta n)).

Lemma neg_table : forallb neg_ok (seq 0 32) = true.
Proof. vm_compute. reflexivity. Qed.

Lemma zeta_neg : forall n, (n < 32)%nat -> rpow zeta ((32 - n) mod 32) = rconj (rpow zeta n).
Proof.
  intros n H. apply c32_eqb_ok.
  pose proof neg_table as T. rewrite forallb_forall in T.
  apply (T n). apply in_seq. lia.
Qed.

Lemma c32_phase_neg : forall k, c32_phase (- k) = rconj (c32_phase k).
Proof.
  intro k. unfold c32_phase.
  assert (Hr : (0 <= k mod 32 < 32)%Z) by (apply Z.mod_pos_bound; lia).
  rewrite <- (zeta_neg (Z.to_nat (k mod 32))) by lia.
  f_equal.
  destruct (Z.eq_dec (k mod 32) 0) as [E|E].
  - rewrite (Z_mod_zero_opp_full k 32 E), E. reflexivity.
  - rewrite (Z_mod_nz_opp_full k 32 E).
    rewrite Z2Nat.inj_sub by lia. change (Z.to_nat 32) with 32%nat.
    symmetry. apply Nat.mod_small. lia.
Qed.

(* phases k/16 of a turn, in Cyc32; halving is k / 2, exact for even k only (the check
   keeps the phases of controlled rotations on even k) *)
Definition grid : PhaseAlg Cyc32 :=
  mkPhaseAlg Cyc32 Z 0%Z 8%Z Z.opp Z.div2 c32_phase c32_phase_ok c32_phase_zero c32_phase_half c32_phase_neg.

(* the phase units of an arbitrary StarRing (a general ring has no square roots: [phalve] is
   a placeholder there, the hypothesis f13_free_at false of the repaired model then asks
   for units that are their own squares; irrelevant while the switch defect_F13 is on) *)
Section UnitPhases.
  Variable SR : StarRing.
  Definition uphase : Type := { e : SR | is_phase e }.
  Definition up_zero : uphase := exist _ r1 (one_phase SR).
  Definition up_half : uphase := exist _ ri (i_phase SR).
  Definition up_neg (p : uphase) : uphase :=
    exist _ (rconj (proj1_sig p)) (phase_conj SR _ (proj2_sig p)).
  Definition up_E (p : uphase) : SR := proj1_sig p.

  Definition unit_phases : PhaseAlg SR :=
    mkPhaseAlg SR uphase up_zero up_half up_neg (fun p => p) up_E
               (fun p => proj2_sig p) eq_refl eq_refl (fun p => eq_refl).
End UnitPhases.
