(* The closed form [x_sp] used by the executable standard interpretation of the
   X spider IS the Z spider conjugated by Hadamards on every leg, for all
   arities and every phase:

       X(n, m, a) = Had^{(x)n} ; Z(n, m, a) ; Had^{(x)m}

   (with the normalised Hadamard, 1/sqrt2 [[1, 1], [1, -1]]), and the closed
   form [y_sp] of the Y spider is the Z spider in the eigenbasis of Y.  This
   ties the definitions in ZX.v to the wording of the property. *)
From Coq Require Import List Bool Arith Lia Ring.
Import ListNotations.
Require Import DV.Quantum.Ring DV.Quantum.Matrix DV.Quantum.MatrixLemmas DV.Quantum.Gates DV.Quantum.GatesLemmas.
Require Import DV.ZX.Layers DV.ZX.LayersLemmas DV.ZX.ZX DV.ZX.ZXGates.
Local Open Scope nat_scope.

Section Spiders.
  Variable SR : StarRing.
  Add Ring SRrSp : (SR_ring SR).
  Local Open Scope sr_scope.

  Lemma had_entry : forall x y : bool,
    (had_mat [x] [y] : SR) = risq2 * (if x && y then - (1) else 1).
  Proof. intros [] []; unfold had_mat, mat_of_flat; cbn; ring. Qed.

  (* the rows / columns of Had^{(x)n} at |0..0> and |1..1> *)
  Lemma hadn_row : forall n (i : bits), length i = n ->
    (hadn n i (repeat false n) : SR) = rpow risq2 n
    /\ (hadn n i (repeat true n) : SR) = rpow risq2 n * sgn i.
  Proof.
    induction n as [|n IH]; intros i H; destruct i as [|x i]; try discriminate.
    - cbn. split; ring.
    - injection H as H. destruct (IH i H) as [E0 E1].
      cbn [hadn repeat]. unfold kron. cbn [firstn skipn].
      rewrite !had_entry, E0, E1. cbn [rpow sgn]. destruct x; cbn [andb]; split; ring.
  Qed.

  Lemma hadn_col : forall n (o : bits), length o = n ->
    (hadn n (repeat false n) o : SR) = rpow risq2 n
    /\ (hadn n (repeat true n) o : SR) = rpow risq2 n * sgn o.
  Proof.
    induction n as [|n IH]; intros o H; destruct o as [|y o]; try discriminate.
    - cbn. split; ring.
    - injection H as H. destruct (IH o H) as [E0 E1].
      cbn [hadn repeat]. unfold kron. cbn [firstn skipn].
      rewrite !had_entry, E0, E1. cbn [rpow sgn]. destruct y; cbn [andb]; split; ring.
  Qed.

  Lemma bsum_pick : forall n (c : bits) (f : bits -> SR), length c = n ->
    bsum n (fun y => delta y c * f y) = f c.
  Proof.
    intros n c f H. rewrite <- (bsum_delta_l SR n c f H).
    apply bsum_ext. intros y _. rewrite (delta_sym SR y c). reflexivity.
  Qed.

  Theorem x_sp_is_hadamard_conjugate : forall n m (a : SR),
    meq n m (x_sp n m a) (mmul n (hadn n) (mmul m (z_sp n m a) (hadn m))).
  Proof.
    intros n m a i o Hi Ho.
    destruct (hadn_row n i Hi) as [R0 R1]. destruct (hadn_col m o Ho) as [C0 C1].
    assert (L0 : length (repeat false n) = n) by apply repeat_length.
    assert (L1 : length (repeat true n) = n) by apply repeat_length.
    assert (M0 : length (repeat false m) = m) by apply repeat_length.
    assert (M1 : length (repeat true m) = m) by apply repeat_length.
    assert (Inner : forall x, mmul m (z_sp n m a) (hadn m) x o
              = delta x (repeat false n) * rpow risq2 m
                + a * (delta x (repeat true n) * (rpow risq2 m * sgn o))).
    { intro x. unfold mmul, z_sp.
      rewrite (bsum_ext SR m _
                 (fun y => delta y (repeat false m) * (delta x (repeat false n) * hadn m y o)
                           + delta y (repeat true m) * (a * delta x (repeat true n) * hadn m y o)))
        by (intros y _; ring).
      rewrite bsum_add, (bsum_pick m _ _ M0), (bsum_pick m _ _ M1), C0, C1. ring. }
    unfold mmul at 1.
    rewrite (bsum_ext SR n _
               (fun x => delta x (repeat false n) * (hadn n i x * rpow risq2 m)
                         + delta x (repeat true n) * (hadn n i x * (a * (rpow risq2 m * sgn o)))))
      by (intros x _; rewrite Inner; ring).
    rewrite bsum_add, (bsum_pick n _ _ L0), (bsum_pick n _ _ L1), R0, R1.
    unfold x_sp. rewrite (rpow_add SR), (sgn_app SR). ring.
  Qed.
  (* ---------------------------------------------------------------- the Y spider *)
  Lemma ybasis_entry : forall x y : bool,
    (ybasis_mat [x] [y] : SR)
    = risq2 * (if y then (if x then - ri else ri) else 1).
  Proof. intros [] []; unfold ybasis_mat, mat_of_flat; cbn; ring. Qed.

  (* the rows of V^{(x)n} at |0..0> and |1..1>: the vectors |+i..+i> and |-i..-i> *)
  Lemma ybasisn_row : forall n (o : bits), length o = n ->
    (ybasisn n (repeat false n) o : SR) = rpow risq2 n * ipow false o
    /\ (ybasisn n (repeat true n) o : SR) = rpow risq2 n * ipow true o.
  Proof.
    induction n as [|n IH]; intros o H; destruct o as [|y o]; try discriminate.
    - cbn. split; ring.
    - injection H as H. destruct (IH o H) as [E0 E1].
      cbn [ybasisn repeat]. unfold kron. cbn [firstn skipn].
      rewrite !ybasis_entry, E0, E1. cbn [rpow ipow]. destruct y; split; ring.
  Qed.

  (* Y(n, m, a) = (V^dagger)^{(x)n} ; Z(n, m, a) ; V^{(x)m}, V : |0> -> |+i>, |1> -> |-i> *)
  Theorem y_sp_is_basis_change : forall n m (a : SR),
    meq n m (y_sp n m a) (mmul n (madj (ybasisn n)) (mmul m (z_sp n m a) (ybasisn m))).
  Proof.
    intros n m a i o Hi Ho.
    destruct (ybasisn_row n i Hi) as [R0 R1]. destruct (ybasisn_row m o Ho) as [C0 C1].
    assert (L0 : length (repeat false n) = n) by apply repeat_length.
    assert (L1 : length (repeat true n) = n) by apply repeat_length.
    assert (M0 : length (repeat false m) = m) by apply repeat_length.
    assert (M1 : length (repeat true m) = m) by apply repeat_length.
    assert (Inner : forall x, mmul m (z_sp n m a) (ybasisn m) x o
              = delta x (repeat false n) * (rpow risq2 m * ipow false o)
                + a * (delta x (repeat true n) * (rpow risq2 m * ipow true o))).
    { intro x. unfold mmul, z_sp.
      rewrite (bsum_ext SR m _
                 (fun y => delta y (repeat false m) * (delta x (repeat false n) * ybasisn m y o)
                           + delta y (repeat true m) * (a * delta x (repeat true n) * ybasisn m y o)))
        by (intros y _; ring).
      rewrite bsum_add, (bsum_pick m _ _ M0), (bsum_pick m _ _ M1), C0, C1. ring. }
    unfold mmul at 1.
    rewrite (bsum_ext SR n _
               (fun x => delta x (repeat false n) * (madj (ybasisn n) i x * (rpow risq2 m * ipow false o))
                         + delta x (repeat true n)
                           * (madj (ybasisn n) i x * (a * (rpow risq2 m * ipow true o)))))
      by (intros x _; rewrite Inner; ring).
    rewrite bsum_add, (bsum_pick n _ _ L0), (bsum_pick n _ _ L1).
    unfold madj. rewrite R0, R1, !(conj_mul SR), !(conj_ipow SR).
    rewrite (conj_rpow_real SR risq2 n (conj_isq2 SR)). cbn [negb].
    unfold y_sp. rewrite (rpow_add SR). ring.
  Qed.
End Spiders.
