(* "discopy/quantum/zx.py in Gallina": ZX boxes, ZX diagrams, their dagger,
   gate2zx and circuit2zx exactly as coded, and the STANDARD INTERPRETATION of a
   ZX diagram as a matrix over a StarRing.

   PHASES.  DisCoPy counts every phase in full turns: a circuit rotation
   Rz(p) uses exp(+-i*pi*p) and a spider Z(n, m, p) carries exp(2*pi*i*p).
   Phases are kept SYNTACTIC here (so that circuit2zx can be compared exactly
   with the implementation): a [PhaseAlg] is a type of phases with 0, 1/2 and
   negation (all that zx.py computes with: `.5 * bit`, `-box.phase`, the
   default 0) and an interpretation  pE p = exp(i*pi*p)  into the ring, a unit
   with pE 0 = 1, pE (1/2) = i, pE (-p) = conj (pE p).  The real numbers with
   p |-> exp(i*pi*p) are a model; so are the grid  Z -> Cyc32, k |-> zeta^k
   (k/16 of a turn; ZXProg.v) and the units {e | e * conj e = 1} of any
   StarRing with pE = the identity (ZXLemmas.v), which is how "for every real
   phase" is covered by the theorems.  A spider of phase p has
   exp(2*pi*i*p) = pE p * pE p.

   STANDARD INTERPRETATION ([in, out] index order, as in Quantum/Matrix.v):
     Z(n, m, p) = |0..0><0..0| + e^{2 pi i p} |1..1><1..1|           [z_sp]
     X(n, m, p) = Had^{(x)n} ; Z(n, m, p) ; Had^{(x)m}, in closed form
                  2^{-(n+m)/2} (1 + (-1)^{|i|+|o|} e^{2 pi i p})      [x_sp]
                  (x_sp_is_hadamard_conjugate in ZXLemmas.v)
     Y(n, m, p) = the same in the eigenbasis |+-i> = (|0> +- i|1>)/sqrt2 of Y
     H          = the Hadamard matrix (1/sqrt2 [[1, 1], [1, -1]])
     SWAP       = the permutation matrix,   scalar(z) = z.

   THE CODE IS MODELLED AS IT IS.  In particular gate2zx decomposes CRz(p),
   CRx(p), CU1(p) with spider phases p where p/2 is required (finding F13): see
   [crz_exp], [crx_exp], [cu1_exp] below and ZXLemmas.v.  The named switch
   [defect_F13] selects between this behaviour and the proposed repair.

   Definitions only; proofs are in ZXLemmas.v. *)
From Coq Require Import List Bool Arith ZArith.
Import ListNotations.
Require Import DV.Quantum.Ring DV.Quantum.Matrix DV.Quantum.Gates.
Require Import DV.ZX.Layers.
Local Open Scope nat_scope.

(* a type of phases (in full turns) with its interpretation e = exp(i*pi*p) *)
Record PhaseAlg (SR : StarRing) : Type := mkPhaseAlg {
  ph_car :> Type;
  pzero : ph_car;                                  (* 0 *)
  phalf : ph_car;                                  (* .5 *)
  pneg : ph_car -> ph_car;                         (* -p *)
  phalve : ph_car -> ph_car;                       (* p / 2 (no law: see f13_free_at) *)
  pE : ph_car -> SR;                               (* exp(i*pi*p) *)
  pE_phase : forall p, is_phase (pE p);
  pE_zero : pE pzero = r1;
  pE_half : pE phalf = ri;
  pE_neg : forall p, pE (pneg p) = rconj (pE p)
}.
Arguments pzero {_ _}. Arguments phalf {_ _}. Arguments pneg {_ _}. Arguments phalve {_ _}. Arguments pE {_ _}.

Inductive skind := KZ | KX | KY.                   (* the classes Z, X, Y of zx.py *)

(* THE F13 SWITCH (DESIGN section 5).  true: gate2zx as it is in the pinned code
   (CRz / CRx / CU1 decomposed with `box.phase`).  false: the repaired gate2zx
   proposed in notes/C16.md (`box.phase / 2`, and the corrected CRx diagram).
   Every lemma of ZXLemmas.v is proved for both values, so that flipping the
   switch when the repair lands upstream needs no proof change. *)
Definition defect_F13 : bool := false.

(* what raises out of circuit2zx *)
Inductive zerr := ZKeyError | ZNotImplementedError | ZAxiomError.
Inductive zres (A : Type) := ZOk (a : A) | ZErr (e : zerr).
Arguments ZOk {A}. Arguments ZErr {A}.

Section ZX.
  Variable SR : StarRing.
  Variable PA : PhaseAlg SR.

  (* the data of a zx.Scalar, syntactically:
       SPow2h k   the float 2 ** (k / 2)   (pow(2, -n / 2) of Ket / Bra; 2 ** k of sqrt)
       SImag neg  1j / -1j                 (gate2zx(Y) and its dagger)
       SData z    the data of a circuit scalar, copied *)
  Inductive zscal := SPow2h (k : Z) | SImag (neg : bool) | SData (z : SR).

  Inductive zbox :=
  | ZSpider (k : skind) (n m : nat) (p : PA)       (* Z / X / Y (n_legs_in, n_legs_out, phase) *)
  | ZHad                                           (* H = Had() *)
  | ZSwap                                          (* SWAP = Swap(PRO(1), PRO(1)) *)
  | ZScalar (s : zscal).                           (* scalar(data) *)

  Definition zbox_dom (b : zbox) : nat :=
    match b with ZSpider _ n _ _ => n | ZHad => 1 | ZSwap => 2 | ZScalar _ => 0 end.
  Definition zbox_cod (b : zbox) : nat :=
    match b with ZSpider _ _ m _ => m | ZHad => 1 | ZSwap => 2 | ZScalar _ => 0 end.

  (* Scalar.dagger: Scalar(self.data.conjugate()) *)
  Definition zscal_dagger (s : zscal) : zscal :=
    match s with
    | SPow2h k => SPow2h k
    | SImag neg => SImag (negb neg)
    | SData z => SData (rconj z)
    end.

  (* Spider.dagger: type(self)(len(self.cod), len(self.dom), -self.phase);
     Had.dagger: self;  Swap.dagger: Swap(right, left);  Scalar.dagger *)
  Definition zbox_dagger (b : zbox) : zbox :=
    match b with
    | ZSpider k n m p => ZSpider k m n (pneg p)
    | ZHad => ZHad
    | ZSwap => ZSwap
    | ZScalar s => ZScalar (zscal_dagger s)
    end.

  (* ------------------------------------------------------------ zx.Diagram *)
  Definition zxd := gdiag zbox.
  Definition zid (n : nat) : zxd := gd_id n.                         (* Id(n) *)
  Definition zbox1 (b : zbox) : zxd := gd_box zbox_dom b.            (* a box as a diagram *)
  Definition zthen (a b : zxd) : zxd := gd_then a b.                 (* a >> b *)
  Definition ztensor (a b : zxd) : zxd := gd_tensor zbox_dom zbox_cod a b.   (* a @ b *)
  Definition zdagger (a : zxd) : zxd := gd_dagger zbox_dom zbox_cod zbox_dagger a.   (* a.dagger() *)
  Definition zcod (a : zxd) : option nat := gd_cod zbox_dom zbox_cod a.
  Definition zwf (a : zxd) : bool := gd_wf zbox_dom zbox_cod a.

  (* Python expressions over zx diagrams, as written in gate2zx *)
  Inductive zexp :=
  | EBox (b : zbox)
  | EId (n : nat)
  | EThen (a b : zexp)                             (* a >> b *)
  | ETensor (a b : zexp).                          (* a @ b *)

  Fixpoint edenote (e : zexp) : zxd :=
    match e with
    | EBox b => zbox1 b
    | EId n => zid n
    | EThen a b => zthen (edenote a) (edenote b)
    | ETensor a b => ztensor (edenote a) (edenote b)
    end.

  (* ------------------------------------------------------------ pure circuits, syntactically *)
  (* the boxes of a pure circuit as circuit2zx sees them: the supported gates
     with their phases kept syntactic, and everything else *)
  Inductive qgate :=
  | QH | QX | QZ
  | QY (dag : bool)                                (* Y, and the object Y.dagger() (is_dagger) *)
  | QCX | QCZ | QSwap
  | QRx (p : PA) | QRz (p : PA)
  | QCU1 (p : PA) | QCRz (p : PA) | QCRx (p : PA)
  | QKet (bs : bits) | QBra (bs : bits)
  | QScalar (z : SR)                               (* scalar(z) *)
  | QSqrt (k : Z)                                  (* sqrt(2 ** k): a Scalar subclass *)
  | QMixedScalar                                   (* scalar(z, is_mixed=True) *)
  | QOther (d c : nat).                            (* any other box d -> c: S, T, Ry, Controlled(Z), ... *)

  Definition qdom (g : qgate) : nat :=
    match g with
    | QH | QX | QZ | QY _ | QRx _ | QRz _ => 1
    | QCX | QCZ | QSwap | QCU1 _ | QCRz _ | QCRx _ => 2
    | QKet _ => 0 | QBra bs => length bs
    | QScalar _ | QSqrt _ | QMixedScalar => 0
    | QOther d _ => d
    end.
  Definition qcod (g : qgate) : nat :=
    match g with
    | QH | QX | QZ | QY _ | QRx _ | QRz _ => 1
    | QCX | QCZ | QSwap | QCU1 _ | QCRz _ | QCRx _ => 2
    | QKet bs => length bs | QBra _ => 0
    | QScalar _ | QSqrt _ | QMixedScalar => 0
    | QOther _ c => c
    end.

  Definition qcirc := gdiag qgate.
  Definition qwf (c : qcirc) : bool := gd_wf qdom qcod c.
  Definition qcod0 (c : qcirc) : nat := gd_cod0 qdom qcod c.

  (* ------------------------------------------------------------ gate2zx *)
  Definition spider (k : skind) (n m : nat) (p : PA) : zexp := EBox (ZSpider k n m p).
  Definition escalar (s : zscal) : zexp := EBox (ZScalar s).

  (* Id(0).tensor( *spiders): monoidal.Diagram.tensor folds to the left *)
  Definition tensor_all (es : list zexp) : zexp := fold_left ETensor es (EId 0).

  (*  dom, cod = (1, 0) if isinstance(box, Bra) else (0, 1)
      spiders = [X(dom, cod, phase=.5 * bit) for bit in box.bitstring]
      return Id(0).tensor( *spiders) @ scalar(pow(2, -len(box.bitstring) / 2))  *)
  Definition ketbra_exp (bra : bool) (bs : bits) : zexp :=
    let dom := if bra then 1 else 0 in
    let cod := if bra then 0 else 1 in
    ETensor (tensor_all (map (fun bit : bool => spider KX dom cod (if bit then phalf else pzero)) bs))
            (escalar (SPow2h (- Z.of_nat (length bs))%Z)).

  (*  Z(1, 2) @ Z(1, 2, box.phase) >> Id(1) @ (X(2, 1) >> Z(1, 0, -box.phase)) @ Id(1)  *)
  Definition crz_exp (q : PA) : zexp :=
    EThen (ETensor (spider KZ 1 2 pzero) (spider KZ 1 2 q))
          (ETensor (ETensor (EId 1) (EThen (spider KX 2 1 pzero) (spider KZ 1 0 (pneg q)))) (EId 1)).
  (*  X(1, 2) @ X(1, 2, box.phase) >> Id(1) @ (Z(2, 1) >> X(1, 0, -box.phase)) @ Id(1)  *)
  Definition crx_exp (q : PA) : zexp :=
    EThen (ETensor (spider KX 1 2 pzero) (spider KX 1 2 q))
          (ETensor (ETensor (EId 1) (EThen (spider KZ 2 1 pzero) (spider KX 1 0 (pneg q)))) (EId 1)).
  (*  Z(1, 2, box.phase) @ Z(1, 2, box.phase) >> Id(1) @ (X(2, 1) >> Z(1, 0, -box.phase)) @ Id(1)  *)
  Definition cu1_exp (q : PA) : zexp :=
    EThen (ETensor (spider KZ 1 2 q) (spider KZ 1 2 q))
          (ETensor (ETensor (EId 1) (EThen (spider KX 2 1 pzero) (spider KZ 1 0 (pneg q)))) (EId 1)).

  (* the repaired CRx (switch off), q = box.phase / 2:
       Z(1, 2) @ X(1, 2, box.phase / 2)
       >> Id(1) @ (H @ Id(1) >> Z(2, 1) >> X(1, 0, -box.phase / 2)) @ Id(1)
     the control is copied by a Z spider and a Hadamard sits on the leg towards the
     phase gadget (the coded one has X spiders on the control as well) *)
  Definition crx_fixed_exp (q : PA) : zexp :=
    EThen (ETensor (spider KZ 1 2 pzero) (spider KX 1 2 q))
          (ETensor (ETensor (EId 1)
                      (EThen (EThen (ETensor (EBox ZHad) (EId 1)) (spider KZ 2 1 pzero))
                             (spider KX 1 0 (pneg q))))
                   (EId 1)).

  (*  quantum.Y: Z(1, 1, .5) >> X(1, 1, .5) @ scalar(1j)   (`@` binds tighter than `>>`)  *)
  Definition y_exp : zexp :=
    EThen (spider KZ 1 1 phalf) (ETensor (spider KX 1 1 phalf) (escalar (SImag false))).
  (*  CZ: Z(1, 2) @ Id(1) >> Id(1) @ Had() @ Id(1) >> Id(1) @ Z(2, 1)  *)
  Definition cz_exp : zexp :=
    EThen (EThen (ETensor (spider KZ 1 2 pzero) (EId 1)) (ETensor (ETensor (EId 1) (EBox ZHad)) (EId 1)))
          (ETensor (EId 1) (spider KZ 2 1 pzero)).
  (*  CX: Z(1, 2) @ Id(1) >> Id(1) @ X(2, 1)  *)
  Definition cx_exp : zexp :=
    EThen (ETensor (spider KZ 1 2 pzero) (EId 1)) (ETensor (EId 1) (spider KX 2 1 pzero)).

  (* def gate2zx(box), in the order of its tests; the last line is the lookup
     in the dict standard_gates (KeyError for anything else, e.g. SWAP or a
     daggered Y, which the functor never hands to gate2zx).  [defect] is the F13
     switch: with it off, the spider phases of the controlled rotations are
     box.phase / 2 and -box.phase / 2 (= -(box.phase / 2) exactly, in binary
     floating point) *)
  Definition gate2zx_at (defect : bool) (g : qgate) : zres zexp :=
    match g with
    | QKet bs => ZOk (ketbra_exp false bs)
    | QBra bs => ZOk (ketbra_exp true bs)
    | QRz p => ZOk (spider KZ 1 1 p)
    | QRx p => ZOk (spider KX 1 1 p)
    | QCRz p => ZOk (if defect then crz_exp p else crz_exp (phalve p))
    | QCRx p => ZOk (if defect then crx_exp p else crx_fixed_exp (phalve p))
    | QCU1 p => ZOk (if defect then cu1_exp p else cu1_exp (phalve p))
    | QMixedScalar => ZErr ZNotImplementedError
    | QScalar z => ZOk (escalar (SData z))                   (* scalar(box.data) *)
    | QSqrt k => ZOk (escalar (SPow2h (2 * k)%Z))              (* box.data = 2 ** k, not its root *)
    | QH => ZOk (EBox ZHad)
    | QZ => ZOk (spider KZ 1 1 phalf)
    | QX => ZOk (spider KX 1 1 phalf)
    | QY false => ZOk y_exp
    | QCZ => ZOk cz_exp
    | QCX => ZOk cx_exp
    | QY true | QSwap | QOther _ _ => ZErr ZKeyError
    end.
  Definition gate2zx : qgate -> zres zexp := gate2zx_at defect_F13.

  (* ------------------------------------------------------------ circuit2zx *)
  (* Functor.__call__ on one box of the circuit: monoidal.Functor sends a Swap to
     ar_factory.swap(PRO(1), PRO(1)) = SWAP; cat.Functor sends a box with
     is_dagger to self.ar[box.dagger()].dagger(); otherwise self.ar[box] *)
  Definition c2z_box_at (defect : bool) (g : qgate) : zres zxd :=
    match g with
    | QSwap => ZOk (zbox1 ZSwap)
    | QY true =>
        match gate2zx_at defect (QY false) with
        | ZOk e => ZOk (zdagger (edenote e)) | ZErr x => ZErr x
        end
    | _ => match gate2zx_at defect g with ZOk e => ZOk (edenote e) | ZErr x => ZErr x end
    end.
  Definition c2z_box : qgate -> zres zxd := c2z_box_at defect_F13.

  (* monoidal.Functor.__call__ on a diagram:
       scan, result = diagram.dom, id(F(dom))
       for box, off in zip(boxes, offsets):
           result = result >> id(F(scan[:off])) @ F(box) @ id(F(scan[off + len(box.dom):]))
     with F(qubit) = PRO(1), so that F(scan[:off]) has off wires.  The `>>` always
     composes (gate2zx_arity in ZXLemmas.v). *)
  Fixpoint c2z_loop (defect : bool) (w : nat) (result : zxd) (ls : list (nat * qgate)) : zres zxd :=
    match ls with
    | [] => ZOk result
    | (off, g) :: ls' =>
        match c2z_box_at defect g with
        | ZErr x => ZErr x
        | ZOk fg =>
            let id_l := zid off in
            let id_r := zid (w - (off + qdom g)) in
            c2z_loop defect (w - qdom g + qcod g) (zthen result (ztensor (ztensor id_l fg) id_r)) ls'
        end
    end.

  (* circuit2zx(Circuit(qubit ** n, cod, boxes, offsets)): the constructor
     refuses a box that does not fit (AxiomError) before the functor runs *)
  Definition circuit2zx_at (defect : bool) (c : qcirc) : zres zxd :=
    if qwf c then c2z_loop defect (gd_dom c) (zid (gd_dom c)) (gd_layers c) else ZErr ZAxiomError.
  Definition circuit2zx : qcirc -> zres zxd := circuit2zx_at defect_F13.

  (* ------------------------------------------------------------ the circuit as Gates.v sees it *)
  Definition qgate_box (g : qgate) : box SR :=
    match g with
    | QH => BG1 (G1Named NH false)
    | QX => BG1 (G1Named NX false)
    | QZ => BG1 (G1Named NZ false)
    | QY d => BG1 (G1Named NY d)
    | QCX => BG2 (G2Ctrl (G1Named NX false))
    | QCZ => BG2 G2CZ
    | QSwap => BSwap
    | QRx p => BG1 (G1Rot RRx (pE p))
    | QRz p => BG1 (G1Rot RRz (pE p))
    | QCU1 p => BG2 (G2Rot RCU1 (pE p))
    | QCRz p => BG2 (G2Rot RCRz (pE p))
    | QCRx p => BG2 (G2Rot RCRx (pE p))
    | QKet bs => BKet bs
    | QBra bs => BBra bs
    | QScalar z => BScalar z
    | QSqrt k => BSqrt2 k
    | QMixedScalar | QOther _ _ => BScalar r0              (* not pure / not supported: unused *)
    end.

  Definition supported (g : qgate) : bool :=
    match g with QMixedScalar | QOther _ _ => false | _ => true end.

  (* the pure circuit of Quantum/Gates.v (whose [eval] is Circuit.eval(), C11) *)
  Definition qcirc_circuit (c : qcirc) : circuit SR :=
    Circ (gd_dom c) (map (fun l => (fst l, qgate_box (snd l))) (gd_layers c)).

  (* ------------------------------------------------------------ standard interpretation *)
  Local Open Scope sr_scope.
  (* (-1)^(number of 1s) *)
  Fixpoint sgn (bs : bits) : SR :=
    match bs with [] => 1 | true :: t => - sgn t | false :: t => sgn t end.
  (* (+-i)^(number of 1s) *)
  Fixpoint ipow (neg : bool) (bs : bits) : SR :=
    match bs with
    | [] => 1
    | true :: t => (if neg then - ri else ri) * ipow neg t
    | false :: t => ipow neg t
    end.

  (* a = exp(2*pi*i*phase) *)
  Definition z_sp (n m : nat) (a : SR) : mat SR :=
    fun i o => delta i (repeat false n) * delta o (repeat false m)
               + a * (delta i (repeat true n) * delta o (repeat true m)).
  Definition x_sp (n m : nat) (a : SR) : mat SR :=
    fun i o => rpow risq2 (n + m) * (1 + sgn (i ++ o) * a).
  Definition y_sp (n m : nat) (a : SR) : mat SR :=
    fun i o => rpow risq2 (n + m)
               * (ipow false o * ipow true i + a * (ipow true o * ipow false i)).

  Definition had_mat : mat SR := mat_of_flat (named1_flat NH).
  (* Had^{(x)n} *)
  Fixpoint hadn (n : nat) : mat SR :=
    match n with O => mid | S n' => kron 1 1 had_mat (hadn n') end.
  (* the change of basis Z -> Y eigenbasis on one wire, [in, out]: |0> -> |+i>, |1> -> |-i> *)
  Definition ybasis_mat : mat SR := mat_of_flat [risq2 * 1; risq2 * ri; risq2 * 1; risq2 * (- ri)].
  Fixpoint ybasisn (n : nat) : mat SR :=
    match n with O => mid | S n' => kron 1 1 ybasis_mat (ybasisn n') end.

  Definition zscal_sem (s : zscal) : SR :=
    match s with
    | SPow2h k => sqrt2_pow k
    | SImag neg => if neg then - ri else ri
    | SData z => z
    end.

  Definition spider_sem (k : skind) (n m : nat) (a : SR) : mat SR :=
    match k with KZ => z_sp n m a | KX => x_sp n m a | KY => y_sp n m a end.

  Definition zbox_sem (b : zbox) : mat SR :=
    match b with
    | ZSpider k n m p => spider_sem k n m (pE p * pE p)
    | ZHad => had_mat
    | ZSwap => mat_of_flat swap_flat
    | ZScalar s => fun _ _ => zscal_sem s
    end.

  (* the standard interpretation of a ZX diagram: executable / as a specification *)
  Definition zx_sem (d : zxd) : mat SR := gd_sem zbox_dom zbox_cod zbox_sem d.
  Definition zx_sem_spec (d : zxd) : mat SR := gd_sem_spec zbox_dom zbox_cod zbox_sem d.
  Definition zx_sem_flat (d : zxd) : list SR := gd_sem_flat zbox_dom zbox_cod zbox_sem d.

  (* the interpretation of a Python expression, structurally *)
  Local Close Scope sr_scope.
  Fixpoint edom (e : zexp) : nat :=
    match e with
    | EBox b => zbox_dom b | EId n => n | EThen a _ => edom a | ETensor a b => edom a + edom b
    end.
  Fixpoint ecod (e : zexp) : nat :=
    match e with
    | EBox b => zbox_cod b | EId n => n | EThen _ b => ecod b | ETensor a b => ecod a + ecod b
    end.
  (* every `>>` composes *)
  Fixpoint ewt (e : zexp) : bool :=
    match e with
    | EBox _ | EId _ => true
    | EThen a b => ewt a && ewt b && (ecod a =? edom b)
    | ETensor a b => ewt a && ewt b
    end.
  Fixpoint esem (e : zexp) : mat SR :=
    match e with
    | EBox b => zbox_sem b
    | EId _ => mid
    | EThen a b => mmul (ecod a) (esem a) (esem b)
    | ETensor a b => kron (edom a) (ecod a) (esem a) (esem b)
    end.

  (* ------------------------------------------------------------ the scalar factor *)
  (* zx_sem (gate2zx g) = gate_lam g * eval g *)
  Local Open Scope sr_scope.
  Definition gate_lam (g : qgate) : SR :=
    match g with
    | QRx p | QRz p => pE p
    | QCX | QCZ | QCU1 _ | QCRz _ | QCRx _ => risq2
    | QSqrt k => sqrt2_pow k
    | _ => 1
    end.
  Definition circ_lam (ls : list (nat * qgate)) : SR :=
    fold_right (fun l acc => gate_lam (snd l) * acc) 1 ls.

  (* F13: where the decompositions of the controlled rotations are right.
     As coded (switch on): CRz(p), CRx(p) only when exp(i*pi*p) = 1 (p an even
     integer), CU1(p) only when exp(2*pi*i*p) = 1 (p an integer).
     Repaired (switch off): whenever [phalve p] really is half of p, i.e.
     exp(2*pi*i*(p/2)) = exp(i*pi*p): always for real phases; on the grid k/16
     for even k (the check generates the phases of controlled rotations on
     multiples of 1/8 turn for this reason). *)
  Definition f13_free_at (defect : bool) (g : qgate) : Prop :=
    match g with
    | QCRz p | QCRx p =>
        if defect then pE p = 1 else pE (phalve p) * pE (phalve p) = pE p
    | QCU1 p =>
        if defect then pE p * pE p = 1 else pE (phalve p) * pE (phalve p) = pE p
    | _ => True
    end.
  Definition f13_free : qgate -> Prop := f13_free_at defect_F13.
End ZX.

Arguments SPow2h {_}. Arguments SImag {_}. Arguments SData {_}.
Arguments ZSpider {_ _}. Arguments ZHad {_ _}. Arguments ZSwap {_ _}. Arguments ZScalar {_ _}.
Arguments EBox {_ _}. Arguments EId {_ _}. Arguments EThen {_ _}. Arguments ETensor {_ _}.
Arguments QH {_ _}. Arguments QX {_ _}. Arguments QZ {_ _}. Arguments QY {_ _}.
Arguments QCX {_ _}. Arguments QCZ {_ _}. Arguments QSwap {_ _}.
Arguments QRx {_ _}. Arguments QRz {_ _}. Arguments QCU1 {_ _}. Arguments QCRz {_ _}. Arguments QCRx {_ _}.
Arguments QKet {_ _}. Arguments QBra {_ _}. Arguments QScalar {_ _}. Arguments QSqrt {_ _}.
Arguments QMixedScalar {_ _}. Arguments QOther {_ _}.
Arguments zbox_dom {_ _}. Arguments zbox_cod {_ _}. Arguments zscal_dagger {_}. Arguments zbox_dagger {_ _}.
Arguments zid {_ _}. Arguments zbox1 {_ _}. Arguments zthen {_ _}. Arguments ztensor {_ _}.
Arguments zdagger {_ _}. Arguments zcod {_ _}. Arguments zwf {_ _}. Arguments edenote {_ _}.
Arguments qdom {_ _}. Arguments qcod {_ _}. Arguments qwf {_ _}. Arguments qcod0 {_ _}.
Arguments spider {_ _}. Arguments escalar {_ _}. Arguments tensor_all {_ _}. Arguments ketbra_exp {_ _}.
Arguments crz_exp {_ _}. Arguments crx_exp {_ _}. Arguments cu1_exp {_ _}. Arguments y_exp {_ _}.
Arguments cz_exp {_ _}. Arguments cx_exp {_ _}. Arguments crx_fixed_exp {_ _}. Arguments gate2zx_at {_ _}. Arguments gate2zx {_ _}. Arguments c2z_box_at {_ _}. Arguments c2z_box {_ _}.
Arguments c2z_loop {_ _}. Arguments circuit2zx_at {_ _}. Arguments circuit2zx {_ _}. Arguments qgate_box {_ _}. Arguments supported {_ _}.
Arguments qcirc_circuit {_ _}. Arguments sgn {_}. Arguments ipow {_}. Arguments z_sp {_}. Arguments x_sp {_}.
Arguments y_sp {_}. Arguments had_mat {_}. Arguments hadn {_}. Arguments ybasis_mat {_}. Arguments ybasisn {_}.
Arguments zscal_sem {_}. Arguments spider_sem {_}. Arguments zbox_sem {_ _}. Arguments zx_sem {_ _}.
Arguments zx_sem_spec {_ _}. Arguments zx_sem_flat {_ _}. Arguments edom {_ _}. Arguments ecod {_ _}.
Arguments ewt {_ _}. Arguments esem {_ _}. Arguments gate_lam {_ _}. Arguments circ_lam {_ _}.
Arguments f13_free_at {_ _}. Arguments f13_free {_ _}.
Arguments zbox {_} _. Arguments zexp {_} _. Arguments qgate {_} _. Arguments zxd {_} _. Arguments qcirc {_} _.
