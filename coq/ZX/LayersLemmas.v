(* Lemmas about layered diagrams over an arbitrary box type (Layers.v):
   the executable evaluation computes the ordered product, composition is the
   matrix product, the tensor is the Kronecker product, a diagram placed at an
   offset is the whiskered diagram, the dagger is the conjugate transpose
   (given that it is so box by box), scalar factors move through everything.

   These are the box-type-independent versions of Quantum/CircuitLemmas.v and
   Quantum/TensorLemmas.v (which are stated for Gates' boxes only); the matrix
   facts all come from Quantum/MatrixLemmas.v. *)
From Coq Require Import List Bool Arith Lia Ring.
Import ListNotations.
Require Import DV.Quantum.Ring DV.Quantum.Matrix DV.Quantum.MatrixLemmas.
Require Import DV.ZX.Layers.
Local Open Scope nat_scope.

(* ------------------------------------------------------------------ scalars *)
Section ScaleLemmas.
  Variable SR : StarRing.
  Add Ring SRrS : (SR_ring SR).
  Local Open Scope sr_scope.
  Implicit Types (A B : mat SR) (a b c : SR).

  Lemma meq_dims : forall m n m' n' A B, m = m' -> n = n' -> meq m n A B -> meq m' n' A B.
  Proof. intros; subst; assumption. Qed.

  Lemma mscale_mmul : forall k a b A B i o,
    mmul k (mscale a A) (mscale b B) i o = mscale (a * b) (mmul k A B) i o.
  Proof.
    intros. unfold mmul, mscale. rewrite <- bsum_scale_l.
    apply bsum_ext. intros x _. ring.
  Qed.

  Lemma mscale_mmul_l : forall k a A B i o,
    mmul k (mscale a A) B i o = mscale a (mmul k A B) i o.
  Proof.
    intros. unfold mmul, mscale. rewrite <- bsum_scale_l.
    apply bsum_ext. intros x _. ring.
  Qed.

  Lemma mscale_mmul_r : forall k a A B i o,
    mmul k A (mscale a B) i o = mscale a (mmul k A B) i o.
  Proof.
    intros. unfold mmul, mscale. rewrite <- bsum_scale_l.
    apply bsum_ext. intros x _. ring.
  Qed.

  Lemma mscale_whisker : forall l m n c A i o,
    whisker l m n (mscale c A) i o = mscale c (whisker l m n A) i o.
  Proof. intros. unfold whisker, kron, mscale. ring. Qed.

  Lemma mscale_kron : forall m n a b A B i o,
    kron m n (mscale a A) (mscale b B) i o = mscale (a * b) (kron m n A B) i o.
  Proof. intros. unfold kron, mscale. ring. Qed.

  Lemma mscale_one : forall A i o, mscale 1 A i o = A i o.
  Proof. intros. unfold mscale. ring. Qed.

  Lemma mscale_mscale : forall a b A i o, mscale a (mscale b A) i o = mscale (a * b) A i o.
  Proof. intros. unfold mscale. ring. Qed.

  Lemma madj_mscale : forall c A i o, madj (mscale c A) i o = mscale (rconj c) (madj A) i o.
  Proof. intros. unfold madj, mscale. apply conj_mul. Qed.

  (* units: the scalar factors of C16 *)
  Definition is_unit (c : SR) : Prop := exists u, c * u = 1.

  Lemma unit_one : is_unit 1.
  Proof. exists 1. ring. Qed.

  Lemma unit_mul : forall a b, is_unit a -> is_unit b -> is_unit (a * b).
  Proof.
    intros a b [u Hu] [v Hv]. exists (u * v).
    transitivity ((a * u) * (b * v)); [ring|]. rewrite Hu, Hv. ring.
  Qed.

  Lemma unit_phase : forall e, is_phase e -> is_unit e.
  Proof. intros e He. exists (rconj e). exact He. Qed.

  Lemma unit_isq2 : is_unit (risq2 : SR).
  Proof. exists rsqrt2. rewrite <- (sqrt2_isq2 SR). ring. Qed.

  Lemma unit_sqrt2 : is_unit (rsqrt2 : SR).
  Proof. exists risq2. apply sqrt2_isq2. Qed.

  Lemma unit_rpow : forall a n, is_unit a -> is_unit (rpow a n).
  Proof. induction n; intro H; cbn; [apply unit_one | apply unit_mul; auto]. Qed.

  (* a unit of a non-trivial ring is not zero *)
  Lemma unit_nonzero : (1 : SR) <> 0 -> forall c, is_unit c -> c <> 0.
  Proof.
    intros H10 c [u Hu] Hc. apply H10. rewrite <- Hu, Hc. ring.
  Qed.

  (* regrouping of whisker: id_off (x) (A (x) id_r) *)
  Lemma whisker_as_kron : forall off m n r A,
    meq (off + m + r) (off + n + r)
        (whisker off m n A) (kron off off mid (kron m n A mid)).
  Proof.
    intros off m n r A. unfold whisker.
    apply (meq_dims (off + m + r) (off + n + r)); [lia | lia |].
    apply kron_assoc.
  Qed.

  Lemma whisker_0 : forall m n A, meq m n (whisker 0 m n A) A.
  Proof.
    intros m n A i o <- <-. unfold whisker, kron, mid. cbn [Nat.add firstn skipn].
    rewrite !firstn_all, !skipn_all. rewrite !delta_refl. ring.
  Qed.
End ScaleLemmas.

Arguments is_unit {_}.

(* ------------------------------------------------------------------ layers *)
Section LayersLemmas.
  Variable SR : StarRing.
  Add Ring SRrL : (SR_ring SR).
  Variable B : Type.
  Variables (bdom bcod : B -> nat).
  Variable bsem : B -> mat SR.

  Notation layers := (list (nat * B)).
  Notation run := (grun bdom bcod).
  Notation step := (gstep bdom bcod).
  Notation lmat := (glayer_mat bdom bcod bsem).
  Notation lp := (glprod bdom bcod bsem).
  Notation diag := (gdiag B).
  Notation wf := (gd_wf bdom bcod).
  Notation cod0 := (gd_cod0 bdom bcod).
  Notation sem := (gd_sem bdom bcod bsem).
  Notation spec := (gd_sem_spec bdom bcod bsem).
  Implicit Types (ls : layers) (l : nat * B) (A : mat SR) (d : diag).

  Lemma grun_cons : forall w l ls w2, run w (l :: ls) = Some w2 ->
    fst l + bdom (snd l) <= w /\ run (step w l) ls = Some w2.
  Proof.
    intros w [off b] ls w2 H. cbn in H. destruct (off + bdom b <=? w) eqn:E; [|discriminate].
    apply Nat.leb_le in E. split; [exact E | exact H].
  Qed.

  Lemma grun_cons_intro : forall w l ls w2, fst l + bdom (snd l) <= w ->
    run (step w l) ls = Some w2 -> run w (l :: ls) = Some w2.
  Proof.
    intros w [off b] ls w2 Hf H. cbn [grun]. cbn [fst snd] in Hf.
    apply Nat.leb_le in Hf. rewrite Hf. exact H.
  Qed.

  Lemma grun_app : forall ls1 ls2 w w1, run w ls1 = Some w1 ->
    run w (ls1 ++ ls2) = run w1 ls2.
  Proof.
    induction ls1 as [|[off b] ls1 IH]; intros ls2 w w1 H; cbn in *.
    - injection H as ->. reflexivity.
    - destruct (off + bdom b <=? w); [|discriminate]. apply IH, H.
  Qed.

  Lemma glayer_dims : forall w l, fst l + bdom (snd l) <= w ->
    exists r, w = fst l + bdom (snd l) + r /\ step w l = fst l + bcod (snd l) + r.
  Proof. intros w l H. exists (w - fst l - bdom (snd l)). unfold gstep. lia. Qed.

  (* ---------------------------------------------------------------- evaluation *)
  Lemma geval_layers_lprod : forall fz, (forall m n A, meq m n (fz m n A) A) ->
    forall ls n w w2 acc acc0, run w ls = Some w2 -> meq n w acc acc0 ->
    meq n w2 (geval_layers bdom bcod bsem fz n w acc ls) (mmul w acc0 (lp w ls)).
  Proof.
    intros fz Hfz. induction ls as [|l ls IH]; intros n w w2 acc acc0 Hw Hacc.
    - cbn in Hw. injection Hw as <-. cbn.
      eapply meq_trans; [exact Hacc | apply meq_sym, mmul_id_r].
    - apply grun_cons in Hw as [Hfit Hw]. cbn [geval_layers glprod].
      eapply meq_trans.
      + apply (IH n (step w l) w2 _ (mmul w acc0 (lmat l)) Hw).
        eapply meq_trans; [apply Hfz|]. apply mmul_compat; [exact Hacc | apply Hfz].
      + intros i o _ _. apply mmul_assoc.
  Qed.

  Lemma wf_run : forall d, wf d = true -> run (gd_dom d) (gd_layers d) = Some (cod0 d).
  Proof.
    intros d H. unfold gd_wf, gd_cod0, gd_cod in *.
    destruct (run (gd_dom d) (gd_layers d)); [reflexivity | discriminate].
  Qed.

  Lemma run_wf : forall d w, run (gd_dom d) (gd_layers d) = Some w -> wf d = true /\ cod0 d = w.
  Proof. intros d w H. unfold gd_wf, gd_cod0, gd_cod. rewrite H. split; reflexivity. Qed.

  (* the executable evaluation computes the ordered product *)
  Lemma gd_sem_is_spec : forall d, wf d = true ->
    meq (gd_dom d) (cod0 d) (sem d) (spec d).
  Proof.
    intros d Hwf. pose proof (wf_run d Hwf) as E.
    unfold gd_sem, gd_sem_spec. eapply meq_trans.
    - apply (geval_layers_lprod mfreeze (@mfreeze_eq SR) _ _ _ _ _ mid E). apply mfreeze_eq.
    - apply mmul_id_l.
  Qed.

  (* ---------------------------------------------------------------- composition *)
  Lemma glprod_app : forall ls1 ls2 w w1 w2, run w ls1 = Some w1 ->
    run w1 ls2 = Some w2 ->
    meq w w2 (lp w (ls1 ++ ls2)) (mmul w1 (lp w ls1) (lp w1 ls2)).
  Proof.
    induction ls1 as [|l ls1 IH]; intros ls2 w w1 w2 H1 H2.
    - cbn in H1. injection H1 as <-. cbn. apply meq_sym, mmul_id_l.
    - apply grun_cons in H1 as [Hfit H1]. cbn [glprod app].
      eapply meq_trans.
      + apply mmul_compat; [apply meq_refl | apply (IH ls2 _ w1 w2 H1 H2)].
      + intros i o _ _. symmetry. apply mmul_assoc.
  Qed.

  (* ---------------------------------------------------------------- idle wires on the right *)
  Lemma kron_pad_right : forall m n r k A,
    meq (m + r + k) (n + r + k)
        (kron m n A mid) (kron (m + r) (n + r) (kron m n A mid) mid).
  Proof.
    intros m n r k A. apply meq_sym.
    eapply meq_trans; [apply kron_assoc|].
    apply (meq_dims SR (m + (r + k)) (n + (r + k))); [lia | lia |].
    apply kron_compat; [apply meq_refl | apply kron_id].
  Qed.

  Lemma whisker_shift : forall k j m n r A,
    meq (k + (j + m + r)) (k + (j + n + r))
        (whisker (k + j) m n A) (kron k k mid (whisker j m n A)).
  Proof.
    intros k j m n r A. unfold whisker.
    apply (meq_dims SR (k + j + m + r) (k + j + n + r)); [lia | lia |].
    eapply meq_trans.
    { apply kron_compat; [|apply meq_refl].
      eapply meq_trans; [apply kron_compat; [apply meq_sym, kron_id | apply meq_refl]|].
      apply kron_assoc. }
    replace (k + j + m) with (k + (j + m)) by lia.
    replace (k + j + n) with (k + (j + n)) by lia.
    apply kron_assoc.
  Qed.

  Lemma grun_pad : forall ls w w2 k, run w ls = Some w2 -> run (w + k) ls = Some (w2 + k).
  Proof.
    induction ls as [|[off b] ls IH]; intros w w2 k H; cbn in *.
    - injection H as <-. reflexivity.
    - destruct (off + bdom b <=? w) eqn:E; [|discriminate]. apply Nat.leb_le in E.
      replace (off + bdom b <=? w + k) with true by (symmetry; apply Nat.leb_le; lia).
      replace (w + k - bdom b + bcod b) with (w - bdom b + bcod b + k) by lia.
      apply IH, H.
  Qed.

  Lemma glayer_pad_right : forall w l k, fst l + bdom (snd l) <= w ->
    meq (w + k) (step w l + k) (lmat l) (kron w (step w l) (lmat l) mid).
  Proof.
    intros w l k Hfit. destruct (glayer_dims w l Hfit) as (r & Hw & Hs).
    rewrite Hs. clear Hs. subst w. unfold glayer_mat, whisker. apply kron_pad_right.
  Qed.

  Lemma gstep_pad : forall w l k, fst l + bdom (snd l) <= w -> step (w + k) l = step w l + k.
  Proof. intros. unfold gstep. lia. Qed.

  Lemma glprod_pad_right : forall ls w w2 k, run w ls = Some w2 ->
    meq (w + k) (w2 + k) (lp (w + k) ls) (kron w w2 (lp w ls) mid).
  Proof.
    induction ls as [|l ls IH]; intros w w2 k H.
    - cbn in H. injection H as <-. cbn [glprod]. apply meq_sym, kron_id.
    - apply grun_cons in H as [Hfit H]. cbn [glprod].
      rewrite (gstep_pad w l k Hfit).
      eapply meq_trans.
      { apply mmul_compat; [apply (glayer_pad_right w l k Hfit) | apply (IH _ _ k H)]. }
      eapply meq_trans; [apply kron_mixed|].
      apply kron_compat; [apply meq_refl | apply mmul_id_l].
  Qed.

  (* ---------------------------------------------------------------- idle wires on the left *)
  Lemma grun_shift : forall ls w w2 k, run w ls = Some w2 ->
    run (k + w) (gshift k ls) = Some (k + w2).
  Proof.
    induction ls as [|[off b] ls IH]; intros w w2 k H; cbn in *.
    - injection H as <-. reflexivity.
    - destruct (off + bdom b <=? w) eqn:E; [|discriminate]. apply Nat.leb_le in E.
      replace (k + off + bdom b <=? k + w) with true by (symmetry; apply Nat.leb_le; lia).
      replace (k + w - bdom b + bcod b) with (k + (w - bdom b + bcod b)) by lia.
      apply IH, H.
  Qed.

  Lemma glayer_pad_left : forall w l k, fst l + bdom (snd l) <= w ->
    meq (k + w) (k + step w l) (lmat (k + fst l, snd l)) (kron k k mid (lmat l)).
  Proof.
    intros w l k Hfit. destruct (glayer_dims w l Hfit) as (r & Hw & Hs).
    rewrite Hs. clear Hs. subst w. unfold glayer_mat. cbn [fst snd]. apply whisker_shift.
  Qed.

  Lemma gstep_shift : forall w l k, fst l + bdom (snd l) <= w ->
    step (k + w) (k + fst l, snd l) = k + step w l.
  Proof. intros. unfold gstep. cbn [snd]. lia. Qed.

  Lemma glprod_pad_left : forall ls w w2 k, run w ls = Some w2 ->
    meq (k + w) (k + w2) (lp (k + w) (gshift k ls)) (kron k k mid (lp w ls)).
  Proof.
    induction ls as [|l ls IH]; intros w w2 k H.
    - cbn in H. injection H as <-. cbn [gshift map glprod]. apply meq_sym, kron_id.
    - apply grun_cons in H as [Hfit H]. cbn [gshift map glprod].
      fold (gshift k ls).
      rewrite (gstep_shift w l k Hfit).
      eapply meq_trans.
      { apply mmul_compat; [apply (glayer_pad_left w l k Hfit) | apply (IH _ _ k H)]. }
      eapply meq_trans; [apply kron_mixed|].
      apply kron_compat; [apply mmul_id_l | apply meq_refl].
  Qed.

  (* ---------------------------------------------------------------- a @ b *)
  Lemma gtensor_run : forall la lb da db wa wb,
    run da la = Some wa -> run db lb = Some wb ->
    run (da + db) (la ++ gshift wa lb) = Some (wa + wb).
  Proof.
    intros la lb da db wa wb Ha Hb.
    rewrite (grun_app _ _ _ _ (grun_pad _ _ _ db Ha)).
    apply grun_shift, Hb.
  Qed.

  Lemma glprod_tensor : forall la lb da db wa wb,
    run da la = Some wa -> run db lb = Some wb ->
    meq (da + db) (wa + wb) (lp (da + db) (la ++ gshift wa lb))
        (kron da wa (lp da la) (lp db lb)).
  Proof.
    intros la lb da db wa wb Ha Hb.
    eapply meq_trans.
    { apply (glprod_app _ _ _ _ _ (grun_pad _ _ _ db Ha) (grun_shift _ _ _ wa Hb)). }
    eapply meq_trans.
    { apply mmul_compat; [apply (glprod_pad_right _ _ _ _ Ha) | apply (glprod_pad_left _ _ _ _ Hb)]. }
    eapply meq_trans; [apply kron_mixed|].
    apply kron_compat; [apply mmul_id_r | apply mmul_id_l].
  Qed.

  (* ---------------------------------------------------------------- a diagram placed at an offset *)
  Lemma grun_place : forall ls m n off r, run m ls = Some n ->
    run (off + m + r) (gshift off ls) = Some (off + n + r).
  Proof.
    intros ls m n off r H.
    replace (off + m + r) with (off + (m + r)) by lia.
    replace (off + n + r) with (off + (n + r)) by lia.
    apply grun_shift, grun_pad, H.
  Qed.

  Lemma glprod_place : forall ls m n off r, run m ls = Some n ->
    meq (off + m + r) (off + n + r)
        (lp (off + m + r) (gshift off ls)) (whisker off m n (lp m ls)).
  Proof.
    intros ls m n off r H.
    apply meq_sym. eapply meq_trans; [apply whisker_as_kron|]. apply meq_sym.
    apply (meq_dims SR (off + (m + r)) (off + (n + r))); [lia | lia |].
    replace (off + m + r) with (off + (m + r)) by lia.
    eapply meq_trans; [apply (glprod_pad_left _ _ _ off (grun_pad _ _ _ r H))|].
    apply kron_compat; [apply meq_refl|].
    apply (glprod_pad_right _ _ _ r H).
  Qed.

  (* ---------------------------------------------------------------- diagram level *)
  Lemma gd_id_wf : forall n, wf (gd_id n) = true /\ cod0 (gd_id n) = n.
  Proof. intro n. split; reflexivity. Qed.

  Lemma gd_id_spec : forall n, meq n n (spec (gd_id n)) mid.
  Proof. intro n. apply meq_refl. Qed.

  Lemma gd_box_wf : forall b, wf (gd_box bdom b) = true /\ cod0 (gd_box bdom b) = bcod b.
  Proof.
    intro b. unfold gd_wf, gd_cod0, gd_cod, gd_box. cbn [gd_dom gd_layers grun].
    rewrite Nat.add_0_l, Nat.leb_refl, Nat.sub_diag. split; reflexivity.
  Qed.

  Lemma gd_box_spec : forall b, meq (bdom b) (bcod b) (spec (gd_box bdom b)) (bsem b).
  Proof.
    intro b. unfold gd_sem_spec, gd_box. cbn [gd_dom gd_layers glprod].
    unfold gstep. cbn [snd]. rewrite Nat.sub_diag, Nat.add_0_l.
    eapply meq_trans; [apply mmul_id_r|]. unfold glayer_mat. cbn [fst snd]. apply whisker_0.
  Qed.

  Lemma gd_then_wf : forall a b, wf a = true -> wf b = true -> cod0 a = gd_dom b ->
    wf (gd_then a b) = true /\ gd_dom (gd_then a b) = gd_dom a /\ cod0 (gd_then a b) = cod0 b.
  Proof.
    intros a b Ha Hb Hm.
    pose proof (wf_run a Ha) as Ea. pose proof (wf_run b Hb) as Eb.
    assert (E : run (gd_dom (gd_then a b)) (gd_layers (gd_then a b)) = Some (cod0 b)).
    { cbn [gd_then gd_dom gd_layers]. rewrite (grun_app _ _ _ _ Ea), Hm. exact Eb. }
    destruct (run_wf _ _ E) as [W C]. auto.
  Qed.

  Lemma gd_then_spec : forall a b, wf a = true -> wf b = true -> cod0 a = gd_dom b ->
    meq (gd_dom a) (cod0 b) (spec (gd_then a b)) (mmul (cod0 a) (spec a) (spec b)).
  Proof.
    intros a b Ha Hb Hm.
    pose proof (wf_run a Ha) as Ea. pose proof (wf_run b Hb) as Eb.
    unfold gd_sem_spec. cbn [gd_then gd_dom gd_layers]. rewrite <- Hm in Eb |- *.
    apply (glprod_app _ _ _ _ _ Ea Eb).
  Qed.

  Lemma gd_tensor_wf : forall a b, wf a = true -> wf b = true ->
    wf (gd_tensor bdom bcod a b) = true
    /\ gd_dom (gd_tensor bdom bcod a b) = gd_dom a + gd_dom b
    /\ cod0 (gd_tensor bdom bcod a b) = cod0 a + cod0 b.
  Proof.
    intros a b Ha Hb.
    pose proof (gtensor_run _ _ _ _ _ _ (wf_run a Ha) (wf_run b Hb)) as E.
    destruct (run_wf (gd_tensor bdom bcod a b) _ E) as [W C].
    split; [exact W|]. split; [reflexivity | exact C].
  Qed.

  Lemma gd_tensor_spec : forall a b, wf a = true -> wf b = true ->
    meq (gd_dom a + gd_dom b) (cod0 a + cod0 b)
        (spec (gd_tensor bdom bcod a b)) (kron (gd_dom a) (cod0 a) (spec a) (spec b)).
  Proof.
    intros a b Ha Hb. unfold gd_sem_spec. cbn [gd_tensor gd_dom gd_layers].
    apply (glprod_tensor _ _ _ _ _ _ (wf_run a Ha) (wf_run b Hb)).
  Qed.

  (* ---------------------------------------------------------------- dagger *)
  Section Dagger.
    Variable bdag : B -> B.
    Hypothesis bdag_dom : forall b, bdom (bdag b) = bcod b.
    Hypothesis bdag_cod : forall b, bcod (bdag b) = bdom b.
    Hypothesis bdag_sem : forall b, meq (bcod b) (bdom b) (bsem (bdag b)) (madj (bsem b)).

    Notation dagl := (gdag_layers bdag).

    Lemma gstep_dagger : forall w l, fst l + bdom (snd l) <= w ->
      step (step w l) (fst l, bdag (snd l)) = w
      /\ fst l + bdom (bdag (snd l)) <= step w l.
    Proof.
      intros w [off b] H. unfold gstep. cbn [fst snd] in *.
      rewrite bdag_dom, bdag_cod. lia.
    Qed.

    Lemma grun_dagger : forall ls w w2, run w ls = Some w2 -> run w2 (dagl ls) = Some w.
    Proof.
      induction ls as [|l ls IH]; intros w w2 H.
      - cbn in *. congruence.
      - apply grun_cons in H as [Hfit H]. unfold gdag_layers. cbn [map rev].
        fold (dagl ls). rewrite (grun_app _ _ _ _ (IH _ _ H)).
        destruct (gstep_dagger w l Hfit) as [Hs Hf].
        apply (grun_cons_intro _ (fst l, bdag (snd l)) [] w); [exact Hf|].
        rewrite Hs. reflexivity.
    Qed.

    Lemma glayer_dagger : forall w l, fst l + bdom (snd l) <= w ->
      meq (step w l) w (lmat (fst l, bdag (snd l))) (madj (lmat l)).
    Proof.
      intros w [off b] Hfit. cbn [fst snd] in *.
      destruct (glayer_dims w (off, b) Hfit) as (r & Hw & Hs). cbn [fst snd] in *.
      rewrite Hs. rewrite Hw at 1.
      unfold glayer_mat. cbn [fst snd]. rewrite bdag_dom, bdag_cod.
      eapply meq_trans.
      - apply whisker_compat, bdag_sem.
      - intros i o _ _. symmetry. apply madj_whisker.
    Qed.

    Lemma glprod_dagger : forall ls w w2, run w ls = Some w2 ->
      meq w2 w (lp w2 (dagl ls)) (madj (lp w ls)).
    Proof.
      induction ls as [|l ls IH]; intros w w2 H.
      - cbn in H. injection H as <-. cbn. intros i o _ _. symmetry. apply madj_id.
      - apply grun_cons in H as [Hfit H].
        pose proof (IH _ _ H) as IH'.
        pose proof (grun_dagger _ _ _ H) as Hd.
        destruct (gstep_dagger w l Hfit) as [Hs Hf].
        unfold gdag_layers. cbn [map rev]. fold (dagl ls).
        assert (H1 : run (step w l) [(fst l, bdag (snd l))] = Some w).
        { apply grun_cons_intro; [exact Hf|]. rewrite Hs. reflexivity. }
        eapply meq_trans; [apply (glprod_app _ _ _ _ _ Hd H1)|].
        cbn [glprod]. rewrite Hs.
        eapply meq_trans.
        + apply mmul_compat; [exact IH'|].
          eapply meq_trans; [apply mmul_id_r|]. apply (glayer_dagger w l Hfit).
        + intros i o _ _. symmetry. apply madj_mmul.
    Qed.

    Lemma gd_dagger_wf : forall d, wf d = true ->
      wf (gd_dagger bdom bcod bdag d) = true
      /\ gd_dom (gd_dagger bdom bcod bdag d) = cod0 d
      /\ cod0 (gd_dagger bdom bcod bdag d) = gd_dom d.
    Proof.
      intros d H. pose proof (wf_run d H) as E.
      pose proof (grun_dagger _ _ _ E) as Hd.
      destruct (run_wf (gd_dagger bdom bcod bdag d) _ Hd) as [W C].
      split; [exact W|]. split; [reflexivity | exact C].
    Qed.

    Lemma gd_dagger_spec : forall d, wf d = true ->
      meq (cod0 d) (gd_dom d) (spec (gd_dagger bdom bcod bdag d)) (madj (spec d)).
    Proof.
      intros d H. unfold gd_sem_spec. cbn [gd_dagger gd_dom gd_layers].
      apply glprod_dagger, wf_run, H.
    Qed.

    (* d.dagger() evaluates to the conjugate transpose, for the executable evaluation *)
    Lemma gd_dagger_sem : forall d, wf d = true ->
      meq (cod0 d) (gd_dom d) (sem (gd_dagger bdom bcod bdag d)) (madj (sem d)).
    Proof.
      intros d H. destruct (gd_dagger_wf d H) as (W & D & C).
      pose proof (gd_sem_is_spec _ W) as E1. rewrite D, C in E1.
      eapply meq_trans; [exact E1|].
      eapply meq_trans; [apply gd_dagger_spec, H|].
      apply madj_compat, meq_sym, gd_sem_is_spec, H.
    Qed.
  End Dagger.
End LayersLemmas.
