(* Layered diagrams on qubit wires over an arbitrary box type, and their
   interpretation as matrices over a StarRing.

   This is the common shape of `Circuit` (Quantum/Gates.v: circuit, lprod, eval)
   and of `zx.Diagram` (ZX.v): a domain width and a list of (offset, box)
   layers.  Everything here is parametrised by the box type [B], its arities
   [bdom], [bcod] and the matrix [bsem] of a box ([in, out] index order, as
   everywhere in Quantum/); ZX.v instantiates it with ZX boxes, ZXLemmas.v shows
   that the instance at Gates' boxes is Gates' own [lprod].

     gd_then / gd_tensor / gd_dagger   monoidal.Diagram.then / tensor / dagger
                                       (boxes concatenated; the right operand of
                                       a tensor shifted by len(self.cod); the
                                       dagger reverses the layers box by box)
     glprod                            the ordered product of the whiskered boxes
                                       id_off (x) box (x) id_rest  (specification)
     gd_sem                            the same fold with every intermediate array
                                       materialised (executable)

   Definitions only; proofs are in LayersLemmas.v. *)
From Coq Require Import List Bool Arith.
Import ListNotations.
Require Import DV.Quantum.Ring DV.Quantum.Matrix.
Local Open Scope nat_scope.

Section Layers.
  Variable SR : StarRing.
  Variable B : Type.
  Variables (bdom bcod : B -> nat).
  Variable bsem : B -> mat SR.
  Variable bdag : B -> B.

  Definition glayers := list (nat * B).

  (* a diagram: domain width and (offset, box) layers *)
  Record gdiag := GD { gd_dom : nat; gd_layers : glayers }.

  (* width after the layers; None when a box does not fit at its offset *)
  Fixpoint grun (w : nat) (ls : glayers) : option nat :=
    match ls with
    | [] => Some w
    | (off, b) :: ls' =>
        if off + bdom b <=? w then grun (w - bdom b + bcod b) ls' else None
    end.

  Definition gd_cod (d : gdiag) : option nat := grun (gd_dom d) (gd_layers d).
  Definition gd_cod0 (d : gdiag) : nat := match gd_cod d with Some n => n | None => 0 end.
  Definition gd_wf (d : gdiag) : bool := match gd_cod d with Some _ => true | None => false end.

  Definition gshift (k : nat) (ls : glayers) : glayers := map (fun l => (k + fst l, snd l)) ls.

  Definition gd_id (n : nat) : gdiag := GD n [].
  Definition gd_box (b : B) : gdiag := GD (bdom b) [(0, b)].
  (* self >> other (the check cod = dom is the caller's: see ZX.v) *)
  Definition gd_then (a b : gdiag) : gdiag := GD (gd_dom a) (gd_layers a ++ gd_layers b).
  (* self @ other *)
  Definition gd_tensor (a b : gdiag) : gdiag :=
    GD (gd_dom a + gd_dom b) (gd_layers a ++ gshift (gd_cod0 a) (gd_layers b)).
  (* self.dagger() *)
  Definition gdag_layers (ls : glayers) : glayers := rev (map (fun l => (fst l, bdag (snd l))) ls).
  Definition gd_dagger (a : gdiag) : gdiag := GD (gd_cod0 a) (gdag_layers (gd_layers a)).

  (* ------------------------------------------------------------ semantics *)
  Definition gstep (w : nat) (l : nat * B) : nat := w - bdom (snd l) + bcod (snd l).

  (* id_off (x) box (x) id_rest *)
  Definition glayer_mat (l : nat * B) : mat SR :=
    whisker (fst l) (bdom (snd l)) (bcod (snd l)) (bsem (snd l)).

  (* the ordered product of the whiskered boxes, from w wires *)
  Fixpoint glprod (w : nat) (ls : glayers) : mat SR :=
    match ls with
    | [] => mid
    | l :: ls' => mmul (gstep w l) (glayer_mat l) (glprod (gstep w l) ls')
    end.

  (* the same fold, left to right, with [fz m n A] re-tabulating the m -> n
     matrix A (executable version) or the identity (specification version) *)
  Fixpoint geval_layers (fz : nat -> nat -> mat SR -> mat SR)
           (n w : nat) (acc : mat SR) (ls : glayers) : mat SR :=
    match ls with
    | [] => acc
    | l :: ls' =>
        let w' := gstep w l in
        geval_layers fz n w' (fz n w' (mmul w acc (fz w w' (glayer_mat l)))) ls'
    end.

  Definition gd_sem_spec (d : gdiag) : mat SR := glprod (gd_dom d) (gd_layers d).
  Definition gd_sem (d : gdiag) : mat SR :=
    geval_layers mfreeze (gd_dom d) (gd_dom d) (mfreeze (gd_dom d) (gd_dom d) mid) (gd_layers d).
  (* the flat array (shape (2,)*(dom+cod), C order, axes [in..., out...]) *)
  Definition gd_sem_flat (d : gdiag) : list SR :=
    tflat (mat_tab (gd_dom d) (gd_cod0 d) (gd_sem d)).
End Layers.

Arguments GD {_}. Arguments gd_dom {_}. Arguments gd_layers {_}.
Arguments grun {_}. Arguments gd_cod {_}. Arguments gd_cod0 {_}. Arguments gd_wf {_}.
Arguments gshift {_}. Arguments gd_id {_}. Arguments gd_box {_}. Arguments gd_then {_}.
Arguments gd_tensor {_}. Arguments gdag_layers {_}. Arguments gd_dagger {_}.
Arguments gstep {_}. Arguments glayer_mat {_ _}. Arguments glprod {_ _}.
Arguments geval_layers {_ _}. Arguments gd_sem_spec {_ _}. Arguments gd_sem {_ _}.
Arguments gd_sem_flat {_ _}.
