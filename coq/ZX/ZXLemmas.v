(* Second half of the proofs about the ZX model (first half: ZXGates.v).

     - Ket / Bra of every bitstring (induction over the bitstring through the
       left fold of `Id(0).tensor( *spiders)`);
     - c2z_box_ok: for every box the functor accepts, its image is well-typed,
       has the arity of the box, and denotes gate_lam * eval(box) wherever the
       box is free of finding F13;
     - c2z_loop_ok / circuit2zx_arity / circuit2zx_sound: the functor loop, by
       induction over the layers of the circuit (functoriality): one unit
       circ_lam for the whole circuit;
     - circuit2zx_sound is stated against Gates.v's [eval] (the model of
       Circuit.eval() validated by C11). *)
From Coq Require Import List Bool Arith ZArith Lia Ring.
Import ListNotations.
Require Import DV.Common.Base.
Require Import DV.Quantum.Ring DV.Quantum.Matrix DV.Quantum.MatrixLemmas DV.Quantum.Gates
               DV.Quantum.GatesLemmas DV.Quantum.CircuitLemmas.
Require Import DV.ZX.Layers DV.ZX.LayersLemmas DV.ZX.ZX DV.ZX.ZXGates.
Local Open Scope nat_scope.

Section ZXLemmas.
  Variable SR : StarRing.
  Variable PA : PhaseAlg SR.
  Add Ring SRrZ2 : (SR_ring SR).
  Local Open Scope sr_scope.
  Implicit Types (e : zexp PA) (b : zbox PA) (g : qgate PA) (d : zxd PA) (p q : PA) (A : mat SR).

  Notation zdom := (@zbox_dom SR PA).
  Notation zcodb := (@zbox_cod SR PA).
  Notation zsem := (@zbox_sem SR PA).
  Notation zcod0 := (gd_cod0 zdom zcodb).
  Notation spec := (@zx_sem_spec SR PA).
  Notation qrun := (grun (@qdom SR PA) (@qcod SR PA)).

  Let Hi := i_sq SR.

  (* ================================================================ Ket and Bra *)
  Definition kb_spider (bra : bool) (bit : bool) : zexp PA :=
    spider KX (if bra then 1 else 0)%nat (if bra then 0 else 1)%nat (if bit then phalf else pzero).

  Lemma ketbra_exp_unfold : forall bra bs,
    ketbra_exp bra bs
    = ETensor (fold_left ETensor (map (kb_spider bra) bs) (EId 0))
              (escalar (SPow2h (- Z.of_nat (length bs))%Z)).
  Proof. reflexivity. Qed.

  Lemma x_entry : forall (bit x : bool),
    x_sp 1 0 (pE (if bit then @phalf SR PA else pzero) * pE (if bit then @phalf SR PA else pzero)) [x] []
    = rsqrt2 * delta [x] [bit]
    /\ x_sp 0 1 (pE (if bit then @phalf SR PA else pzero) * pE (if bit then @phalf SR PA else pzero)) [] [x]
    = rsqrt2 * delta [x] [bit].
  Proof.
    intros bit x. destruct bit, x; rewrite ?pE_half, ?pE_zero;
      unfold x_sp, delta, rsqrt2, rtwo; cbn; split; ring [Hi].
  Qed.

  Lemma skipn_cons_len : forall (T : Type) (c : nat) (o : list T) (k : nat), length o = (c + S k)%nat ->
    exists x t, skipn c o = x :: t /\ length t = k.
  Proof.
    intros T c o k H. destruct (skipn c o) as [|x t] eqn:E.
    - pose proof (skipn_length c o) as L. rewrite E in L. cbn in L. lia.
    - exists x, t. split; [reflexivity|].
      pose proof (skipn_length c o) as L. rewrite E in L. cbn in L. lia.
  Qed.

  Lemma fold_ket : forall bs (acc : zexp PA) c, edom acc = 0%nat -> ecod acc = c ->
    let F := fold_left ETensor (map (kb_spider false) bs) acc in
    edom F = 0%nat /\ ecod F = (c + length bs)%nat /\ ewt F = ewt acc
    /\ forall o, length o = (c + length bs)%nat ->
         esem F [] o = esem acc [] (firstn c o) * (rpow rsqrt2 (length bs) * delta (skipn c o) bs).
  Proof.
    induction bs as [|bit bs IH]; intros acc c Hd Hc; cbn zeta; cbn [map fold_left length].
    - split; [exact Hd|]. split; [lia|]. split; [reflexivity|].
      intros o Ho. rewrite firstn_all2 by lia. rewrite skipn_all2 by lia.
      rewrite delta_refl. cbn [rpow]. ring.
    - assert (Hd' : edom (ETensor acc (kb_spider false bit)) = 0%nat) by (cbn; lia).
      assert (Hc' : ecod (ETensor acc (kb_spider false bit)) = (c + 1)%nat) by (cbn; lia).
      destruct (IH _ _ Hd' Hc') as (D & C & W & S).
      split; [exact D|]. split; [lia|].
      split; [rewrite W; cbn; rewrite andb_true_r; reflexivity|].
      intros o Ho. rewrite S by lia.
      cbn [esem]. unfold kron. rewrite Hd, Hc. cbn [firstn skipn].
      rewrite firstn_firstn_add, skipn_firstn_add, skipn_add.
      destruct (skipn_cons_len _ c o (length bs) Ho) as (x & t & E & Lt). rewrite E.
      cbn [firstn skipn].
      unfold kb_spider, spider. cbn [esem zbox_sem spider_sem].
      rewrite (proj2 (x_entry bit x)).
      change (x :: t) with ([x] ++ t). change (bit :: bs) with ([bit] ++ bs).
      rewrite (delta_app SR [x] t [bit] bs eq_refl). cbn [rpow]. ring.
  Qed.

  Lemma fold_bra : forall bs (acc : zexp PA) c, edom acc = c -> ecod acc = 0%nat ->
    let F := fold_left ETensor (map (kb_spider true) bs) acc in
    edom F = (c + length bs)%nat /\ ecod F = 0%nat /\ ewt F = ewt acc
    /\ forall i, length i = (c + length bs)%nat ->
         esem F i [] = esem acc (firstn c i) [] * (rpow rsqrt2 (length bs) * delta (skipn c i) bs).
  Proof.
    induction bs as [|bit bs IH]; intros acc c Hd Hc; cbn zeta; cbn [map fold_left length].
    - split; [lia|]. split; [exact Hc|]. split; [reflexivity|].
      intros o Ho. rewrite firstn_all2 by lia. rewrite skipn_all2 by lia.
      rewrite delta_refl. cbn [rpow]. ring.
    - assert (Hd' : edom (ETensor acc (kb_spider true bit)) = (c + 1)%nat) by (cbn; lia).
      assert (Hc' : ecod (ETensor acc (kb_spider true bit)) = 0%nat) by (cbn; lia).
      destruct (IH _ _ Hd' Hc') as (D & C & W & S).
      split; [lia|]. split; [exact C|].
      split; [rewrite W; cbn; rewrite andb_true_r; reflexivity|].
      intros i Hi'. rewrite S by lia.
      cbn [esem]. unfold kron. rewrite Hd, Hc. cbn [firstn skipn].
      rewrite firstn_firstn_add, skipn_firstn_add, skipn_add.
      destruct (skipn_cons_len _ c i (length bs) Hi') as (x & t & E & Lt). rewrite E.
      cbn [firstn skipn].
      unfold kb_spider, spider. cbn [esem zbox_sem spider_sem].
      rewrite (proj1 (x_entry bit x)).
      change (x :: t) with ([x] ++ t). change (bit :: bs) with ([bit] ++ bs).
      rewrite (delta_app SR [x] t [bit] bs eq_refl). cbn [rpow]. ring.
  Qed.

  Lemma ket_exp_ok : forall bs,
    ewt (@ketbra_exp SR PA false bs) = true /\ edom (@ketbra_exp SR PA false bs) = 0%nat
    /\ ecod (@ketbra_exp SR PA false bs) = length bs
    /\ meq 0 (length bs) (esem (@ketbra_exp SR PA false bs)) (mscale 1 (box_eval (BKet bs))).
  Proof.
    intro bs. rewrite ketbra_exp_unfold.
    destruct (fold_ket bs (EId 0) 0%nat eq_refl eq_refl) as (D & C & W & S). cbn zeta in *.
    split; [cbn [ewt]; rewrite W; reflexivity|].
    split; [cbn [edom escalar zbox_dom]; rewrite D; reflexivity|].
    split; [cbn [ecod escalar zbox_cod]; rewrite C; lia|].
    intros i o Hi' Ho. destruct i; [|discriminate].
    cbn [esem]. unfold kron. rewrite D, C. cbn [firstn skipn Nat.add].
    rewrite firstn_all2 by lia.
    rewrite S by (cbn; lia). cbn [esem firstn skipn].
    unfold escalar. cbn [esem zbox_sem zscal_sem]. unfold mscale, mid. cbn [box_eval app].
    rewrite delta_refl.
    transitivity (rpow rsqrt2 (length bs) * sqrt2_pow (- Z.of_nat (length bs)) * delta o bs : SR); [ring|].
    rewrite sqrt2_pow_neg_nat. ring.
  Qed.

  Lemma bra_exp_ok : forall bs,
    ewt (@ketbra_exp SR PA true bs) = true /\ edom (@ketbra_exp SR PA true bs) = length bs
    /\ ecod (@ketbra_exp SR PA true bs) = 0%nat
    /\ meq (length bs) 0 (esem (@ketbra_exp SR PA true bs)) (mscale 1 (box_eval (BBra bs))).
  Proof.
    intro bs. rewrite ketbra_exp_unfold.
    destruct (fold_bra bs (EId 0) 0%nat eq_refl eq_refl) as (D & C & W & S). cbn zeta in *.
    split; [cbn [ewt]; rewrite W; reflexivity|].
    split; [cbn [edom escalar zbox_dom]; rewrite D; lia|].
    split; [cbn [ecod escalar zbox_cod]; rewrite C; reflexivity|].
    intros i o Hi' Ho. destruct o; [|discriminate].
    cbn [esem]. unfold kron. rewrite D, C. cbn [firstn skipn Nat.add].
    rewrite firstn_all2 by lia.
    rewrite S by (cbn; lia). cbn [esem firstn skipn].
    unfold escalar. cbn [esem zbox_sem zscal_sem]. unfold mscale, mid. cbn [box_eval].
    rewrite app_nil_r, delta_refl.
    transitivity (rpow rsqrt2 (length bs) * sqrt2_pow (- Z.of_nat (length bs)) * delta i bs : SR); [ring|].
    rewrite sqrt2_pow_neg_nat. ring.
  Qed.

  (* ================================================================ one box of the circuit *)
  Lemma exp_case : forall e m n lam M, ewt e = true -> edom e = m -> ecod e = n ->
    meq m n (esem e) (mscale lam M) ->
    zwf (edenote e) = true /\ gd_dom (edenote e) = m /\ zcod0 (edenote e) = n
    /\ meq m n (spec (edenote e)) (mscale lam M).
  Proof.
    intros e m n lam M W D C E. destruct (esem_ok SR PA e W) as (W' & D' & C' & E').
    split; [exact W'|]. split; [congruence|]. split; [congruence|].
    subst m n. eapply meq_trans; [exact E' | exact E].
  Qed.

  Lemma sqrt_exp_sem : forall k,
    meq 0 0 (esem (escalar (SPow2h (2 * k)%Z) : zexp PA)) (mscale (sqrt2_pow k) (box_eval (BSqrt2 k))).
  Proof.
    intros k i o _ _. unfold escalar, mscale. cbn [esem zbox_sem zscal_sem box_eval].
    apply sqrt2_pow_double.
  Qed.

  Lemma scalar_exp_sem : forall z : SR,
    meq 0 0 (esem (escalar (SData z) : zexp PA)) (mscale 1 (box_eval (BScalar z))).
  Proof.
    intros z i o _ _. unfold escalar, mscale. cbn [esem zbox_sem zscal_sem box_eval]. ring.
  Qed.

  (* F(box) for every box the functor accepts: well-typed, the arity of the box, and --
     where the box is free of F13 -- the evaluation of the box up to the unit gate_lam *)
  Lemma c2z_box_ok : forall (df : bool) g d, c2z_box_at df g = ZOk d ->
    zwf d = true /\ gd_dom d = qdom g /\ zcod0 d = qcod g
    /\ (f13_free_at df g ->
        meq (qdom g) (qcod g) (spec d) (mscale (gate_lam g) (box_eval (qgate_box g)))).
  Proof.
    intros df g d H.
    assert (K : forall e m n lam M, ewt e = true -> edom e = m -> ecod e = n ->
              (f13_free_at df g -> meq m n (esem e) (mscale lam M)) ->
              zwf (edenote e) = true /\ gd_dom (edenote e) = m /\ zcod0 (edenote e) = n
              /\ (f13_free_at df g -> meq m n (spec (edenote e)) (mscale lam M))).
    { intros e m n lam M W D C E. destruct (esem_ok SR PA e W) as (W' & D' & C' & E').
      split; [exact W'|]. split; [congruence|]. split; [congruence|].
      intro F. subst m n. eapply meq_trans; [exact E' | exact (E F)]. }
    destruct g as [ | | |[]| | | |p|p|p|p|p|bs|bs|z|k| |dd cc];
      cbn [c2z_box_at gate2zx_at] in H; try discriminate H; injection H as <-;
      cbn [qdom qcod gate_lam].
    - (* H *) apply (K (EBox ZHad)); try reflexivity. intros _. apply h_exp_sem.
    - (* X *) apply (K (spider KX 1 1 phalf)); try reflexivity. intros _. apply x_exp_sem.
    - (* Z *) apply (K (spider KZ 1 1 phalf)); try reflexivity. intros _. apply z_exp_sem.
    - (* Y.dagger() *)
      destruct (esem_ok SR PA (@y_exp SR PA) eq_refl) as (W' & D' & C' & E').
      destruct (zx_dagger_wf SR PA _ W') as (Wd & Dd & Cd).
      split; [exact Wd|]. split; [exact (eq_trans Dd C')|].
      split; [exact (eq_trans Cd D')|]. intros _.
      pose proof (zx_dagger_spec SR PA _ W') as E. rewrite C', D' in E.
      eapply meq_trans; [exact E|].
      eapply meq_trans; [apply madj_compat, E'|]. apply y_exp_dagger_sem.
    - (* Y *) apply (K y_exp); try reflexivity. intros _. apply y_exp_sem.
    - (* CX *) apply (K cx_exp); try reflexivity. intros _. apply cx_exp_sem.
    - (* CZ *) apply (K cz_exp); try reflexivity. intros _. apply cz_exp_sem.
    - (* SWAP *)
      destruct (gd_box_wf _ zdom zcodb (@ZSwap SR PA)) as [W C].
      split; [exact W|]. split; [reflexivity|]. split; [exact C|]. intros _.
      eapply meq_trans; [apply (gd_box_spec SR _ zdom zcodb zsem (@ZSwap SR PA))|].
      intros i o _ _. unfold mscale. cbn [zbox_sem qgate_box box_eval]. ring.
    - (* Rx *) apply (K (spider KX 1 1 p)); try reflexivity. intros _. apply rx_exp_sem.
    - (* Rz *) apply (K (spider KZ 1 1 p)); try reflexivity. intros _. apply rz_exp_sem.
    - (* CU1 *) destruct df.
      + apply (K (cu1_exp p)); try reflexivity. cbn [f13_free_at]. intro F.
        pose proof (cu1_exp_sem SR PA p) as X. cbn [qgate_box].
        intros i o Hi' Ho. rewrite (X i o Hi' Ho). unfold mscale. f_equal.
        clear X. cbn in Hi', Ho. dbits; unfold box_eval, gate2_eval, mat_of_flat; cbn;
          try reflexivity; rewrite F; ring.
      + apply (K (cu1_exp (phalve p))); try reflexivity. cbn [f13_free_at]. intro F.
        pose proof (cu1_exp_sem SR PA (phalve p)) as X. cbn [qgate_box]. rewrite F in X. exact X.
    - (* CRz *) destruct df.
      + apply (K (crz_exp p)); try reflexivity. cbn [f13_free_at]. intro F.
        pose proof (crz_exp_sem SR PA p) as X. cbn [qgate_box].
        replace (pE p * pE p) with (pE p) in X by (rewrite F; ring). exact X.
      + apply (K (crz_exp (phalve p))); try reflexivity. cbn [f13_free_at]. intro F.
        pose proof (crz_exp_sem SR PA (phalve p)) as X. cbn [qgate_box]. rewrite F in X. exact X.
    - (* CRx *) destruct df.
      + apply (K (crx_exp p)); try reflexivity. cbn [f13_free_at]. intro F.
        pose proof (crx_exp_sem_trivial SR PA p F) as X. cbn [qgate_box]. rewrite F. exact X.
      + apply (K (crx_fixed_exp (phalve p))); try reflexivity. cbn [f13_free_at]. intro F.
        pose proof (crx_fixed_exp_sem SR PA (phalve p)) as X. cbn [qgate_box]. rewrite F in X. exact X.
    - (* Ket *) destruct (ket_exp_ok bs) as (W & D & C & E). apply (K (ketbra_exp false bs)); auto.
    - (* Bra *) destruct (bra_exp_ok bs) as (W & D & C & E). apply (K (ketbra_exp true bs)); auto.
    - (* scalar *) apply (K (escalar (SData z))); try reflexivity. intros _. apply scalar_exp_sem.
    - (* sqrt *) apply (K (escalar (SPow2h (2 * k)%Z))); try reflexivity. intros _. apply sqrt_exp_sem.
  Qed.

  Lemma c2z_box_supported : forall (df : bool) g d, c2z_box_at df g = ZOk d -> supported g = true.
  Proof. intros df g d H. destruct g as [ | | |[]| | | |p|p|p|p|p|bs|bs|z|k| |dd cc]; cbn in H |- *; congruence. Qed.

  Lemma qgate_box_dom : forall g, supported g = true -> box_dom (qgate_box g) = qdom g.
  Proof. destruct g; cbn; intros; try reflexivity; discriminate. Qed.
  Lemma qgate_box_cod : forall g, supported g = true -> box_cod (qgate_box g) = qcod g.
  Proof. destruct g; cbn; intros; try reflexivity; discriminate. Qed.

  Lemma gate_lam_unit : forall g, is_unit (gate_lam g).
  Proof.
    destruct g; cbn [gate_lam]; try apply unit_one; try apply unit_isq2;
      try (apply unit_phase, pE_phase). apply unit_sqrt2_pow.
  Qed.

  Lemma circ_lam_unit : forall ls : list (nat * qgate PA), is_unit (circ_lam ls).
  Proof.
    induction ls as [|l ls IH]; cbn [circ_lam fold_right]; [apply unit_one|].
    apply unit_mul; [apply gate_lam_unit | exact IH].
  Qed.

  (* ================================================================ the functor loop *)
  Definition qb (l : nat * qgate PA) : nat * box SR := (fst l, qgate_box (snd l)).

  Lemma step_algebra : forall n w w' w2 (a mu : SR) A L P X Y,
    meq n w' X (mmul w A (mscale a L)) ->
    meq n w2 Y (mscale mu (mmul w' X P)) ->
    meq n w2 Y (mscale (a * mu) (mmul w A (mmul w' L P))).
  Proof.
    intros n w w' w2 a mu A L P X Y H1 H2.
    eapply meq_trans; [exact H2|].
    eapply meq_trans.
    { apply mscale_compat. apply mmul_compat; [exact H1 | apply meq_refl]. }
    intros i o _ _. unfold mscale at 1. rewrite mmul_assoc.
    transitivity (mu * mmul w A (mscale a (mmul w' L P)) i o).
    { f_equal. unfold mmul at 1 3. apply bsum_ext. intros x _. rewrite mscale_mmul_l. reflexivity. }
    rewrite mscale_mmul_r. unfold mscale. ring.
  Qed.

  Lemma c2z_loop_ok : forall (df : bool) ls w w2 (acc d : zxd PA),
    qrun w ls = Some w2 -> zwf acc = true -> zcod0 acc = w ->
    c2z_loop df w acc ls = ZOk d ->
    zwf d = true /\ gd_dom d = gd_dom acc /\ zcod0 d = w2
    /\ (forall l, In l ls -> supported (snd l) = true)
    /\ ((forall l, In l ls -> f13_free_at df (snd l)) ->
        meq (gd_dom acc) w2 (spec d)
            (mscale (circ_lam ls) (mmul w (spec acc) (lprod w (map qb ls))))).
  Proof.
    intro df. induction ls as [|[off g] ls IH]; intros w w2 acc d Hrun Wacc Cacc H.
    - cbn in Hrun, H. injection Hrun as <-. injection H as <-.
      split; [exact Wacc|]. split; [reflexivity|]. split; [exact Cacc|].
      split; [intros l []|]. intros _. cbn [map lprod circ_lam fold_right].
      intros i o Hi' Ho. rewrite mscale_one. symmetry. exact (mmul_id_r SR (gd_dom acc) w (spec acc) i o Hi' Ho).
    - apply grun_cons in Hrun as [Hfit Hrun]. cbn [fst snd] in Hfit. unfold gstep in Hrun. cbn [snd] in Hrun.
      cbn [c2z_loop] in H. destruct (c2z_box_at df g) as [fg|] eqn:Eb; [|discriminate H].
      destruct (c2z_box_ok df g fg Eb) as (Wf & Df & Cf & Sf).
      pose proof (c2z_box_supported df g fg Eb) as Sup.
      set (r := (w - (off + qdom g))%nat) in *.
      destruct (gd_id_wf _ zdom zcodb off) as [Wl Cl]. destruct (gd_id_wf _ zdom zcodb r) as [Wr Cr].
      destruct (gd_tensor_wf _ zdom zcodb _ _ Wl Wf) as (W1 & D1 & C1).
      destruct (gd_tensor_wf _ zdom zcodb _ _ W1 Wr) as (W2 & D2 & C2).
      fold (@zid SR PA off) in *. fold (@zid SR PA r) in *.
      fold (ztensor (zid off) fg) in *. fold (ztensor (ztensor (zid off) fg) (zid r)) in *.
      set (WW := ztensor (ztensor (zid off) fg) (zid r)) in *.
      assert (DW : gd_dom WW = w).
      { rewrite D2, D1, Df. unfold zid. cbn [gd_id gd_dom]. subst r. lia. }
      assert (CW : zcod0 WW = (w - qdom g + qcod g)%nat).
      { rewrite C2, C1, Cl, Cr, Cf. subst r. lia. }
      assert (Hmid : zcod0 acc = gd_dom WW) by congruence.
      destruct (gd_then_wf _ zdom zcodb _ _ Wacc W2 Hmid) as (W3 & D3 & C3).
      fold (zthen acc WW) in *.
      destruct (IH _ _ _ _ Hrun W3 (eq_trans C3 CW) H) as (Wd & Dd & Cd & Sd & Ed).
      split; [exact Wd|]. split; [congruence|]. split; [exact Cd|].
      split; [intros l [<-|Hl]; [exact Sup | apply Sd, Hl]|].
      intro F. cbn [map circ_lam fold_right lprod]. change (qb (off, g)) with (off, qgate_box g). cbn [fst snd].
      assert (Hstep : step_w w (off, qgate_box g) = (w - qdom g + qcod g)%nat).
      { unfold step_w. cbn [snd]. rewrite qgate_box_dom, qgate_box_cod by exact Sup. reflexivity. }
      rewrite !Hstep.
      rewrite D3 in Ed.
      apply (step_algebra (gd_dom acc) w (w - qdom g + qcod g) w2 (gate_lam g) (circ_lam ls)
               (spec acc) (layer_mat (off, qgate_box g)) _ (spec (zthen acc WW)) (spec d)).
      + (* spec (acc >> WW) = spec acc ; gate_lam * layer *)
        pose proof (gd_then_spec SR _ zdom zcodb zsem _ _ Wacc W2 Hmid) as E.
        fold (zthen acc WW) in E. rewrite CW, Cacc in E.
        eapply meq_trans; [exact E|]. apply mmul_compat; [apply meq_refl|].
        (* spec WW = whisker off (spec fg) *)
        pose proof (gd_tensor_spec SR _ zdom zcodb zsem _ _ W1 Wr) as E2.
        pose proof (gd_tensor_spec SR _ zdom zcodb zsem _ _ Wl Wf) as E1.
        fold (ztensor (zid off) fg) in E1, E2. fold (ztensor (ztensor (zid off) fg) (zid r)) in E2.
        fold WW in E2. rewrite D1, C1, Cl, Cr, Df, Cf in E2. rewrite Cl, Df, Cf in E1.
        unfold zid in E1, E2. cbn [gd_id gd_dom] in E1, E2.
        assert (Hw : w = (off + qdom g + r)%nat) by (subst r; lia).
        assert (Hw' : (w - qdom g + qcod g)%nat = (off + qcod g + r)%nat) by (subst r; lia).
        rewrite Hw'. rewrite Hw at 1.
        eapply meq_trans; [exact E2|].
        eapply meq_trans.
        { apply kron_compat; [|apply meq_refl].
          eapply meq_trans; [exact E1|].
          apply kron_compat; [apply meq_refl | apply Sf, (F (off, g)); left; reflexivity]. }
        intros i o _ _.
        refine (eq_trans (mscale_whisker SR off (qdom g) (qcod g) (gate_lam g) (box_eval (qgate_box g)) i o) _).
        unfold layer_mat. cbn [fst snd].
        rewrite qgate_box_dom, qgate_box_cod by exact Sup. reflexivity.
      + apply Ed. intros l Hl. apply F. right. exact Hl.
  Qed.

  Lemma run_width_map : forall (ls : list (nat * qgate PA)) w,
    (forall l, In l ls -> supported (snd l) = true) ->
    run_width w (map qb ls) = qrun w ls.
  Proof.
    induction ls as [|[off g] ls IH]; intros w Hs; [reflexivity|].
    cbn [map qb fst snd run_width grun].
    rewrite qgate_box_dom, qgate_box_cod by (apply (Hs (off, g)); left; reflexivity).
    destruct (off + qdom g <=? w); [|reflexivity].
    apply IH. intros l Hl. apply Hs. right. exact Hl.
  Qed.

  (* ================================================================ circuit2zx *)
  Lemma circuit2zx_ok : forall (df : bool) (c : qcirc PA) d, circuit2zx_at df c = ZOk d ->
    qwf c = true /\ zwf d = true /\ gd_dom d = gd_dom c /\ zcod0 d = qcod0 c
    /\ wf_circuit (qcirc_circuit c) = true /\ cod_or0 (qcirc_circuit c) = qcod0 c
    /\ ((forall l, In l (gd_layers c) -> f13_free_at df (snd l)) ->
        meq (gd_dom c) (qcod0 c) (zx_sem d)
            (mscale (circ_lam (gd_layers c)) (eval (qcirc_circuit c)))).
  Proof.
    intros df c d H. unfold circuit2zx_at in H. destruct (qwf c) eqn:Wc; [|discriminate H].
    pose proof (wf_run _ (@qdom SR PA) (@qcod SR PA) c Wc) as Rc.
    fold (qcod0 c) in Rc.
    destruct (gd_id_wf _ zdom zcodb (gd_dom c)) as [Wi Ci].
    destruct (c2z_loop_ok df _ _ _ _ _ Rc Wi Ci H) as (Wd & Dd & Cd & Sd & Ed).
    assert (Rw : run_width (gd_dom c) (map qb (gd_layers c)) = Some (qcod0 c))
      by (rewrite run_width_map by exact Sd; exact Rc).
    assert (Wq : wf_circuit (qcirc_circuit c) = true).
    { unfold wf_circuit, c_cod, qcirc_circuit. cbn [c_dom c_layers]. fold qb. rewrite Rw. reflexivity. }
    assert (Cq : cod_or0 (qcirc_circuit c) = qcod0 c).
    { unfold cod_or0, c_cod, qcirc_circuit. cbn [c_dom c_layers]. fold qb. rewrite Rw. reflexivity. }
    split; [reflexivity|]. split; [exact Wd|]. split; [exact Dd|]. split; [exact Cd|].
    split; [exact Wq|]. split; [exact Cq|].
    intro F.
    pose proof (gd_sem_is_spec SR _ zdom zcodb zsem d Wd) as E1. rewrite Dd, Cd in E1.
    eapply meq_trans; [exact E1|].
    eapply meq_trans; [apply (Ed F)|].
    unfold zid. cbn [gd_id gd_dom].
    apply mscale_compat.
    eapply meq_trans; [apply mmul_id_l|].
    pose proof (eval_is_lprod SR _ Wq) as E2. rewrite Cq in E2.
    apply meq_sym. exact E2.
  Qed.
End ZXLemmas.

Arguments qb {_ _}.
