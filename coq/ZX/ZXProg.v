(* The program DSL of the C16 correspondence check, its interpreter over the ZX
   model (ZX.v) instantiated at Cyc32 and the grid phases (ZXGrid.v), and the
   wire codec.

   WIRE FORMAT (nested integer lists).

   phase   an integer k stands for the phase k/16 (full turns, as DisCoPy counts
           them, for circuit rotations and for spiders alike)
   box     the boxes of a pure circuit, in the encoding of the C11 engine
           (Quantum/GatesProg.v):
           (0 g dag) g = 0..5 for H S T X Y Z, dag = 1: the object G.dagger()
           (1 r k)   r = 0..2 for Rx Ry Rz        (2) CZ
           (3 gate1) Controlled(gate1); (3 (0 3 0)) is CX
           (4 r k)   r = 0..2 for CU1 CRz CRx     (5) SWAP
           (6 bits) Ket   (7 bits) Bra   (8 (n0..n15) d) scalar(sum_j n_j/d zeta^j)
           (9 k) sqrt(2 ** k)   (10 (n0..n15) d) scalar(..., is_mixed=True)
           S, T, their daggers, Ry and Controlled(g) for g other than X are the
           boxes gate2zx does not know (KeyError).
   zbox    (0 kind n m k) kind = 0 1 2 for Z X Y, the spider kind(n, m, k/16)
           (1) H   (2) SWAP   (3 scal) scalar
   scal    (0 k) the float 2 ** (k/2)   (1 neg) 1j / -1j   (2 (n0..n15) d) data
   prog    (0 n ((off box) ...))    circuit2zx(Circuit(qubit ** n, cod, boxes, offsets))
           (1 n ((off zbox) ...))   zx.Diagram(PRO(n), cod, boxes, offsets).dagger()
           (2 n ((off zbox) ...))   the standard interpretation of that ZX diagram
   answer  (0 (dom cod ((off zbox) ...)) ok)   prog 0: the ZX diagram, and ok = 1 iff
                 its standard interpretation is EXACTLY proportional, with a non-zero
                 factor, to the evaluation of the circuit (both computed in Cyc32)
           (0 (dom cod ((off zbox) ...)))      prog 1
           (0 (dom cod (entry ...)))           prog 2: flat array [in..., out...], entries
                 sparse exact Cyc32 elements (d (j n) ...) as in GatesProg.v
           (1 code)  1 AxiomError, 6 NotImplementedError, 8 BadProgram, 20 KeyError

   Definitions only. *)
From Coq Require Import List Bool Arith ZArith.
Import ListNotations.
Require Import DV.Common.Base DV.Quantum.Ring DV.Quantum.Cyc32 DV.Quantum.Matrix DV.Quantum.Gates
               DV.Quantum.GatesProg.
Require Import DV.ZX.Layers DV.ZX.ZX DV.ZX.ZXGrid.
Local Open Scope Z_scope.

Definition gqgate := @qgate Cyc32 grid.
Definition gzbox := @zbox Cyc32 grid.
Definition gzxd := @zxd Cyc32 grid.

Inductive prog :=
| PCircuit2zx (c : @qcirc Cyc32 grid)
| PZxDagger (d : gzxd)
| PZxSem (d : gzxd).

(* ------------------------------------------------------------------ exact proportionality *)
Definition c32_is0 (x : Cyc32) : bool := c32_eqb x (r0 : Cyc32).

(* the first pair (a, b) of corresponding entries with b <> 0 *)
Fixpoint first_nz (A B : list Cyc32) : option (Cyc32 * Cyc32) :=
  match A, B with
  | a :: A', b :: B' => if c32_is0 b then first_nz A' B' else Some (a, b)
  | _, _ => None
  end.

Fixpoint all2 (f : Cyc32 -> Cyc32 -> bool) (A B : list Cyc32) : bool :=
  match A, B with
  | [], [] => true
  | a :: A', b :: B' => f a b && all2 f A' B'
  | _, _ => false
  end.

(* A = lam * B for some lam <> 0 (Cyc32 is a field: cross-multiplication decides it) *)
Definition proportional (A B : list Cyc32) : bool :=
  match first_nz A B with
  | None => all2 (fun a _ => c32_is0 a) A B                      (* B = 0: then A = 0 *)
  | Some (a, b) => negb (c32_is0 a) && all2 (fun x y => c32_eqb (rmul x b) (rmul a y)) A B
  end.

(* ------------------------------------------------------------------ running *)
Definition zerr_code (e : zerr) : Z :=
  match e with ZAxiomError => 1 | ZNotImplementedError => 6 | ZKeyError => 20 end.

Definition model_prop_ok (c : @qcirc Cyc32 grid) (d : gzxd) : bool :=
  proportional (zx_sem_flat d) (eval_flat (qcirc_circuit c)).

(* ------------------------------------------------------------------ codec: circuits *)
Definition dec_qgate1 (ctrl : bool) (s : sexp) : res gqgate :=
  (* ctrl: inside Controlled(...) *)
  match s with
  | L [I 0; I g; _] =>
      if ctrl then Ok (if g =? 3 then QCX else QOther 2 2)
      else match g with
           | 0 => Ok QH | 3 => Ok QX | 5 => Ok QZ
           | 1 | 2 => Ok (QOther 1 1)
           | _ => Err BadProgram
           end
  | L [I 1; I r; I k] =>
      if ctrl then Ok (QOther 2 2)
      else match r with
           | 0 => Ok (QRx (k : grid)) | 2 => Ok (QRz (k : grid)) | 1 => Ok (QOther 1 1)
           | _ => Err BadProgram
           end
  | _ => Err BadProgram
  end.

Definition dec_scalar_data (ns : sexp) (d : Z) : res Cyc32 :=
  do ns' <- sx_ints ns;
  if d <=? 0 then Err BadProgram else Ok (c32_of_nums ns' (Z.to_pos d) : Cyc32).

Definition dec_qgate (s : sexp) : res gqgate :=
  match s with
  | L [I 0; I 4; d] => do d' <- sx_bool d; Ok (QY d')
  | L [I 0; _; _] | L [I 1; _; _] => dec_qgate1 false s
  | L [I 2] => Ok QCZ
  | L [I 3; g] => dec_qgate1 true g
  | L [I 4; I r; I k] =>
      match r with
      | 0 => Ok (QCU1 (k : grid)) | 1 => Ok (QCRz (k : grid)) | 2 => Ok (QCRx (k : grid))
      | _ => Err BadProgram
      end
  | L [I 5] => Ok QSwap
  | L [I 6; b] => do b' <- dec_bits b; Ok (QKet b')
  | L [I 7; b] => do b' <- dec_bits b; Ok (QBra b')
  | L [I 8; ns; I d] => do z <- dec_scalar_data ns d; Ok (QScalar z)
  | L [I 9; I k] => Ok (QSqrt k)
  | L [I 10; _; _] => Ok QMixedScalar
  | _ => Err BadProgram
  end.

Definition dec_qlayer (s : sexp) : res (nat * gqgate) :=
  match s with
  | L [o; b] => do o' <- dec_nat o; do b' <- dec_qgate b; Ok (o', b')
  | _ => Err BadProgram
  end.

(* ------------------------------------------------------------------ codec: ZX diagrams *)
Definition dec_skind (z : Z) : res skind :=
  match z with 0 => Ok KZ | 1 => Ok KX | 2 => Ok KY | _ => Err BadProgram end.

Definition dec_zscal (s : sexp) : res (zscal Cyc32) :=
  match s with
  | L [I 0; I k] => Ok (SPow2h k)
  | L [I 1; n] => do n' <- sx_bool n; Ok (SImag n')
  | L [I 2; ns; I d] => do z <- dec_scalar_data ns d; Ok (SData z)
  | _ => Err BadProgram
  end.

Definition dec_zbox (s : sexp) : res gzbox :=
  match s with
  | L [I 0; I kind; n; m; I k] =>
      do kd <- dec_skind kind; do n' <- dec_nat n; do m' <- dec_nat m;
      Ok (ZSpider kd n' m' (k : grid))
  | L [I 1] => Ok ZHad
  | L [I 2] => Ok ZSwap
  | L [I 3; sc] => do sc' <- dec_zscal sc; Ok (ZScalar sc')
  | _ => Err BadProgram
  end.

Definition dec_zlayer (s : sexp) : res (nat * gzbox) :=
  match s with
  | L [o; b] => do o' <- dec_nat o; do b' <- dec_zbox b; Ok (o', b')
  | _ => Err BadProgram
  end.

Definition dec_prog (s : sexp) : res prog :=
  match s with
  | L [I 0; n; L ls] => do n' <- dec_nat n; do ls' <- mapM dec_qlayer ls; Ok (PCircuit2zx (GD n' ls'))
  | L [I 1; n; L ls] => do n' <- dec_nat n; do ls' <- mapM dec_zlayer ls; Ok (PZxDagger (GD n' ls'))
  | L [I 2; n; L ls] => do n' <- dec_nat n; do ls' <- mapM dec_zlayer ls; Ok (PZxSem (GD n' ls'))
  | _ => Err BadProgram
  end.

Definition enc_nat (n : nat) : sexp := I (Z.of_nat n).

Definition enc_c32_dense (x : Cyc32) : sexp := L [L (map I (c32_nums x)); I (c32_den x)].

Definition enc_zscal (s : zscal Cyc32) : sexp :=
  match s with
  | SPow2h k => L [I 0; I k]
  | SImag n => L [I 1; of_bool n]
  | SData z => L [I 2; L (map I (c32_nums z)); I (c32_den z)]
  end.

Definition enc_skind (k : skind) : Z := match k with KZ => 0 | KX => 1 | KY => 2 end.

Definition enc_zbox (b : gzbox) : sexp :=
  match b with
  | ZSpider k n m p => L [I 0; I (enc_skind k); enc_nat n; enc_nat m; I (p : Z)]
  | ZHad => L [I 1]
  | ZSwap => L [I 2]
  | ZScalar s => L [I 3; enc_zscal s]
  end.

Definition enc_zxd (d : gzxd) : sexp :=
  L [enc_nat (gd_dom d); enc_nat (gd_cod0 zbox_dom zbox_cod d);
     L (map (fun l => L [enc_nat (fst l); enc_zbox (snd l)]) (gd_layers d))].

Definition enc_sem (d : gzxd) : sexp :=
  L [enc_nat (gd_dom d); enc_nat (gd_cod0 zbox_dom zbox_cod d); L (map enc_c32 (zx_sem_flat d))].

Definition run (p : prog) : sexp :=
  match p with
  | PCircuit2zx c =>
      match circuit2zx c with
      | ZOk d => L [I 0; enc_zxd d; of_bool (model_prop_ok c d)]
      | ZErr e => L [I 1; I (zerr_code e)]
      end
  | PZxDagger d =>
      (* the constructor zx.Diagram(dom, cod, boxes, offsets) refuses boxes that do not fit *)
      if zwf d then L [I 0; enc_zxd (zdagger d)] else L [I 1; I 1]
  | PZxSem d =>
      if zwf d then L [I 0; enc_sem d] else L [I 1; I 1]
  end.

(* the single entry point of the extracted runner *)
Definition run_sexp (s : sexp) : sexp :=
  match dec_prog s with
  | Ok p => run p
  | Err e => L [I 1; I (err_code e)]
  end.
