(* Closed statements about the ZX model, the F13 witnesses computed in Cyc32, the
   correctness of the proposed repair, and non-vacuity examples.

     gate2zx_sound_l / circuit2zx_sound_l / circuit2zx_arity_l / zx_dagger_l
         the statements re-exported by Props/C16.v (for the executable zx_sem);
     crz_refuted, cu1_refuted, crx_refuted, circuit2zx_sound_refuted
         the faithful model VIOLATES the property at CRz(3/8), CU1(3/8),
         CRx(3/8): no scalar lam at all makes the ZX diagram's interpretation
         lam * eval (exact computation in Cyc32 at a generic grid phase);
     fixed_crz_sound, fixed_cu1_sound, fixed_crx_sound
         with spider phases q such that exp(2 pi i q) = exp(i pi p), i.e.
         q = p/2, the decompositions (for CRx: the corrected one) denote the gate;
     ex_*  concrete values meeting the hypotheses of the theorems. *)
From Coq Require Import List Bool Arith ZArith Lia Ring.
Import ListNotations.
Require Import DV.Common.Base.
Require Import DV.Quantum.Ring DV.Quantum.Cyc32 DV.Quantum.Matrix DV.Quantum.MatrixLemmas
               DV.Quantum.Gates DV.Quantum.GatesLemmas DV.Quantum.CircuitLemmas.
Require Import DV.ZX.Layers DV.ZX.LayersLemmas DV.ZX.ZX DV.ZX.ZXGates DV.ZX.ZXLemmas DV.ZX.ZXGrid.
Local Open Scope nat_scope.

(* ================================================================ closed statements *)
Section Closed.
  Variable SR : StarRing.
  Variable PA : PhaseAlg SR.
  Add Ring SRrW : (SR_ring SR).
  Local Open Scope sr_scope.

  Notation zcod0 := (gd_cod0 (@zbox_dom SR PA) (@zbox_cod SR PA)).

  (* for every box g the functor accepts (every supported gate, every bitstring,
     every phase) outside F13: F(g) is well-typed, has g's arity and its standard
     interpretation is gate_lam g * eval(g), gate_lam g a unit *)
  Lemma gate2zx_sound_l : forall (g : qgate PA) (d : zxd PA),
    c2z_box g = ZOk d -> f13_free g ->
    zwf d = true /\ gd_dom d = qdom g /\ zcod0 d = qcod g /\ is_unit (gate_lam g)
    /\ meq (qdom g) (qcod g) (zx_sem d) (mscale (gate_lam g) (box_eval (qgate_box g))).
  Proof.
    intros g d H F. destruct (c2z_box_ok SR PA defect_F13 g d H) as (W & D & C & S).
    split; [exact W|]. split; [exact D|]. split; [exact C|].
    split; [apply gate_lam_unit|].
    pose proof (gd_sem_is_spec SR _ (@zbox_dom SR PA) (@zbox_cod SR PA) (@zbox_sem SR PA) d W) as E.
    rewrite D, C in E. eapply meq_trans; [exact E | exact (S F)].
  Qed.

  (* the arity clause holds for every box, F13 or not *)
  Lemma gate2zx_arity_l : forall (g : qgate PA) (d : zxd PA),
    c2z_box g = ZOk d -> zwf d = true /\ gd_dom d = qdom g /\ zcod0 d = qcod g.
  Proof.
    intros g d H. destruct (c2z_box_ok SR PA defect_F13 g d H) as (W & D & C & _). auto.
  Qed.

  Lemma circuit2zx_arity_l : forall (c : qcirc PA) (d : zxd PA),
    circuit2zx c = ZOk d ->
    qwf c = true /\ zwf d = true /\ gd_dom d = gd_dom c /\ zcod d = Some (qcod0 c).
  Proof.
    intros c d H. destruct (circuit2zx_ok SR PA defect_F13 c d H) as (Wc & Wd & D & C & _).
    split; [exact Wc|]. split; [exact Wd|]. split; [exact D|].
    pose proof (wf_run _ (@zbox_dom SR PA) (@zbox_cod SR PA) d Wd) as R.
    unfold zcod, gd_cod. rewrite R, C. reflexivity.
  Qed.

  Lemma circuit2zx_sound_l : forall (c : qcirc PA) (d : zxd PA),
    circuit2zx c = ZOk d ->
    (forall l, In l (gd_layers c) -> f13_free (snd l)) ->
    wf_circuit (qcirc_circuit c) = true
    /\ is_unit (circ_lam (gd_layers c))
    /\ meq (gd_dom c) (qcod0 c) (zx_sem d)
           (mscale (circ_lam (gd_layers c)) (eval (qcirc_circuit c))).
  Proof.
    intros c d H F. destruct (circuit2zx_ok SR PA defect_F13 c d H) as (_ & _ & _ & _ & Wq & _ & S).
    split; [exact Wq|]. split; [apply circ_lam_unit | exact (S F)].
  Qed.

  (* the same for either value of the F13 switch: gate2zx as coded (true) / repaired (false) *)
  Lemma circuit2zx_sound_at_l : forall (defect : bool) (c : qcirc PA) (d : zxd PA),
    circuit2zx_at defect c = ZOk d ->
    (forall l, In l (gd_layers c) -> f13_free_at defect (snd l)) ->
    wf_circuit (qcirc_circuit c) = true
    /\ gd_dom d = gd_dom c /\ zcod d = Some (qcod0 c)
    /\ is_unit (circ_lam (gd_layers c))
    /\ meq (gd_dom c) (qcod0 c) (zx_sem d)
           (mscale (circ_lam (gd_layers c)) (eval (qcirc_circuit c))).
  Proof.
    intros df c d H F. destruct (circuit2zx_ok SR PA df c d H) as (_ & Wd & D & C & Wq & _ & S).
    split; [exact Wq|]. split; [exact D|].
    split.
    { pose proof (wf_run _ (@zbox_dom SR PA) (@zbox_cod SR PA) d Wd) as R.
      unfold zcod, gd_cod. rewrite R, C. reflexivity. }
    split; [apply circ_lam_unit | exact (S F)].
  Qed.

  Lemma zx_dagger_l : forall d : zxd PA, zwf d = true ->
    zwf (zdagger d) = true /\ gd_dom (zdagger d) = zcod0 d /\ zcod0 (zdagger d) = gd_dom d
    /\ meq (zcod0 d) (gd_dom d) (zx_sem (zdagger d)) (madj (zx_sem d)).
  Proof.
    intros d W. destruct (zx_dagger_wf SR PA d W) as (W' & D & C).
    split; [exact W'|]. split; [exact D|]. split; [exact C|]. apply zx_dagger_sem, W.
  Qed.

  (* ---------------------------------------------------------------- the proposed repair *)
  (* q plays the role of phase / 2: exp(2 pi i q) = exp(i pi p) *)
  Lemma fixed_crz_sound : forall p q : PA, pE q * pE q = pE p ->
    meq 2 2 (esem (crz_exp q)) (mscale risq2 (box_eval (qgate_box (QCRz p)))).
  Proof. intros p q H. cbn [qgate_box]. rewrite <- H. apply crz_exp_sem. Qed.

  Lemma fixed_cu1_sound : forall p q : PA, pE q * pE q = pE p ->
    meq 2 2 (esem (cu1_exp q)) (mscale risq2 (box_eval (qgate_box (QCU1 p)))).
  Proof. intros p q H. cbn [qgate_box]. rewrite <- H. apply cu1_exp_sem. Qed.

  Lemma fixed_crx_sound : forall p q : PA, pE q * pE q = pE p ->
    meq 2 2 (esem (crx_fixed_exp q)) (mscale risq2 (box_eval (qgate_box (QCRx p)))).
  Proof. intros p q H. cbn [qgate_box]. rewrite <- H. apply crx_fixed_exp_sem. Qed.
End Closed.

(* ================================================================ F13 in Cyc32 *)
Add Ring C32rW : (SR_ring Cyc32).

Lemma c32_eqb_refl : forall x : Cyc32, c32_eqb x x = true.
Proof.
  intro x. unfold c32_eqb, ceqb.
  replace (csub x x) with (r0 : Cyc32) by (change (r0 = rsub x x :> Cyc32); ring).
  vm_compute. reflexivity.
Qed.

(* two entries that no common factor explains *)
Lemma not_proportional : forall (A B : mat Cyc32) m n i0 o0 i1 o1,
  length i0 = m -> length o0 = n -> length i1 = m -> length o1 = n ->
  c32_eqb (rmul (A i1 o1) (B i0 o0)) (rmul (A i0 o0) (B i1 o1)) = false ->
  ~ exists lam, meq m n A (mscale lam B).
Proof.
  intros A B m n i0 o0 i1 o1 L1 L2 L3 L4 Hne [lam H].
  pose proof (H i0 o0 L1 L2) as H0. pose proof (H i1 o1 L3 L4) as H1.
  unfold mscale in H0, H1.
  assert (E : rmul (A i1 o1) (B i0 o0) = rmul (A i0 o0) (B i1 o1)) by (rewrite H0, H1; ring).
  rewrite E, c32_eqb_refl in Hne. discriminate Hne.
Qed.

Definition g38 : grid := 6%Z.                      (* the phase 3/8 = 6/16 *)
Definition one_box (g : qgate grid) : qcirc grid := GD (qdom g) [(0, g)].

(* about gate2zx AS CODED (the switch defect_F13 on), whatever the current value of the switch *)
Definition not_sound (c : qcirc grid) : Prop :=
  exists d, circuit2zx_at true c = ZOk d
    /\ ~ exists lam, meq (gd_dom c) (qcod0 c) (zx_sem d) (mscale lam (eval (qcirc_circuit c))).

Ltac refute i0 i1 :=
  eexists; split; [reflexivity|];
  apply (not_proportional _ _ 2 2 i0 i0 i1 i1 eq_refl eq_refl eq_refl eq_refl);
  vm_compute; reflexivity.

(* circuit2zx(CRz(3/8)) is not a multiple of CRz(3/8).eval() *)
Lemma crz_refuted : not_sound (one_box (QCRz g38)).
Proof. refute [false; false] [true; false]. Qed.

Lemma cu1_refuted : not_sound (one_box (QCU1 g38)).
Proof. refute [false; false] [true; true]. Qed.

Lemma crx_refuted : not_sound (one_box (QCRx g38)).
Proof. refute [false; false] [true; false]. Qed.

(* also at the phases 1/2 and 1, which are not "generic": CU1(1/2) = CZ is sent to
   a diagram denoting the identity; CRz(1) = diag(1, 1, -1, -1) likewise *)
Lemma cu1_half_refuted : not_sound (one_box (QCU1 (8%Z : grid))).
Proof. refute [false; false] [true; true]. Qed.

Lemma crz_one_refuted : not_sound (one_box (QCRz (16%Z : grid))).
Proof. refute [false; false] [true; false]. Qed.

(* the property as stated (no exclusion) fails in the faithful model *)
Lemma circuit2zx_sound_refuted :
  exists (SR : StarRing) (PA : PhaseAlg SR) (c : qcirc PA) (d : zxd PA),
    circuit2zx_at true c = ZOk d
    /\ ~ exists lam, meq (gd_dom c) (qcod0 c) (zx_sem d) (mscale lam (eval (qcirc_circuit c))).
Proof.
  destruct crz_refuted as [d [H1 H2]].
  exists Cyc32, grid, (one_box (QCRz g38)), d. split; assumption.
Qed.

(* ================================================================ non-vacuity *)
(* Ket(0, 1) >> H @ Rz(5/16) >> CX >> CRz(0) >> X @ Y.dagger() >> SWAP >> Id(1) @ Bra(1),
   with a scalar and a sqrt: every kind of supported box, phases on the grid *)
Definition ex_circuit : qcirc grid :=
  GD 0 [(0, QKet [false; true]); (0, QH); (1, QRz (5%Z : grid)); (0, QCX);
        (0, QCRz (0%Z : grid)); (0, QX); (1, QY true); (0, QSwap);
        (2, QScalar (ri : Cyc32)); (0, QSqrt 3%Z); (0, QCZ); (0, QCU1 (16%Z : grid));
        (0, QRx (7%Z : grid)); (1, QBra [true])].

Example ex_circuit_hyps :
  (exists d, circuit2zx ex_circuit = ZOk d)
  /\ (forall l, In l (gd_layers ex_circuit) -> f13_free (snd l)).
Proof.
  split.
  - eexists. reflexivity.
  - intros l H. unfold ex_circuit in H. cbn [gd_layers In] in H.
    repeat match type of H with
           | _ \/ _ => destruct H as [H|H];
               [subst l; cbn [snd f13_free];
                first [exact Logic.I | apply c32_eqb_ok; vm_compute; reflexivity] |]
           end.
    contradiction.
Qed.

(* a ZX diagram with every kind of box for the dagger theorem *)
Definition ex_zx : zxd grid :=
  GD 2 [(0, ZSpider KZ 1 2 (4%Z : grid)); (3, ZScalar (SImag false)); (0, ZSwap); (0, ZHad);
        (1, ZSpider KY 2 0 (5%Z : grid)); (1, ZSpider KX 0 2 ((-3)%Z : grid)); (0, ZScalar (SPow2h (-3)%Z))].

Example ex_zx_hyps : zwf ex_zx = true.
Proof. vm_compute. reflexivity. Qed.

(* with the switch off the same three circuits are translated soundly (q = 3/16) *)
Example ex_repaired_hyps :
  forall g, In g [QCRz g38; QCU1 g38; QCRx g38] -> f13_free_at false (g : qgate grid).
Proof.
  intros g [<-|[<-|[<-|[]]]]; cbn [f13_free_at]; apply c32_eqb_ok; vm_compute; reflexivity.
Qed.

(* the fix hypothesis is satisfiable on the grid: q = 3/16 is half of p = 6/16 *)
Example ex_fix_hyp : rmul (pE (3%Z : grid)) (pE (3%Z : grid)) = pE (6%Z : grid).
Proof. apply c32_eqb_ok. vm_compute. reflexivity. Qed.
