(* First half of the proofs about the ZX model (ZX.v) -- the second half is
   ZXLemmas.v.  Over every StarRing and every phase algebra (hence every real phase),

     - the interpretation of the Python expressions of gate2zx is structural
       (esem_ok), every diagram gate2zx builds is well-typed with the arity of
       its gate (c2z_box_arity);
     - gate by gate, the standard interpretation of gate2zx(g) is
       gate_lam g * eval(g) with gate_lam g an explicit unit (c2z_box_sound),
       for Ket / Bra of every bitstring by induction, for the controlled
       rotations in the general form "the diagram built from the spider phase q
       denotes the gate at exp(i pi p) := exp(2 pi i q)" (crz_exp_sem,
       cu1_exp_sem), which is both the exact description of finding F13 (the
       code takes q = p: it denotes the gate at 2p) and the correctness proof
       of the proposed fix (q = p/2);
     - by functoriality circuit2zx(c) denotes circ_lam c * eval(c), one unit for
       the whole circuit (circuit2zx_sound), and has the arity of c
       (circuit2zx_arity);
     - the dagger of a ZX diagram denotes the conjugate transpose
       (zx_dagger_sem), for all spiders of all arities;
     - the closed form x_sp of the X spider is the Hadamard conjugate of the Z
       spider for all arities (x_sp_is_hadamard_conjugate), likewise y_sp. *)
From Coq Require Import List Bool Arith ZArith Lia Ring.
Import ListNotations.
Require Import DV.Common.Base.
Require Import DV.Quantum.Ring DV.Quantum.Matrix DV.Quantum.MatrixLemmas DV.Quantum.Gates
               DV.Quantum.GatesLemmas DV.Quantum.CircuitLemmas.
Require Import DV.ZX.Layers DV.ZX.LayersLemmas DV.ZX.ZX.
Local Open Scope nat_scope.

Section ZXGates.
  Variable SR : StarRing.
  Variable PA : PhaseAlg SR.
  Add Ring SRrZ : (SR_ring SR).
  Local Open Scope sr_scope.
  Implicit Types (e : zexp PA) (b : zbox PA) (g : qgate PA) (d : zxd PA) (p q : PA) (A : mat SR).

  Notation zdom := (@zbox_dom SR PA).
  Notation zcodb := (@zbox_cod SR PA).
  Notation zsem := (@zbox_sem SR PA).
  Notation zcod0 := (gd_cod0 zdom zcodb).
  Notation spec := (@zx_sem_spec SR PA).

  Let Hi := i_sq SR.
  Let Hh := half_2 SR.
  Let Hq := isq2_sq SR.

  Ltac conj_norm :=
    repeat progress rewrite ?(conj_mul SR), ?(conj_add SR), ?(conj_sub SR), ?(conj_opp SR), ?(conj_invol SR),
            ?(conj_i SR), ?(conj_half SR), ?(conj_isq2 SR), ?(conj_0 SR), ?(conj_1 SR).

  (* ================================================================ expressions *)
  Lemma esem_ok : forall e, ewt e = true ->
    zwf (edenote e) = true /\ gd_dom (edenote e) = edom e /\ zcod0 (edenote e) = ecod e
    /\ meq (edom e) (ecod e) (spec (edenote e)) (esem e).
  Proof.
    induction e as [b|n|a IHa b IHb|a IHa b IHb]; intro H; cbn [ewt] in H.
    - destruct (gd_box_wf _ zdom zcodb b) as [W C].
      split; [exact W|]. split; [reflexivity|]. split; [exact C|]. apply (gd_box_spec SR _ zdom zcodb zsem b).
    - split; [reflexivity|]. split; [reflexivity|]. split; [reflexivity|]. apply meq_refl.
    - apply andb_true_iff in H as [H Hm]. apply andb_true_iff in H as [Ha Hb].
      apply Nat.eqb_eq in Hm.
      destruct (IHa Ha) as (Wa & Da & Ca & Ea). destruct (IHb Hb) as (Wb & Db & Cb & Eb).
      assert (Hmid : zcod0 (edenote a) = gd_dom (edenote b)) by congruence.
      destruct (gd_then_wf _ zdom zcodb _ _ Wa Wb Hmid) as (W & D & C).
      cbn [edenote edom ecod esem]. unfold zthen.
      split; [exact W|]. split; [congruence|]. split; [congruence|].
      pose proof (gd_then_spec SR _ zdom zcodb zsem _ _ Wa Wb Hmid) as E.
      rewrite Da, Cb, Ca in E.
      eapply meq_trans; [exact E|].
      apply mmul_compat; [exact Ea | rewrite Hm; exact Eb].
    - apply andb_true_iff in H as [Ha Hb].
      destruct (IHa Ha) as (Wa & Da & Ca & Ea). destruct (IHb Hb) as (Wb & Db & Cb & Eb).
      destruct (gd_tensor_wf _ zdom zcodb _ _ Wa Wb) as (W & D & C).
      cbn [edenote edom ecod esem]. unfold ztensor.
      split; [exact W|]. split; [congruence|]. split; [congruence|].
      pose proof (gd_tensor_spec SR _ zdom zcodb zsem _ _ Wa Wb) as E.
      rewrite Da, Db, Ca, Cb in E.
      eapply meq_trans; [exact E|].
      apply kron_compat; assumption.
  Qed.

  (* ================================================================ small facts *)
  Lemma isq2_sq_half : risq2 * risq2 = (rhalf : SR).
  Proof.
    transitivity ((1 + 1) * (risq2 * risq2) * rhalf : SR).
    - transitivity (((1 + 1) * rhalf) * (risq2 * risq2) : SR); [rewrite half_2; ring | ring].
    - rewrite isq2_sq. ring.
  Qed.

  Lemma rpow_add : forall (x : SR) m n, rpow x (m + n) = rpow x m * rpow x n.
  Proof. induction m; intro n; cbn; [ring | rewrite IHm; ring]. Qed.

  Lemma rpow_mul_base : forall (x y : SR) n, rpow (x * y) n = rpow x n * rpow y n.
  Proof. induction n; cbn; [ring | rewrite IHn; ring]. Qed.

  Lemma rpow_one : forall n, rpow (1 : SR) n = 1.
  Proof. induction n; cbn; [reflexivity | rewrite IHn; ring]. Qed.

  Lemma sqrt2_isq2_pow : forall n, rpow rsqrt2 n * rpow risq2 n = (1 : SR).
  Proof. intro n. rewrite <- rpow_mul_base, sqrt2_isq2. apply rpow_one. Qed.

  Lemma sqrt2_pow_neg_nat : forall n, rpow rsqrt2 n * sqrt2_pow (- Z.of_nat n) = (1 : SR).
  Proof.
    destruct n as [|n]; [cbn; ring|].
    cbn [Z.of_nat Z.opp sqrt2_pow]. rewrite SuccNat2Pos.id_succ. apply sqrt2_isq2_pow.
  Qed.

  Lemma sqrt2_pow_double : forall k, sqrt2_pow (2 * k) = (sqrt2_pow k * sqrt2_pow k : SR).
  Proof.
    destruct k as [|p|p]; cbn [Z.mul sqrt2_pow]; [ring | |];
      rewrite Pos2Nat.inj_xO; replace (2 * Pos.to_nat p)%nat with (Pos.to_nat p + Pos.to_nat p)%nat by lia;
      apply rpow_add.
  Qed.

  Lemma unit_sqrt2_pow : forall k, is_unit (sqrt2_pow k : SR).
  Proof.
    destruct k; cbn; [apply unit_one | apply unit_rpow, unit_sqrt2 | apply unit_rpow, unit_isq2].
  Qed.

  Lemma sgn_app : forall x y, sgn (x ++ y) = (sgn x * sgn y : SR).
  Proof.
    induction x as [|[] x IH]; intro y; cbn [app sgn]; [ring | rewrite IH; ring | apply IH].
  Qed.

  Lemma conj_sgn : forall x, rconj (sgn x : SR) = sgn x.
  Proof.
    induction x as [|[] x IH]; cbn [sgn]; [apply conj_1 | rewrite conj_opp, IH; reflexivity | exact IH].
  Qed.

  Lemma conj_ipow : forall neg x, rconj (ipow neg x : SR) = ipow (negb neg) x.
  Proof.
    intros neg x. induction x as [|[] x IH]; cbn [ipow]; [apply conj_1 | | exact IH].
    rewrite conj_mul, IH. destruct neg; cbn [negb]; conj_norm; ring.
  Qed.

  (* ================================================================ dagger of a box *)
  Lemma zbox_dagger_dom : forall b, zdom (zbox_dagger b) = zcodb b.
  Proof. destruct b; reflexivity. Qed.
  Lemma zbox_dagger_cod : forall b, zcodb (zbox_dagger b) = zdom b.
  Proof. destruct b; reflexivity. Qed.

  (* the dagger rule of spiders: swap the arities, negate the phase; all arities *)
  Lemma spider_dagger : forall k n m (a : SR) i o,
    spider_sem k m n (rconj a) i o = madj (spider_sem k n m a) i o.
  Proof.
    intros k n m a i o. unfold madj. destruct k; cbn [spider_sem].
    - unfold z_sp. conj_norm. rewrite !conj_delta. ring.
    - unfold x_sp. conj_norm.
      rewrite (conj_rpow_real SR risq2 (n + m) (conj_isq2 SR)), conj_sgn, !sgn_app.
      rewrite (Nat.add_comm m n). ring.
    - unfold y_sp. conj_norm.
      rewrite (conj_rpow_real SR risq2 (n + m) (conj_isq2 SR)), !conj_ipow.
      rewrite (Nat.add_comm m n). cbn [negb]. ring.
  Qed.

  Lemma zscal_dagger_sem : forall s : zscal SR, zscal_sem (zscal_dagger s) = rconj (zscal_sem s).
  Proof.
    destruct s as [k|[]|z]; cbn [zscal_dagger zscal_sem negb].
    - symmetry. apply conj_sqrt2_pow.
    - conj_norm. ring.
    - conj_norm. reflexivity.
    - reflexivity.
  Qed.

  Lemma zbox_dagger_sem : forall b,
    meq (zcodb b) (zdom b) (zsem (zbox_dagger b)) (madj (zsem b)).
  Proof.
    destruct b as [k n m p| | |s]; cbn [zbox_dagger zbox_sem zbox_dom zbox_cod].
    - intros i o _ _. rewrite pE_neg, <- conj_mul. apply spider_dagger.
    - intros i o Hi' Ho'. dbits; unfold madj, had_mat, mat_of_flat; cbn; conj_norm; ring.
    - intros i o Hi' Ho'. dbits; unfold madj, mat_of_flat; cbn; conj_norm; ring.
    - intros i o _ _. unfold madj. apply zscal_dagger_sem.
  Qed.

  (* d.dagger() is well-typed with dom and cod exchanged and denotes the conjugate transpose *)
  Lemma zx_dagger_wf : forall d, zwf d = true ->
    zwf (zdagger d) = true /\ gd_dom (zdagger d) = zcod0 d /\ zcod0 (zdagger d) = gd_dom d.
  Proof. intros d H. apply (gd_dagger_wf _ zdom zcodb zbox_dagger zbox_dagger_dom zbox_dagger_cod d H). Qed.

  Lemma zx_dagger_sem : forall d, zwf d = true ->
    meq (zcod0 d) (gd_dom d) (zx_sem (zdagger d)) (madj (zx_sem d)).
  Proof.
    intros d H.
    apply (gd_dagger_sem SR _ zdom zcodb zsem zbox_dagger
             zbox_dagger_dom zbox_dagger_cod zbox_dagger_sem d H).
  Qed.

  Lemma zx_dagger_spec : forall d, zwf d = true ->
    meq (zcod0 d) (gd_dom d) (spec (zdagger d)) (madj (spec d)).
  Proof.
    intros d H.
    apply (gd_dagger_spec SR _ zdom zcodb zsem zbox_dagger
             zbox_dagger_dom zbox_dagger_cod zbox_dagger_sem d H).
  Qed.

  (* ================================================================ gate by gate *)
  (* entries of the interpretation of a small expression against a gate of
     Gates.v: split the indices into bits, unfold, compute, and decide the
     polynomial identity modulo i^2 = -1, 2*half = 1, 2*isq2^2 = 1, e*conj e = 1 *)
  Ltac unfold_all :=
    unfold crz_exp, crx_exp, crx_fixed_exp, cu1_exp, y_exp, cz_exp, cx_exp, spider, escalar;
    cbn [esem edom ecod zbox_sem zbox_dom zbox_cod spider_sem zscal_sem qgate_box gate_lam];
    rewrite ?pE_neg, ?pE_zero, ?pE_half;
    unfold box_eval, gate1_eval, gate2_eval; cbn [gate1_is_dagger];
    unfold mmul, kron, mscale, madj, z_sp, x_sp, mid, delta, had_mat, mat_of_flat;
    cbn -[pcos psin rconj]; unfold pcos, psin; conj_norm; rewrite <- ?isq2_sq_half.

  Ltac brute :=
    unfold_all;
    first [ ring
          | ring [Hi Hh Hq]
          | match goal with He : ?e * rconj ?e = 1 |- _ => ring [Hi Hh Hq He] end ].

  Ltac with_phase p :=
    let He := fresh "He" in pose proof (pE_phase _ PA p) as He; unfold is_phase in He.

  Lemma h_exp_sem : meq 1 1 (esem (EBox (@ZHad SR PA))) (mscale 1 (box_eval (qgate_box (@QH SR PA)))).
  Proof. intros i o Hi' Ho'. dbits; brute. Qed.

  Lemma z_exp_sem : meq 1 1 (esem (spider KZ 1 1 (@phalf SR PA))) (mscale 1 (box_eval (qgate_box (@QZ SR PA)))).
  Proof. intros i o Hi' Ho'. dbits; brute. Qed.

  Lemma x_exp_sem : meq 1 1 (esem (spider KX 1 1 (@phalf SR PA))) (mscale 1 (box_eval (qgate_box (@QX SR PA)))).
  Proof. intros i o Hi' Ho'. dbits; brute. Qed.

  Lemma y_exp_sem : meq 1 1 (esem (@y_exp SR PA)) (mscale 1 (box_eval (qgate_box (@QY SR PA false)))).
  Proof. intros i o Hi' Ho'. dbits; brute. Qed.

  Lemma y_exp_dagger_sem :
    meq 1 1 (madj (esem (@y_exp SR PA))) (mscale 1 (box_eval (qgate_box (@QY SR PA true)))).
  Proof. intros i o Hi' Ho'. dbits; brute. Qed.

  Lemma cx_exp_sem : meq 2 2 (esem (@cx_exp SR PA)) (mscale risq2 (box_eval (qgate_box (@QCX SR PA)))).
  Proof. intros i o Hi' Ho'. dbits; brute. Qed.

  Lemma cz_exp_sem : meq 2 2 (esem (@cz_exp SR PA)) (mscale risq2 (box_eval (qgate_box (@QCZ SR PA)))).
  Proof. intros i o Hi' Ho'. dbits; brute. Qed.

  Lemma rz_exp_sem : forall p,
    meq 1 1 (esem (spider KZ 1 1 p)) (mscale (pE p) (box_eval (qgate_box (QRz p)))).
  Proof. intros p i o Hi' Ho'. with_phase p. dbits; brute. Qed.

  Lemma rx_exp_sem : forall p,
    meq 1 1 (esem (spider KX 1 1 p)) (mscale (pE p) (box_eval (qgate_box (QRx p)))).
  Proof. intros p i o Hi' Ho'. with_phase p. dbits; brute. Qed.

  (* THE CONTROLLED ROTATIONS.  The diagram built from the spider phase q denotes
     the gate whose half-angle unit exp(i pi p) is exp(2 pi i q) = pE q * pE q. *)
  Lemma crz_exp_sem : forall q,
    meq 2 2 (esem (crz_exp q)) (mscale risq2 (box_eval (BG2 (G2Rot RCRz (pE q * pE q))))).
  Proof. intros q i o Hi' Ho'. with_phase q. dbits; brute. Qed.

  Lemma cu1_exp_sem : forall q,
    meq 2 2 (esem (cu1_exp q)) (mscale risq2 (box_eval (BG2 (G2Rot RCU1 (pE q * pE q))))).
  Proof. intros q i o Hi' Ho'. with_phase q. dbits; brute. Qed.

  (* CRx as coded: X spiders on the control too; right only at the trivial phase *)
  Lemma crx_exp_sem_trivial : forall q, pE q = 1 ->
    meq 2 2 (esem (crx_exp q)) (mscale risq2 (box_eval (BG2 (G2Rot RCRx (1 : SR))))).
  Proof.
    intros q H1 i o Hi' Ho'.
    dbits; unfold crx_exp, spider; cbn [esem edom ecod zbox_sem zbox_dom zbox_cod spider_sem];
      rewrite ?pE_neg, ?pE_zero, ?H1; brute.
  Qed.

  (* the repaired CRx diagram (ZX.v: crx_fixed_exp), q standing for phase / 2 *)
  Lemma crx_fixed_exp_sem : forall q,
    meq 2 2 (esem (crx_fixed_exp q)) (mscale risq2 (box_eval (BG2 (G2Rot RCRx (pE q * pE q))))).
  Proof.
    intros q i o Hi' Ho'. with_phase q.
    dbits; brute.
  Qed.
End ZXGates.
