(* Common definitions: errors as values, S-expressions of integers (the wire
   format between the Python harness and the extracted model), Python slicing. *)
From Coq Require Import List ZArith Bool Lia.
Import ListNotations.
Open Scope Z_scope.

Inductive err :=
| AxiomError | InterchangerError | IndexError | ValueError | TypeError
| NotImplementedError | OutOfFuel | BadProgram | AttributeError.

Inductive res (A : Type) := Ok (a : A) | Err (e : err).
Arguments Ok {A}. Arguments Err {A}.

Definition bind {A B} (x : res A) (f : A -> res B) : res B :=
  match x with Ok a => f a | Err e => Err e end.
Notation "'do' x <- a ; b" := (bind a (fun x => b))
  (at level 200, x pattern, a at level 100, b at level 200).

Definition err_code (e : err) : Z :=
  match e with
  | AxiomError => 1 | InterchangerError => 2 | IndexError => 3 | ValueError => 4
  | TypeError => 5 | NotImplementedError => 6 | OutOfFuel => 7 | BadProgram => 8
  | AttributeError => 9
  end.

(* wire format: nested lists of integers *)
Inductive sexp := I (z : Z) | L (l : list sexp).

Definition len {A} (l : list A) : Z := Z.of_nat (length l).

(* ---- Python slicing, step 1: l[start:stop] with None / negative / overlong indices ---- *)
Definition clip (n : Z) (i : option Z) (default : Z) : Z :=
  match i with
  | None => default
  | Some i => if i <? 0 then Z.max (i + n) 0 else Z.min i n
  end.

Definition py_slice {A} (l : list A) (start stop : option Z) : list A :=
  let n := len l in
  let s := clip n start 0 in
  let e := clip n stop n in
  firstn (Z.to_nat (e - s)) (skipn (Z.to_nat s) l).

(* ---- step -1: l[start:stop:-1] ---- *)
Definition clip_rev (n : Z) (i : option Z) (default : Z) : Z :=
  match i with
  | None => default
  | Some i => if i <? 0 then (if i + n <? 0 then -1 else i + n) else Z.min i (n - 1)
  end.

Definition py_slice_rev {A} (l : list A) (start stop : option Z) : list A :=
  let n := len l in
  let s := clip_rev n start (n - 1) in
  let e := clip_rev n stop (-1) in
  (* elements at positions s, s-1, ..., e+1 *)
  rev (firstn (Z.to_nat (s - e)) (skipn (Z.to_nat (e + 1)) l)).

(* Python list indexing l[i] with negative indices; IndexError when out of range *)
Definition py_index {A} (l : list A) (i : Z) : res A :=
  let n := len l in
  let j := if i <? 0 then i + n else i in
  if (j <? 0) || (n <=? j) then Err IndexError
  else match nth_error l (Z.to_nat j) with Some x => Ok x | None => Err IndexError end.

Fixpoint mapM {A B} (f : A -> res B) (l : list A) : res (list B) :=
  match l with
  | [] => Ok []
  | x :: xs => do y <- f x; do ys <- mapM f xs; Ok (y :: ys)
  end.

Fixpoint list_eqb {A} (eqb : A -> A -> bool) (a b : list A) : bool :=
  match a, b with
  | [], [] => true
  | x :: a', y :: b' => eqb x y && list_eqb eqb a' b'
  | _, _ => false
  end.

Definition opt_eqb {A} (eqb : A -> A -> bool) (a b : option A) : bool :=
  match a, b with
  | None, None => true
  | Some x, Some y => eqb x y
  | _, _ => false
  end.

(* decoding helpers for the wire format *)
Definition sx_int (s : sexp) : res Z := match s with I z => Ok z | _ => Err BadProgram end.
Definition sx_list (s : sexp) : res (list sexp) := match s with L l => Ok l | _ => Err BadProgram end.
Definition sx_bool (s : sexp) : res bool := match s with I z => Ok (negb (z =? 0)) | _ => Err BadProgram end.
Definition sx_opt (s : sexp) : res (option Z) :=
  match s with L [] => Ok None | L [I z] => Ok (Some z) | _ => Err BadProgram end.
Definition sx_ints (s : sexp) : res (list Z) := do l <- sx_list s; mapM sx_int l.

Definition of_bool (b : bool) : sexp := I (if b then 1 else 0).
Definition of_opt (o : option Z) : sexp := match o with None => L [] | Some z => L [I z] end.
Definition of_ints (l : list Z) : sexp := L (map I l).
