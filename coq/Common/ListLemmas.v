(* List and Python-slicing facts used throughout. *)
From Coq Require Import List ZArith Bool Lia.
Import ListNotations.
Require Import DV.Common.Base.
Open Scope Z_scope.

Lemma len_app {A} (a b : list A) : len (a ++ b) = len a + len b.
Proof. unfold len. rewrite app_length. lia. Qed.
Lemma len_nonneg {A} (a : list A) : 0 <= len a.
Proof. unfold len. lia. Qed.
Lemma len_nil {A} : len (@nil A) = 0.
Proof. reflexivity. Qed.
Lemma len_cons {A} (x : A) l : len (x :: l) = 1 + len l.
Proof. unfold len. cbn [length]. lia. Qed.
Lemma len_map {A B} (f : A -> B) l : len (map f l) = len l.
Proof. unfold len. now rewrite map_length. Qed.
Lemma len_rev {A} (l : list A) : len (rev l) = len l.
Proof. unfold len. now rewrite rev_length. Qed.
Lemma len_zero_nil {A} (l : list A) : len l = 0 -> l = [].
Proof. destruct l; [auto|]. rewrite len_cons. pose proof (len_nonneg l). lia. Qed.

Lemma py_slice_prefix {A} (l : list A) i : 0 <= i ->
  py_slice l None (Some i) = firstn (Z.to_nat i) l.
Proof.
  intros Hi. unfold py_slice, clip. destruct (i <? 0) eqn:E; [lia|].
  cbn [skipn Z.to_nat]. rewrite Z.sub_0_r.
  destruct (Z.min_spec i (len l)) as [[H ->]|[H ->]]; [reflexivity|].
  unfold len in *. rewrite Nat2Z.id. rewrite firstn_all. rewrite firstn_all2; [auto|lia].
Qed.

Lemma py_slice_suffix {A} (l : list A) i : 0 <= i ->
  py_slice l (Some i) None = skipn (Z.to_nat i) l.
Proof.
  intros Hi. unfold py_slice, clip. destruct (i <? 0) eqn:E; [lia|].
  destruct (Z.min_spec i (len l)) as [[H ->]|[H ->]].
  - apply firstn_all2. rewrite skipn_length. unfold len in *. lia.
  - unfold len in *. rewrite Nat2Z.id, Z.sub_diag. cbn [Z.to_nat firstn].
    rewrite !skipn_all2; auto; lia.
Qed.

Lemma py_slice_all {A} (l : list A) : py_slice l None None = l.
Proof.
  unfold py_slice, clip. cbn [skipn Z.to_nat]. rewrite Z.sub_0_r.
  unfold len. rewrite Nat2Z.id. apply firstn_all.
Qed.

Lemma py_slice_mid {A} (l : list A) i j : 0 <= i -> 0 <= j ->
  py_slice l (Some i) (Some j) = firstn (Z.to_nat (Z.min j (len l) - Z.min i (len l))) (skipn (Z.to_nat (Z.min i (len l))) l).
Proof.
  intros Hi Hj. unfold py_slice, clip.
  destruct (i <? 0) eqn:E1; [lia|]. destruct (j <? 0) eqn:E2; [lia|]. reflexivity.
Qed.

(* splitting a list at a prefix / suffix slice *)
Lemma py_slice_split {A} (l : list A) i : 0 <= i ->
  py_slice l None (Some i) ++ py_slice l (Some i) None = l.
Proof. intros. rewrite py_slice_prefix, py_slice_suffix by auto. apply firstn_skipn. Qed.

Lemma app_eq_len_split {A} (a b c d : list A) :
  a ++ b = c ++ d -> length a = length c -> a = c /\ b = d.
Proof.
  revert c. induction a as [|x a IH]; destruct c as [|y c]; cbn; intros H L; try discriminate; auto.
  inversion H; subst. inversion L. destruct (IH _ H2 H1); subst; auto.
Qed.

Lemma firstn_app_exact {A} (a b : list A) : firstn (length a) (a ++ b) = a.
Proof. rewrite firstn_app, Nat.sub_diag, firstn_all. cbn. apply app_nil_r. Qed.
Lemma skipn_app_exact {A} (a b : list A) : skipn (length a) (a ++ b) = b.
Proof. rewrite skipn_app, Nat.sub_diag, skipn_all. reflexivity. Qed.

(* the overlap lemma behind interchange: if l0 ++ c ++ r0 = l1 ++ d ++ r1 and
   l1 ++ d fits inside l0, then l0 = l1 ++ d ++ m and r1 = m ++ c ++ r0 *)
Lemma app_overlap {A} (l0 c r0 l1 d r1 : list A) :
  l0 ++ c ++ r0 = l1 ++ d ++ r1 -> (length l1 + length d <= length l0)%nat ->
  let m := skipn (length (l1 ++ d)) l0 in
  l0 = l1 ++ d ++ m /\ r1 = m ++ c ++ r0.
Proof.
  intros H Hle m. subst m.
  rewrite <- (firstn_skipn (length (l1 ++ d)) l0) in H at 1.
  rewrite <- app_assoc in H. rewrite (app_assoc l1 d r1) in H.
  apply app_eq_len_split in H.
  - destruct H as [H1 H2]. split; [|auto].
    rewrite <- (firstn_skipn (length (l1 ++ d)) l0) at 1. rewrite H1, <- app_assoc. reflexivity.
  - rewrite firstn_length, app_length. lia.
Qed.

Lemma nth_error_split3 {A} (l : list A) i x y :
  nth_error l i = Some x -> nth_error l (S i) = Some y ->
  l = firstn i l ++ [x; y] ++ skipn (2 + i) l.
Proof.
  revert i. induction l as [|a l IH]; intros [|i] Hx Hy; cbn in *; try discriminate.
  - inversion Hx; subst. destruct l; cbn in *; try discriminate. inversion Hy; subst; auto.
  - f_equal. apply IH; auto.
Qed.

Lemma list_eqb_eq {A} (eqb : A -> A -> bool) :
  (forall x y, eqb x y = true <-> x = y) ->
  forall a b, list_eqb eqb a b = true <-> a = b.
Proof.
  intros Heq. induction a as [|x a IH]; destruct b as [|y b]; cbn; try (split; congruence).
  rewrite andb_true_iff, Heq, IH. split; [intros []; congruence|intros H; inversion H; auto].
Qed.

Lemma opt_eqb_eq {A} (eqb : A -> A -> bool) :
  (forall x y, eqb x y = true <-> x = y) ->
  forall a b, opt_eqb eqb a b = true <-> a = b.
Proof.
  intros Heq [x|] [y|]; cbn; try (split; congruence).
  rewrite Heq. split; [congruence|intros H; inversion H; auto].
Qed.

Lemma mapM_ok_length {A B} (f : A -> res B) l l' : mapM f l = Ok l' -> length l' = length l.
Proof.
  revert l'. induction l as [|x l IH]; cbn; intros l' H.
  - inversion H; reflexivity.
  - destruct (f x); cbn in H; [|discriminate]. destruct (mapM f l); cbn in H; [|discriminate].
    inversion H; subst. cbn. f_equal. apply IH; reflexivity.
Qed.
