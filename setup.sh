#!/bin/sh
# Build the whole development from files on disk only (offline).
set -e
here=$(cd "$(dirname "$0")" && pwd)
"$here/tools/gen_coqproject.sh"
cd "$here/coq"
coq_makefile -f _CoqProject -o Makefile >/dev/null
# -k: a file that fails to compile must not prevent the others from being built; every
# check re-builds (and insists on) its own Props target, so a failure shows up there.
timeout 3000 make -k -j16 > "$here/coq/build.log" 2>&1 || { echo "WARNING: some Coq files failed to build:"; grep -B2 -A6 "^Error" "$here/coq/build.log" | head -40; }
cd "$here"
for spec in $(cat runner/models.txt); do
  name=$(echo "$spec" | cut -d: -f1); vfile=$(echo "$spec" | cut -d: -f2)
  entry=$(echo "$spec" | cut -d: -f4)
  if [ -f "coq/Extract/$vfile" ]; then ./runner/build.sh "$name" "$vfile" $entry || echo "WARNING: runner $name failed to build"; fi
done
echo "setup ok"
