#!/bin/sh
# Build the whole development from files on disk only (offline).
set -e
here=$(cd "$(dirname "$0")" && pwd)
"$here/tools/gen_coqproject.sh"
cd "$here/coq"
coq_makefile -f _CoqProject -o Makefile >/dev/null
timeout 3000 make -j16 > "$here/coq/build.log" 2>&1 || { tail -40 "$here/coq/build.log"; exit 1; }
cd "$here"
for spec in $(cat runner/models.txt); do
  name=$(echo "$spec" | cut -d: -f1); vfile=$(echo "$spec" | cut -d: -f2)
  entry=$(echo "$spec" | cut -d: -f4)
  if [ -f "coq/Extract/$vfile" ]; then ./runner/build.sh "$name" "$vfile" $entry; fi
done
echo "setup ok"
